'''C15 helper: the family of real Fortran programs, the projection of a real
PSyIR tree to the abstract program of TreeCopy.tla, the application of one
operation of the model's alphabet to real trees and the observation of both
sides (original subtree / copy).  Nothing here judges the property: the
recorded observations are handed to TLC (Trace_TreeCopy.tla).

Abstract program (ids are 1-based positions):
  node = {kind, kids, tab, par, uses:[{role, sym}]}
  sym  = {name, tab, cls, ifc, arr, const, acc, deps:[{role, sym}]}
Paths are lists of 0-based child indexes over the ABSTRACT children:
  file/container/routine/sched -> their real children,
  loop -> [loop_body],  if -> [if_body(, else_body)],  assign/call -> [].
'''
# pylint: disable=import-outside-toplevel
ROLES_DECL = ("kind", "shape", "init", "ifc")


class Unsupported(Exception):
    '''The real tree left the abstract universe (counted, never a violation).'''


# --------------------------------------------------------------- the family
def _decorate_t2(root):
    '''Inner scopes of t2: symbols living in the loop-body tables (the Fortran
    frontend never creates them, transformations do) and statements that use
    them, all made through the public API.'''
    from psyclone.psyir.nodes import (Loop, Assignment, Reference, Literal,
                                      ArrayReference)
    from psyclone.psyir.symbols import (DataSymbol, INTEGER_TYPE, ArrayType,
                                        ScalarType)
    rout = root.children[0]
    outer = rout.walk(Loop)[0]
    inner = outer.loop_body.walk(Loop)[0]
    rk = rout.symbol_table.lookup("rk")
    rtype = ScalarType(ScalarType.Intrinsic.REAL, rk)
    otab = outer.loop_body.symbol_table
    # integer, parameter :: lm = 2 ; real(rk), dimension(lm) :: lw ; real(rk) :: t
    lm = DataSymbol("lm", INTEGER_TYPE, is_constant=True,
                    initial_value=Literal("2", INTEGER_TYPE))
    otab.add(lm)
    lw = DataSymbol("lw", ArrayType(rtype, [Reference(lm)]))
    otab.add(lw)
    tsym = DataSymbol("t", rtype)
    otab.add(tsym)
    outer.loop_body.addchild(Assignment.create(
        Reference(tsym),
        ArrayReference.create(lw, [Literal("1", INTEGER_TYPE)])))
    itab = inner.loop_body.symbol_table
    usym = DataSymbol("u", rtype)
    itab.add(usym)
    inner.loop_body.addchild(Assignment.create(Reference(usym),
                                               Reference(tsym)))


def _decorate_s4(root):
    '''Shadowing in s4: the if body declares its OWN loop variable `i` (the
    routine has an `i` too) and loops over it; the body of that loop declares
    its own scalar `x` (the routine has an `x` too).  Legal PSyIR, made through
    the public API; the Fortran backend renames on output.'''
    from psyclone.psyir.nodes import (IfBlock, Loop, Assignment, Reference,
                                      Literal, ArrayReference)
    from psyclone.psyir.symbols import DataSymbol, INTEGER_TYPE, REAL_TYPE
    rout = root.children[0]
    body = rout.walk(IfBlock)[0].if_body
    arr = rout.symbol_table.lookup("a")
    inner_i = DataSymbol("i", INTEGER_TYPE)
    body.symbol_table.add(inner_i)
    inner_x = DataSymbol("x", REAL_TYPE)
    loop = Loop.create(
        inner_i, Literal("2", INTEGER_TYPE), Literal("9", INTEGER_TYPE),
        Literal("1", INTEGER_TYPE),
        [Assignment.create(Reference(inner_x),
                           ArrayReference.create(arr, [Reference(inner_i)]))])
    loop.loop_body.symbol_table.add(inner_x)
    body.addchild(loop)


FAMILY = [
    {"name": "m1", "decorate": None, "src": '''
module m1
  use other_mod, only: ext
  integer, parameter :: k = 4
  integer, parameter :: k2 = 2*k
  real, dimension(k) :: a
contains
  subroutine r(n)
    integer, intent(in) :: n
    integer, parameter :: p = 3
    integer :: i
    real, dimension(p) :: b
    integer :: q = p + 1
    do i = 1, p
      b(i) = a(i) + ext
    end do
    call s(b)
  end subroutine r
  subroutine s(c)
    real, dimension(:), intent(inout) :: c
    c(1) = 0.0
  end subroutine s
end module m1
'''},
    {"name": "t2", "decorate": _decorate_t2, "src": '''
subroutine t2(x)
  integer, parameter :: rk = 8
  integer, parameter :: m = 2
  real(kind=rk), intent(inout) :: x
  real(kind=rk) :: y
  integer :: i, j
  real(kind=rk), dimension(m, m) :: w
  y = 0.0
  do i = 1, m
    do j = 1, m
      w(i, j) = x + y
    end do
    y = y + w(i, 1)
  end do
end subroutine t2
'''},
    {"name": "m3", "decorate": None, "src": '''
module m3
  use kinds_mod, only: wp
  integer, parameter :: c = 1
  real(kind=wp) :: g
contains
  function f(v) result(res)
    real(kind=wp), intent(in) :: v
    real(kind=wp) :: res
    res = v + g
  end function f
  subroutine u3(z)
    real(kind=wp), intent(inout) :: z
    integer, parameter :: e = 2
    real, dimension(c:e) :: d
    if (z > g) then
      z = f(z)
      d(c) = z
    else
      d(e) = g
    end if
  end subroutine u3
end module m3
'''},
    {"name": "s4", "decorate": _decorate_s4, "src": '''
subroutine s4(flag)
  logical, intent(in) :: flag
  integer :: i
  real :: x
  real, dimension(10) :: a
  do i = 1, 10
    a(i) = x
  end do
  if (flag) then
    a(1) = x
  end if
end subroutine s4
'''},
]
NAMES = [f["name"] for f in FAMILY]
_PARSE = {}


def build(index):
    '''A fresh real PSyIR tree of family member `index` (0-based): the
    fparser2 parse tree is cached per process, the PSyIR is generated anew
    by the real frontend every time.'''
    from psyclone.psyir.frontend.fortran import FortranReader
    from fparser.common.readfortran import FortranStringReader
    from fparser.common.sourceinfo import FortranFormat
    from fparser.two.symbol_table import SYMBOL_TABLES
    fam = FAMILY[index]
    if index not in _PARSE:
        reader = FortranReader()
        SYMBOL_TABLES.clear()
        sread = FortranStringReader(fam["src"])
        sread.set_format(FortranFormat(True, False))
        # pylint: disable=protected-access
        _PARSE[index] = (reader, reader._parser(sread))
    reader, ptree = _PARSE[index]
    # pylint: disable=protected-access
    root = reader._processor.generate_psyir(ptree)
    if fam["decorate"]:
        fam["decorate"](root)
    return root


# ------------------------------------------------------------ the projection
def node_kind(node):
    from psyclone.psyir.nodes import (FileContainer, Container, Routine, Loop,
                                      Schedule, Assignment, Call, IfBlock)
    if isinstance(node, FileContainer):
        return "file"
    if isinstance(node, Container):
        return "container"
    if isinstance(node, Routine):
        return "routine"
    if type(node) is Schedule:      # pylint: disable=unidiomatic-typecheck
        return "sched"
    if isinstance(node, Loop):
        return "loop"
    if isinstance(node, IfBlock):
        return "if"
    if isinstance(node, Assignment):
        return "assign"
    if isinstance(node, Call):
        return "call"
    raise Unsupported("node class " + type(node).__name__)


def akids(node):
    '''Abstract children of a real node.'''
    kind = node_kind(node)
    if kind in ("file", "container", "routine", "sched"):
        return list(node.children)
    if kind in ("loop", "if"):
        # a Loop/IfBlock whose Schedule was removed has fewer abstract kids
        return [c for c in node.children if node_kind_or_none(c) == "sched"]
    return []


def node_kind_or_none(node):
    try:
        return node_kind(node)
    except Unsupported:
        return None


def resolve(root, path):
    '''The real node at an abstract path (None if there is none).'''
    node = root
    for idx in path:
        kids = akids(node)
        if idx >= len(kids):
            return None
        node = kids[idx]
    return node


def _ref_role(ref):
    from psyclone.psyir.nodes import Call
    par = ref.parent
    if isinstance(par, Call) and par.children and par.children[0] is ref:
        return "call"
    return "ref"


def node_uses(node):
    '''[(role, Symbol)] of the symbol uses a node holds itself (not those of
    its abstract children).'''
    from psyclone.psyir.nodes import Reference
    kind = node_kind(node)
    uses = []
    if kind == "routine":
        if node.return_symbol is not None:
            uses.append(("ret", node.return_symbol))
    elif kind == "loop":
        # pylint: disable=protected-access
        if node._variable is not None:
            uses.append(("loopvar", node._variable))
        for child in node.children:
            if node_kind_or_none(child) != "sched":
                uses += [(_ref_role(r), r.symbol) for r in child.walk(Reference)]
    elif kind == "if":
        for child in node.children:
            if node_kind_or_none(child) != "sched":
                uses += [(_ref_role(r), r.symbol) for r in child.walk(Reference)]
    elif kind in ("assign", "call"):
        uses += [(_ref_role(r), r.symbol) for r in node.walk(Reference)]
    return uses


def sym_class(sym):
    from psyclone.psyir.symbols import (ContainerSymbol, RoutineSymbol,
                                        DataSymbol, Symbol)
    # pylint: disable=unidiomatic-typecheck
    if isinstance(sym, ContainerSymbol):
        return "container"
    if isinstance(sym, RoutineSymbol):
        return "routine"
    if type(sym) is DataSymbol:
        return "data"
    if type(sym) is Symbol:
        return "generic"
    raise Unsupported("symbol class " + type(sym).__name__)


_IFC = {"AutomaticInterface": "local", "DefaultModuleInterface": "local",
        "StaticInterface": "local", "FortranModuleInterface": "local",
        "ImportInterface": "import", "ArgumentInterface": "arg",
        "UnresolvedInterface": "unres"}


def sym_ifc(sym):
    name = type(sym.interface).__name__
    if name not in _IFC:
        raise Unsupported("interface " + name)
    return _IFC[name]


def _type_parts(dtype):
    '''(precision symbol | None, shape | None) of a datatype.'''
    from psyclone.psyir.symbols import (ScalarType, ArrayType, DataSymbol,
                                        NoType, UnresolvedType)
    if isinstance(dtype, ArrayType):
        prec = dtype.precision if isinstance(dtype.precision, DataSymbol) \
            else None
        if not isinstance(dtype.datatype, ScalarType):
            raise Unsupported("array of " + type(dtype.datatype).__name__)
        return prec, dtype.shape
    if isinstance(dtype, ScalarType):
        prec = dtype.precision if isinstance(dtype.precision, DataSymbol) \
            else None
        return prec, None
    if isinstance(dtype, (NoType, UnresolvedType)):
        return None, None
    raise Unsupported("datatype " + type(dtype).__name__)


def shape_exprs(shape):
    from psyclone.psyir.symbols import ArrayType
    out = []
    for dim in shape or []:
        if isinstance(dim, ArrayType.ArrayBounds):
            out += [dim.lower, dim.upper]
    return out


def sym_deps(sym):
    '''([(role, Symbol)], [(cat, Node)]) : the symbols mentioned inside the
    properties of a symbol and the PSyIR nodes those properties own.'''
    from psyclone.psyir.nodes import Reference, Node
    from psyclone.psyir.symbols import DataSymbol, RoutineSymbol
    deps, nodes = [], []
    if isinstance(sym, (DataSymbol, RoutineSymbol)):
        prec, shape = _type_parts(sym.datatype)
        if prec is not None:
            deps.append(("kind", prec))
        for expr in shape_exprs(shape):
            deps += [("shape", r.symbol) for r in expr.walk(Reference)]
            nodes += [("shape", n) for n in expr.walk(Node)]
    if isinstance(sym, DataSymbol) and sym.initial_value is not None:
        deps += [("init", r.symbol) for r in sym.initial_value.walk(Reference)]
        nodes += [("init", n) for n in sym.initial_value.walk(Node)]
    if sym.is_import:
        deps.append(("ifc", sym.interface.container_symbol))
    return deps, nodes


def sym_head(sym):
    from psyclone.psyir.symbols import DataSymbol, ArrayType
    cls = sym_class(sym)
    ifc = sym_ifc(sym)
    arr = isinstance(sym, DataSymbol) and isinstance(sym.datatype, ArrayType)
    const = bool(isinstance(sym, DataSymbol) and sym.is_constant)
    acc = sym.interface.access.name if ifc == "arg" else ""
    return {"name": sym.name, "cls": cls, "ifc": ifc, "arr": bool(arr),
            "const": const, "acc": acc}


def walk_abs(root):
    '''[(path, real node)] in abstract pre-order.'''
    out = []

    def rec(node, path):
        out.append((path, node))
        for i, kid in enumerate(akids(node)):
            rec(kid, path + [i])
    rec(root, [])
    return out


def has_table(node):
    from psyclone.psyir.nodes.scoping_node import ScopingNode
    return isinstance(node, ScopingNode)


def project_program(root):
    '''The abstract program (TreeCopy.tla state S) of a whole real tree.'''
    nodes, syms = [], []
    nid, sid = {}, {}
    walked = walk_abs(root)
    for path, node in walked:
        nid[id(node)] = len(nid) + 1
    order = []
    for path, node in walked:
        if has_table(node):
            for sym in node.symbol_table.symbols:
                sid[id(sym)] = len(sid) + 1
                order.append((sym, nid[id(node)]))

    def sym_id(sym):
        if id(sym) not in sid:              # a symbol that is in no table
            sid[id(sym)] = len(sid) + 1
            order.append((sym, 0))
        return sid[id(sym)]
    for path, node in walked:
        par = 0
        if path:
            par = nid[id(resolve(root, path[:-1]))]
        nodes.append({"kind": node_kind(node),
                      "kids": [nid[id(k)] for k in akids(node)],
                      "tab": has_table(node), "par": par,
                      "uses": [{"role": r, "sym": sym_id(s)}
                               for r, s in node_uses(node)]})
    k = 0
    while k < len(order):
        sym, tab = order[k]
        rec = sym_head(sym)
        rec["tab"] = tab
        rec["deps"] = [{"role": r, "sym": sym_id(s)} for r, s in sym_deps(sym)[0]]
        syms.append(rec)
        k += 1
    return {"nodes": nodes, "syms": syms}


# --------------------------------------------------------------- the world
class Interner:
    '''Small integers for object identities (objects are kept alive).'''

    def __init__(self):
        self.ids = {}
        self.keep = []

    def __call__(self, obj):
        key = id(obj)
        if key not in self.ids:
            self.ids[key] = len(self.keep) + 1
            self.keep.append(obj)
        return self.ids[key]


def write(node):
    '''The written code of a (sub)tree; a writer that raises is an
    observation too.'''
    from psyclone.psyir.backend.fortran import FortranWriter
    try:
        return FortranWriter()(node)
    except Exception as err:     # pylint: disable=broad-except
        return "ERR:" + type(err).__name__


class World:
    '''One real program, the subtree that was copied (`orig`) and its copy.'''

    def __init__(self, index):
        self.index = index
        self.root = build(index)
        self.orig = None
        self.copy = None
        self.obj = Interner()
        self.eq = True
        self._intern(self.root)

    def _intern(self, root):
        '''Number every object of a tree now, so that the numbering does not
        depend on when a side is first observed.'''
        from psyclone.psyir.nodes import Node
        from psyclone.psyir.nodes.scoping_node import ScopingNode
        for node in root.walk(Node):
            self.obj(node)
        for node in root.walk(ScopingNode):
            for sym in node.symbol_table.symbols:
                self.obj(sym)
                try:
                    for _, dnode in sym_deps(sym)[1]:
                        self.obj(dnode)
                except Unsupported:
                    pass

    def side(self, which):
        return self.orig if which == "O" else self.copy

    # ------------------------------------------------------------ operations
    def apply(self, op):
        '''Apply one operation of the model's alphabet through the public
        API.  Returns (refused, exception type name | "").'''
        name = op["name"]
        if name == "copy":
            target = resolve(self.root, op["path"])
            if target is None:
                raise Unsupported("no node at " + str(op["path"]))
            self.orig = target
            self.copy = target.copy()
            self._intern(self.copy)
            self.eq = bool(self.copy == self.orig) and bool(self.orig == self.copy)
            return False, ""
        root = self.side(op["side"])
        try:
            self._edit(root, op)
        except Unsupported:
            raise
        except Exception as err:     # pylint: disable=broad-except
            return True, type(err).__name__
        return False, ""

    @staticmethod
    def _table(root, path):
        node = resolve(root, path)
        if node is None or not has_table(node):
            raise Unsupported("no scope at " + str(path))
        return node.symbol_table

    @staticmethod
    def _own(tab, name):
        '''The symbol called `name` of this very table (KeyError if none).'''
        return tab.symbols_dict[name.lower()]

    def _edit(self, root, op):
        from psyclone.psyir.nodes import Assignment, Reference
        from psyclone.psyir.symbols import (DataSymbol, REAL_TYPE, ArrayType,
                                            ScalarType, ArgumentInterface)
        name = op["name"]
        if name == "detach":
            node = resolve(root, op["path"])
            if node is None or not op["path"]:
                raise Unsupported("no node at " + str(op["path"]))
            node.detach()
            return
        if name == "insert":
            parent = resolve(root, op["path"])
            if parent is None:
                raise Unsupported("no node at " + str(op["path"]))
            sym = parent.scope.symbol_table.lookup(op["sym"])
            parent.children.insert(op["pos"], Assignment.create(
                Reference(sym), Reference(sym)))
            return
        tab = self._table(root, op["scope"])
        if name == "add":
            tab.add(DataSymbol(op["new"], REAL_TYPE))
            return
        sym = self._own(tab, op["sym"])
        if name == "rename":
            tab.rename_symbol(sym, op["new"])
        elif name == "remove":
            tab.remove(sym)
        elif name == "chshape":
            dep = tab.lookup(op["dep"])
            old = sym.datatype
            if not isinstance(old, ArrayType):
                raise TypeError("not an array")
            sym.datatype = ArrayType(ScalarType(old.intrinsic, old.precision),
                                     [Reference(dep)])
        elif name == "chkind":
            dep = tab.lookup(op["dep"])
            old = sym.datatype
            if not isinstance(old, ScalarType):
                raise TypeError("not a scalar")
            sym.datatype = ScalarType(old.intrinsic, dep)
        elif name == "setshaperef":
            from psyclone.psyir.nodes import Reference as Ref
            dep = tab.lookup(op["dep"])
            refs = [r for e in shape_exprs(_type_parts(sym.datatype)[1])
                    for r in e.walk(Ref)]
            refs[0].symbol = dep          # IndexError: no symbolic bound
        elif name == "setintent":
            if not sym.is_argument:
                raise TypeError("not an argument")
            sym.interface.access = ArgumentInterface.Access[op["acc"]]
        else:
            raise Unsupported("operation " + name)

    # ----------------------------------------------------------- observation
    def observe_side(self, which, text=True):
        '''What one side looks like: itemised abstract render (D, N, uses
        with the identity of the symbol reached), identities of its node
        objects and of the symbol objects of its tables, written text.'''
        from psyclone.psyir.nodes import Node
        root = self.side(which)
        if root is None:
            return {"t": None, "D": [], "N": [], "u": [], "n": [], "s": [],
                    "st": []}
        decls, kinds, uses, objs, syms, where = [], [], [], [], [], []
        for node in root.walk(Node):
            objs.append((self.obj(node), "tree"))
        for path, node in walk_abs(root):
            kinds.append({"p": path, "k": node_kind(node)})
            count = {}
            for role, sym in node_uses(node):
                idx = count.get(role, 0)
                count[role] = idx + 1
                uses.append({"p": path, "s": "", "r": role, "i": idx,
                             "nm": sym.name, "tgt": self.obj(sym)})
            if not has_table(node):
                continue
            for sym in node.symbol_table.symbols:
                syms.append(self.obj(sym))
                where.append({"o": self.obj(sym), "tp": path})
                head = sym_head(sym)
                decls.append({"p": path, "s": head["name"], "cls": head["cls"],
                              "ifc": head["ifc"], "arr": head["arr"],
                              "const": head["const"], "acc": head["acc"]})
                deps, dnodes = sym_deps(sym)
                count = {}
                for role, dep in deps:
                    idx = count.get(role, 0)
                    count[role] = idx + 1
                    uses.append({"p": path, "s": sym.name, "r": role, "i": idx,
                                 "nm": dep.name, "tgt": self.obj(dep)})
                for cat, dnode in dnodes:
                    objs.append((self.obj(dnode), cat))
        return {"t": write(root) if text else None, "D": decls, "N": kinds,
                "u": uses, "n": objs, "s": syms, "st": where}
