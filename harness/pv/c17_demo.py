'''Binding demonstration for C17 (run: /venv/bin/python -m pv.c17_demo [mutant...]
from /verif/harness): source mutants under mutants/C17 must turn the quick check
red; recorded answers with one field flipped must be rejected by TLC.'''
import copy
import json
import os
import shutil
import sys

from pv import core
from pv.c02_demo import run_mutants


def corruption():
    from pv import c17
    from pv.c02_lib import bn
    core.setup_psyclone_env()
    one = c17.num(1)
    good = [c17._one(("cmp", "t", bn("-", bn("+", c17.I, one), one), c17.I, "")),
            c17._one(("cmp", "t", bn("+", c17.I, one), c17.I, "")),
            c17._one(("solve", "t", bn("*", c17.num(2), c17.I), bn("+", c17.N, one), "i")),
            c17._one(("expand", "t", bn("*", bn("+", c17.I, one), bn("-", c17.I, one)),
                      c17.NONE, ""))]
    keys = ("q", "e1", "e2", "vars", "arr", "eq", "ne", "sym", "sols", "x")
    cases, expect = [], {}

    def add(rec, want):
        c = copy.deepcopy({k: rec[k] for k in keys})
        c["id"] = len(cases) + 1
        cases.append(c)
        expect[c["id"]] = want
        return c
    for g in good:
        add(g, None)
    assert good[0]["eq"] == 1 and good[1]["ne"] == 1 and good[2]["sols"], good
    add(good[1], "EqualSound")["eq"] = 1               # i+1 declared equal to i
    add(good[0], "NeverEqualSound")["ne"] = 1          # (i+1)-1 declared never equal to i
    add(good[2], "SolutionSound")["sols"] = [bn("+", c17.N, one)]   # wrong solution
    add(good[3], "ExpandSound")["x"] = bn("+", bn("*", c17.I, c17.I), one)
    tmp = core.mktemp("pv-c17-corrupt-")
    try:
        path = os.path.join(tmp, "cases.json")
        with open(path, "w") as f:
            json.dump(cases, f)
        res = core.run_tlc("ExprTraceInt.tla", "ExprTraceInt_quick.cfg",
                           env={"PV_CASES": path}, workers=2)
    finally:
        shutil.rmtree(tmp, ignore_errors=True)
    got = {v["id"]: v["v"] for v in res.printed("VERDICT")}
    ok = True
    for cid, want in expect.items():
        have = got.get(cid)
        good_ = (have is None) if want is None else (have is not None and want in have)
        ok &= good_
        print(f"corruption case {cid}: expected {want or 'accepted'}, TLC says "
              f"{have or 'accepted'} -> {'ok' if good_ else 'MISSED'}")
    return ok


if __name__ == "__main__":
    ok = corruption()
    codes = run_mutants("C17", sys.argv[1:])
    bad = [n for n, rc in codes.items() if rc != 1]
    print("corruption test:", "ok" if ok else "FAILED", "| mutants not caught:", bad)
    sys.exit(0 if ok and not bad else 1)
