'''C20 - LFRic built-ins compute their documented operations.

Oracle  : the definition blocks of doc/user_guide/dynamo0p3.rst, parsed at
          check time (pv.c20_doc) - `field3(:) = field1(:) + field2(:)`.
Impl.   : for every built-in of BUILTIN_MAP x distributed memory on/off x
          COMPUTE_ANNEXED_DOFS on/off x {plain, DynamoOMPParallelLoopTrans,
          OMPParallelTrans + Dynamo0p3OMPLoopTrans with reprod False/True}
          the PSy layer the real PSyclone generates, itemised and exported to
          pv-ast (pv.c20_gen).
Decision: spec/LFRicBuiltins.tla (extends FortranSem) runs the definition
          over the documented DoF range of the layout owned|annexed|halo and
          the generated code, for every scalar valuation x field fill x
          thread count, and decides the clauses DocumentedValueInRange,
          UntouchedOutsideRange, ReductionOverOwned, NoNewUndefined.
'''
import json
import os
import shutil

from pv import core
from pv import c20_doc as D
from pv import c20_gen as G
from pv.export import Unsupported

SPEC = "LFRicBuiltins.tla"
CFG = "LFRicBuiltins.cfg"

REAL_VALUES = [[-2, 1], [-1, 2], [0, 1], [1, 1], [3, 1]]     # -2, -1/2, 0, 1, 3
INT_VALUES = [-2, -1, 0, 1, 3]
_W = int(os.environ.get("PV_WORKERS", "0")) or None     # development: fewer processes
# FortranSem!FillVal: 2 = -1,0,1 pattern / 3 = alternating sign, no zero / 4 = halves
# (integers: 1..n); thorough adds 1 = distinct positive values
FILLS = {"quick": [2, 3, 4], "thorough": [1, 2, 3, 4]}


# ------------------------------------------------------------------ matchers
MATCHERS = {}


# ------------------------------------------------------------- case building
_GUIDE = None


def _configs(tier):
    cfgs = []
    for dm in (0, 1):
        for ann in (0, 1):
            for variant in G.VARIANTS:
                cfgs.append((dm, ann, variant, "var", 1))
            # literal scalar arguments; a function space without annexed DoFs
            cfgs.append((dm, ann, "plain", "lit", 1))
            if tier != "quick":
                for variant in G.VARIANTS:
                    cfgs.append((dm, ann, variant, "var", 2))
                    if variant != "plain":
                        cfgs.append((dm, ann, variant, "lit", 1))
            elif dm:
                cfgs.append((dm, ann, "plain", "var", 2))
    return cfgs


def _threads(tier, variant, reprod_array):
    if variant == "plain":
        return [1]
    if tier != "quick":
        return [1, 2, 3]
    # one thread is the serial loop again: quick keeps it for the
    # reproducible-reduction code only, whose array extent depends on it
    return [1, 2] if variant == "omp2r" and reprod_array else [2]


def build_case(cap, margs, info_by_style, g, dm, ann, variant, style, lay, tier,
               label=None):
    '''One case record for LFRicBuiltins.tla, or raises Unsupported.'''
    info, actual, alg = info_by_style[style]
    label = label or cap
    if "doc" not in g:
        raise Unsupported("definition in the user guide not understood: " + g["error"])
    if style == "multi":
        # coded kernel + built-in under a transformation history
        ops = G.HISTORIES[variant]
        text, iname = G.make_psy_multi(info, dm, ann, ops)
        it = G.itemise(text, iname,
                       bfields={a["name"] for a in actual if a["kind"] == "field"})
        if it.skipped_loops != 1:
            raise Unsupported("%d coded-kernel loop nests found" % it.skipped_loops)
        threads = _threads(tier, "ompl" if "omp_b" in ops else "plain", False)
    else:
        text, iname, _ = G.make_psy(info, dm, ann, variant)
        it = G.itemise(text, iname)
        threads = _threads(tier, variant, bool(it.alloc))
    return _records(label, cap, it, [(g, actual)], threads, dm, ann, variant, style, lay,
                    tier, alg)


def _records(label, cap, it, steps, threads, dm, ann, variant, style, lay, tier, alg):
    '''Case records (one per thread-count group) of an itemised invoke whose
    built-ins are `steps` = [(guide entry, actual arguments)] in call order.'''
    undf = G.LAYOUT_UNDF[lay]
    if it.alloc and len(threads) > 1:
        # the thread count is the second extent of the reproducible-sum array:
        # one case per thread count
        threads_cases = [[t] for t in threads]
    else:
        threads_cases = [threads]
    docs = None
    out = []
    for thr in threads_cases:
        decls, prog, syn = G.export(it, undf, max(thr))
        if docs is None:
            docs = [{"doc": g["doc"], "bind": G.bind_doc(g["args"], actual, it)}
                    for g, actual in steps]
        bound = {v["name"] for d in docs for v in d["bind"].values() if v.get("k") == "ref"}
        dom = []
        for d in decls:
            if d["init"] == "in" and not d["dims"]:
                vals = REAL_VALUES if d["ty"] == "r" else INT_VALUES
                # a scalar of another kernel of the invoke: one value
                dom.append([d["name"], vals if d["name"] in bound else vals[3:4]])
        reds = [n for n, (ty, intent) in it.scalars.items() if intent == "out"]
        cid = "%s|dm%d|ann%d|%s|%s|lay%d" % (label, dm, ann, variant, style, lay)
        if len(threads_cases) > 1:
            cid += "|T%d" % thr[0]
        out.append({
            "case": {"id": cid, "dm": bool(dm), "ann": bool(ann), "lay": lay, "undf": undf,
                     "decls": decls, "dom": dom,
                     "fills": FILLS.get(tier, FILLS["thorough"]), "threads": thr,
                     "prog": prog, "docs": docs,
                     "fields": sorted(it.data), "scalars": [d[0] for d in dom],
                     "reds": reds},
            "meta": {"builtin": cap, "dm": dm, "ann": ann, "variant": variant,
                     "style": style, "lay": lay, "bounds": sorted(set(it.bounds)),
                     "doc_line": steps[0][0]["line"],
                     "doc_text": [t for g, _ in steps for t in g["text"]],
                     "doc_args": [[a[0] for a in g["args"]] for g, _ in steps],
                     "algorithm": alg, "generated": syn}})
    return out


def test_dir():
    '''The repository's algorithm files are inputs: a scratch copy made
    without its tests (PV_REPO) uses those of /repo.'''
    for root in (core.REPO, "/repo"):
        path = os.path.join(root, "src", "psyclone", "tests", "test_files", "dynamo0p3")
        if os.path.isdir(path):
            return path
    raise core.MachineryError("LFRic test algorithm files not found")


def repo_files():
    return sorted(f for f in os.listdir(test_dir())
                  if f.startswith("15.") and f.endswith(".f90"))


def _file_configs(tier):
    variants = ("plain",) if tier == "quick" else G.VARIANTS
    return [(dm, ann, v, "file", 1) for dm in (0, 1) for ann in (0, 1) for v in variants]


def _build_file(fname, tier, table):
    '''Cases of one of the repository's one-built-in algorithm files.'''
    import re
    from psyclone.parse.algorithm import parse
    from psyclone.psyGen import PSyFactory
    from psyclone.domain.lfric import LFRicKern
    from psyclone.domain.lfric.lfric_builtins import LFRicBuiltIn
    res = {"builtin": "file:" + fname, "cases": [], "unsupported": [], "nodoc": False,
           "skipped": None}
    try:
        _, info = parse(os.path.join(test_dir(), fname), api="dynamo0.3")
        psy = PSyFactory("dynamo0.3", distributed_memory=False).create(info)
    except Exception as err:    # noqa - negative test inputs of the repository
        res["skipped"] = "not accepted by PSyclone: " + type(err).__name__
        return res
    invokes = psy.invokes.invoke_list
    kerns = invokes[0].schedule.walk(LFRicBuiltIn) if invokes else []
    if len(invokes) != 1 or len(kerns) != 1 or invokes[0].schedule.walk(LFRicKern):
        res["skipped"] = "not a single invoke of a single built-in"
        return res
    kern = kerns[0]
    cap = next((c for c in table if c.lower() == kern.name.lower()), None)
    g = _GUIDE.get(kern.name.lower())
    if cap is None or g is None:
        res["nodoc"] = True
        return res
    margs = table[cap]
    try:
        actual = []
        if len(kern.arguments.args) != len(margs):
            raise Unsupported("argument count differs from the metadata")
        for arg, (kind, ty, _) in zip(kern.arguments.args, margs):
            if arg.is_literal:
                try:
                    lit = D.parse_expr(arg.name)
                except D.DocError as err:
                    raise Unsupported("literal argument: " + str(err))
                actual.append({"kind": "scalar", "ty": ty, "lit": lit})
            elif arg.form == "variable" and re.fullmatch(r"[A-Za-z]\w*", arg.text or ""):
                actual.append({"kind": kind, "ty": ty, "name": arg.name.lower()})
            else:
                raise Unsupported("actual argument " + str(arg.text))
        with open(os.path.join(test_dir(), fname)) as f:
            alg = "".join(l for l in f if not l.lstrip().startswith("!"))
    except Unsupported as err:
        res["unsupported"].append(("file:" + fname, str(err)))
        return res
    info_by_style = {"file": (info, actual, alg)}
    for dm, ann, variant, style, lay in _file_configs(tier):
        try:
            res["cases"] += build_case(cap, margs, info_by_style, g, dm, ann, variant,
                                       style, lay, tier, label="file:" + fname)
        except Unsupported as err:
            res["unsupported"].append(
                ("file:%s|dm%d|ann%d|%s" % (fname, dm, ann, variant), str(err)))
    return res


# ------------------------------------------------ chains of built-ins
# several built-ins of one invoke that share fields: a field written by one is
# read or incremented by a later one.  Entries: (built-in, actual arguments);
# f* real fields, n* integer fields, a/b real scalars, k integer scalar, s a
# reduction result.
FIXED_CHAINS = {
    "c1": [("setval_c", "f1 a"), ("X_plus_Y", "f2 f1 f3"), ("inc_a_times_X", "b f1")],
    "c2": [("X_minus_Y", "f3 f1 f2"), ("inc_aX_plus_Y", "a f3 f1")],
    "c3": [("a_times_X", "f2 a f1"), ("inc_X_plus_Y", "f2 f1"),
           ("X_innerproduct_Y", "s f2 f1")],
    "c4": [("int_setval_c", "n1 k"), ("int_X_plus_Y", "n2 n1 n3"),
           ("int_inc_a_times_X", "k n1")],
    "c5": [("setval_X", "f2 f1"), ("inc_X_times_Y", "f2 f1"), ("sum_X", "s f2")],
    "c6": [("real_to_int_X", "n1 f1"), ("int_to_real_X", "f2 n1")],
}
CHAIN_VARIANTS = ("plain", "ompl", "omp2")     # thorough adds omp2r


def random_chains(table, seed, count):
    '''`count` chains of 2-3 real-valued, non-reduction built-ins (no division
    or power: every input stays in the domain) in which every built-in after
    the first reads or increments the field the previous one wrote.'''
    import random
    rnd = random.Random(2000 + seed)
    pool = sorted(
        (cap, margs) for cap, margs in table
        if all(ty == "r" for _, ty, _ in margs)
        and not any(acc == "gh_sum" for _, _, acc in margs)
        and not any(w in cap for w in ("divideby", "pow", "random", "real_to_real")))
    res = {}
    for n in range(count):
        chain, prev = [], None
        nsc = 0
        for step in range(rnd.choice((2, 3))):
            while True:
                cap, margs = rnd.choice(pool)
                readers = [i for i, (kind, _, acc) in enumerate(margs)
                           if kind == "field" and acc in ("gh_read", "gh_readwrite")]
                if prev is None or readers:
                    break
            names = [None] * len(margs)
            if prev is not None:
                names[rnd.choice(readers)] = prev
            for i, (kind, _, acc) in enumerate(margs):
                if names[i] is not None:
                    continue
                if kind == "scalar":
                    names[i] = "ab"[nsc % 2]
                    nsc += 1
                else:
                    free = [f for f in ("f1", "f2", "f3") if f not in names]
                    names[i] = rnd.choice(free)
            wr = [names[i] for i, (kind, _, acc) in enumerate(margs)
                  if kind == "field" and acc in ("gh_write", "gh_readwrite")]
            prev = wr[0]
            chain.append((cap, " ".join(names)))
        res["r%d_%d" % (seed, n)] = chain
    return res


def chains(tier, table):
    res = dict(FIXED_CHAINS)
    res.update(random_chains(table, core.seed(), 3 if tier == "quick" else 12))
    return res


def _build_chain(cid, chain, tier, table):
    from psyclone.parse.algorithm import parse
    res = {"builtin": "chain:" + cid, "cases": [], "unsupported": [], "nodoc": False,
           "skipped": None, "refused": []}
    caps = {c.lower(): c for c in table}
    steps, calls = [], []
    for name, args in chain:
        cap = caps[name.lower()]
        g = _GUIDE.get(cap.lower())
        if g is None:
            res["nodoc"] = True
            return res
        if "doc" not in g:
            res["unsupported"].append(("chain:" + cid, "definition not understood: " + g["error"]))
            return res
        actual = [{"kind": kind, "ty": ty, "name": nm}
                  for (kind, ty, _), nm in zip(table[cap], args.split())]
        if len(actual) != len(table[cap]):
            raise core.MachineryError("chain %s: argument count of %s" % (cid, cap))
        steps.append((g, actual))
        calls.append((cap, args.split()))
    tmp = core.mktemp("pv-c20-")
    try:
        alg = G.alg_source_chain(calls, [a for _, acts in steps for a in acts])
        path = os.path.join(tmp, "alg_chain.f90")
        with open(path, "w") as f:
            f.write(alg)
        _, info = parse(path, api="dynamo0.3")
        variants = CHAIN_VARIANTS if tier == "quick" else CHAIN_VARIANTS + ("omp2r",)
        for dm in (0, 1):
            for ann in (0, 1):
                for variant in variants:
                    label = "chain:%s|dm%d|ann%d|%s" % (cid, dm, ann, variant)
                    try:
                        text, iname = G.make_psy_chain(info, dm, ann, variant, len(chain))
                        it = G.itemise(text, iname)
                        threads = _threads(tier, variant, bool(it.alloc))
                        res["cases"] += _records(
                            "chain:" + cid, "+".join(c for c, _ in calls), it, steps,
                            threads, dm, ann, variant, "chain", 1, tier, alg)
                    except G.Refused as err:
                        res["refused"].append((label, str(err)))
                    except Unsupported as err:
                        res["unsupported"].append((label, str(err)))
    finally:
        shutil.rmtree(tmp, ignore_errors=True)
    return res


MULTI_ALWAYS = ("setval_c", "X_plus_Y", "inc_aX_plus_Y", "sum_X")


def multi_builtins(tier, table):
    '''Built-ins that are also generated behind a coded kernel under
    transformation histories: all (thorough) or four fixed ones plus four
    chosen by VERIF_SEED (quick).'''
    import random
    caps = [cap for cap, _ in table]
    if tier != "quick":
        return caps
    rest = sorted(c for c in caps if c not in MULTI_ALWAYS)
    extra = random.Random(1000 + core.seed()).sample(rest, min(4, len(rest)))
    return [c for c in caps if c in MULTI_ALWAYS or c in extra]


def _build_multi(cap, margs, tier):
    from psyclone.parse.algorithm import parse
    res = {"builtin": "multi:" + cap, "cases": [], "unsupported": [], "nodoc": False,
           "skipped": None, "refused": []}
    g = _GUIDE.get(cap.lower())
    if g is None:
        res["nodoc"] = True
        return res
    tmp = core.mktemp("pv-c20-")
    try:
        alg, actual = G.alg_source_multi(cap, margs)
        path = os.path.join(tmp, "alg_multi.f90")
        with open(path, "w") as f:
            f.write(alg)
        _, info = parse(path, api="dynamo0.3", kernel_paths=[test_dir()])
        info_by_style = {"multi": (info, actual, alg)}
        for dm, ann in ((0, 0), (1, 0), (1, 1)):
            for hist in sorted(G.HISTORIES):
                label = "multi:%s|dm%d|ann%d|%s" % (cap, dm, ann, hist)
                try:
                    res["cases"] += build_case(cap, margs, info_by_style, g, dm, ann,
                                               hist, "multi", 1, tier, label="multi:" + cap)
                except G.Refused as err:
                    res["refused"].append((label, str(err)))
                except Unsupported as err:
                    res["unsupported"].append((label, str(err)))
    finally:
        shutil.rmtree(tmp, ignore_errors=True)
    return res


def _build(job):
    '''All cases of one built-in (generated algorithm files), of one of the
    repository's algorithm files, or of one built-in behind a coded kernel.'''
    kind, cap, margs, tier = job
    core.setup_psyclone_env()
    from psyclone.parse.algorithm import parse
    global _GUIDE
    if _GUIDE is None:
        _GUIDE = D.parse_guide()
    if kind == "file":
        return _build_file(cap, tier, margs)
    if kind == "multi":
        return _build_multi(cap, margs, tier)
    if kind == "chain":
        return _build_chain(cap, margs[0], tier, margs[1])
    res = {"builtin": cap, "cases": [], "unsupported": [], "nodoc": False, "skipped": None}
    g = _GUIDE.get(cap.lower())
    if g is None:
        res["nodoc"] = True
        return res
    tmp = core.mktemp("pv-c20-")
    try:
        info_by_style = {}
        for style in ("var", "lit"):
            alg, actual = G.alg_source(cap, margs, style)
            if style == "lit" and not any("lit" in a for a in actual):
                continue
            path = os.path.join(tmp, "alg_%s.f90" % style)
            with open(path, "w") as f:
                f.write(alg)
            _, info = parse(path, api="dynamo0.3")
            info_by_style[style] = (info, actual, alg)
        for dm, ann, variant, style, lay in _configs(tier):
            if style not in info_by_style:
                continue
            try:
                res["cases"] += build_case(cap, margs, info_by_style, g, dm, ann,
                                           variant, style, lay, tier)
            except Unsupported as err:
                res["unsupported"].append(
                    ("%s|dm%d|ann%d|%s|%s|lay%d" % (cap, dm, ann, variant, style, lay),
                     str(err)))
    finally:
        shutil.rmtree(tmp, ignore_errors=True)
    return res


# --------------------------------------------------------------------- TLC
def n_inputs(case):
    n = len(case["fills"]) * len(case["threads"])
    for _, vs in case["dom"]:
        n *= len(vs)
    return n


def run_tlc(cases, workers=None, batch=4000):
    '''Decide the cases; returns (states, transitions, fails, discards).'''
    states = trans = 0
    fails, discards = {}, {}
    tmp = core.mktemp("pv-c20-")
    try:
        for lo in range(0, len(cases), batch):
            part = cases[lo:lo + batch]
            path = os.path.join(tmp, "cases-%d.json" % lo)
            with open(path, "w") as f:
                json.dump(part, f, separators=(",", ":"))
            r = core.run_tlc(SPEC, CFG, env={"PV_CASES": path}, workers=workers,
                             timeout=3000)
            os.unlink(path)
            states += r.distinct
            trans += r.generated
            expect = 2 * sum(n_inputs(c) for c in part)
            if r.distinct != expect:
                raise core.MachineryError(
                    "%s: %d distinct states, %d expected (every input has one "
                    "initial and one verdict state)" % (SPEC, r.distinct, expect))
            for v in r.printed("VERDICT"):
                if v["v"] == "BadCase":
                    raise core.MachineryError("malformed case " + v["id"])
                fails.setdefault(v["id"], []).append(v)
            for d in r.printed("DISCARD"):
                discards[d["id"]] = discards.get(d["id"], 0) + 1
    finally:
        shutil.rmtree(tmp, ignore_errors=True)
    return states, trans, fails, discards


def _fmt(v):
    if not isinstance(v, dict):
        return str(v)
    t = v.get("t")
    if t == "i":
        return str(v["v"])
    if t == "r":
        return str(v["n"]) if v["d"] == 1 else "%d/%d" % (v["n"], v["d"])
    if t == "p":
        return "undefined"
    return str(t)


def verdict_line(rec):
    w = rec["w"]
    d = w["detail"]
    where = ("DoF %d of %s" % (d["dof"], d["name"])) if d.get("dof") else d.get("name", "")
    return ("VERDICT %s clause=%s %s got=%s want=%s documented-range=1..%d "
            "scalars=%s fill=%d threads=%d"
            % (rec["id"], rec["v"], where, _fmt(d.get("got")), _fmt(d.get("want")),
               w["hi"], w["val"], w["fm"], w["threads"]))


def signature_disagreements(guide, table):
    '''Cross-check of the guide's heading with the built-in's metadata: same
    number of arguments, the bold ones are exactly the modified ones, names
    say field/scalar and real/integer as the metadata does.  Recorded in the
    evidence (the clauses judge what is computed, not how it is typeset).'''
    res = []
    for cap, margs in table:
        g = guide.get(cap.lower())
        if g is None:
            continue
        if g["name"] != cap:
            res.append("%s: heading spells it %s" % (cap, g["name"]))
        if len(g["args"]) != len(margs):
            res.append("%s: %d documented arguments, %d in the metadata"
                       % (cap, len(g["args"]), len(margs)))
            continue
        for (dn, bold), (kind, ty, acc) in zip(g["args"], margs):
            if bold != (acc in ("gh_write", "gh_readwrite", "gh_sum", "gh_inc")):
                res.append("%s: %s is %sbold but has access %s"
                           % (cap, dn, "" if bold else "not ", acc))
            if ("field" in dn) != (kind == "field"):
                res.append("%s: %s is a %s in the metadata" % (cap, dn, kind))
    return res


def undefined_hint(case):
    '''Diagnostic for a NoNewUndefined verdict (TLC has decided; this only
    names the culprit): loop-bound variables of the recorded code that are
    read by a DO statement without an earlier assignment.'''
    defined = {d["name"] for d in case["decls"] if d["init"] == "in"}
    defined |= set(G.CONSTS)
    bad = []

    def refs(e):
        if isinstance(e, dict):
            if e.get("k") == "ref":
                yield e["name"]
            for v in e.values():
                yield from refs(v)
        elif isinstance(e, list):
            for v in e:
                yield from refs(v)

    def loop(lp):
        for key in ("lo", "hi", "st"):
            for n in refs(lp[key]):
                if n not in defined and n not in bad:
                    bad.append(n)

    def walk(stmts):
        for st in stmts:
            k = st["k"]
            if k == "assign":
                for n in refs(st["rhs"]):
                    if n not in defined and n not in bad and n.startswith("loop"):
                        bad.append(n)
                if st["lhs"]["k"] == "ref":
                    defined.add(st["lhs"]["name"])
            elif k == "loop":
                loop(st)
            elif k in ("ompparalleldo", "ompdo"):
                loop(st["loop"])
            elif k == "ompparallel":
                walk(st["body"])
    walk(case["prog"])
    return bad


# --------------------------------------------------------------------- run
def run(tier):
    core.setup_psyclone_env()
    out = core.Outcome("C20", tier, "model_checking", matchers=MATCHERS)
    try:
        guide = D.parse_guide()
    except D.DocError as err:
        raise core.MachineryError("user guide: %s" % err)
    table = G.builtin_table()
    only = os.environ.get("PV_C20_ONLY")       # development aid: a,b,c = these built-ins only
    if only:
        table = [t for t in table if t[0].lower() in only.lower().split(",")]
    import time
    t0 = time.time()
    jobs = [("gen", cap, margs, tier) for cap, margs in table]
    multi = set(multi_builtins(tier, table))
    jobs += [("multi", cap, margs, tier) for cap, margs in table if cap in multi]
    if not only:
        full = G.builtin_table()
        jobs += [("chain", cid, (chain, dict(full)), tier)
                 for cid, chain in sorted(chains(tier, full).items())]
        jobs += [("file", f, dict(table), tier) for f in repo_files()]
    fams = os.environ.get("PV_C20_FAMILIES")   # development aid: gen,multi,chain,file
    if fams:
        jobs = [j for j in jobs if j[0] in fams.split(",")]
    results = core.pool_map(_build, jobs, procs=_W, chunksize=1)
    t_build = time.time() - t0
    names = {cap.lower() for cap, _ in G.builtin_table()}
    undocumented = sorted(r["builtin"] for r in results if r["nodoc"])
    skipped = {r["builtin"]: r["skipped"] for r in results if r.get("skipped")}
    doc_only = sorted(set(guide) - names)
    built, unsupported, refused = [], [], []
    for r in results:
        built += r["cases"]
        unsupported += r["unsupported"]
        refused += r.get("refused", [])
    total = len(built) + len(unsupported)
    if total == 0 or len(unsupported) > 0.2 * total:
        raise core.MachineryError("too many unsupported cases: %d of %d: %s"
                                  % (len(unsupported), total, unsupported[:3]))
    # documentation / code disagreement on the built-in's existence or
    # argument list is a violation of the property's premise
    for name in undocumented:
        out.violation({"id": name, "builtin": name}, "Documented",
                      "built-in of BUILTIN_MAP has no definition in the user guide")
    cases = [b["case"] for b in built]
    meta = {b["case"]["id"]: b["meta"] for b in built}
    tlc_case = {c["id"]: c for c in cases}
    if len(meta) != len(cases):
        raise core.MachineryError("case ids are not unique")
    # cases with identical content (e.g. reprod on/off for a built-in without
    # reduction) are decided once; the verdict is a function of the content
    reps, same = {}, {}
    for c in cases:
        key = core.chash({k: v for k, v in c.items() if k != "id"})
        rep = reps.setdefault(key, c)
        same.setdefault(rep["id"], []).append(c["id"])
    t0 = time.time()
    states, trans, fails_r, discards_r = run_tlc(list(reps.values()), workers=_W)
    t_tlc = time.time() - t0
    fails, discards = {}, {}
    for rid, ids in same.items():
        for i in ids:
            if rid in fails_r:
                fails[i] = [dict(r, id=i) for r in fails_r[rid]]
            if rid in discards_r:
                discards[i] = discards_r[rid]
    nontrivial = 0
    empty = []
    per_variant = {}
    for c in cases:
        live = n_inputs(c) - discards.get(c["id"], 0)
        pv = per_variant.setdefault(meta[c["id"]]["variant"], {"cases": 0, "failing": 0})
        pv["cases"] += 1
        if live > 0:
            nontrivial += 1
        else:
            empty.append(c["id"])
        if c["id"] in fails:
            pv["failing"] += 1
    # a generated case without a single defined input would pass vacuously
    if [i for i in empty if not i.startswith("file:")]:
        raise core.MachineryError("the definition is undefined on every input of %s" % empty[:3])
    nprinted = 0
    for cid, recs in sorted(fails.items()):
        m = meta[cid]
        by_clause = {}
        for rec in recs:
            by_clause.setdefault(rec["v"], []).append(rec)
        for clause, rs in sorted(by_clause.items()):
            hint = ""
            if clause == "NoNewUndefined":
                und = undefined_hint(tlc_case[cid])
                if und:
                    hint = " never-assigned-loop-bound=%s" % ",".join(und)
            if nprinted < 40:
                print(verdict_line(rs[0]) + hint + " definition=%r (%d failing inputs)"
                      % (" / ".join(m["doc_text"]), len(rs)))
                nprinted += 1
            case = {"id": cid, **m, "tlc_case": tlc_case[cid],
                    "replay": "PV_CASES=<file holding [tlc_case]> tlc -config "
                              "spec/LFRicBuiltins_replay.cfg spec/LFRicBuiltins.tla"}
            detail = {"n_failing_inputs": len(rs), "first": verdict_line(rs[0]) + hint,
                      "witnesses": [r["w"] for r in rs[:3]]}
            out.violation(case, clause, detail)
    bounds = {}
    for b in built:
        m = b["meta"]
        key = "dm%d ann%d %s" % (m["dm"], m["ann"], ",".join(m["bounds"]) or "-")
        bounds[key] = bounds.get(key, 0) + 1
    sample_ids = [cases[i]["id"] for i in
                  range(0, len(cases), max(1, len(cases) // 4))][:4]
    cov = {"states": states, "transitions": trans,
           "traces_validated_against_impl": len(cases),
           "cases_decided_by_tlc": len(reps),
           "evaluations": sum(n_inputs(c) for c in cases),
           "distinct_nontrivial": nontrivial,
           "rule": ("one case = (built-in, DM, COMPUTE_ANNEXED_DOFS, OpenMP variant, "
                    "argument style, layout); evaluation = case x scalar valuation x "
                    "field fill x thread count; non-trivial = the documented definition "
                    "is defined on at least one input"),
           "builtins": len(table), "documented_builtins": len(guide),
           "repository_algorithm_files": len([j for j in jobs if j[0] == "file"]),
           "repository_files_skipped": skipped,
           "chains": {j[1]: [list(c) for c in j[2][0]] for j in jobs if j[0] == "chain"},
           "kernel_plus_builtin_invokes": sorted(multi),
           "histories": {k: list(v) for k, v in G.HISTORIES.items()},
           "histories_refused": len(refused), "refused_samples": refused[:3],
           "vacuous_file_cases": empty,
           "heading_vs_metadata_disagreements": signature_disagreements(guide, table),
           "build_s": round(t_build, 1), "tlc_s": round(t_tlc, 1),
           "documented_but_not_in_BUILTIN_MAP": doc_only,
           "unsupported": len(unsupported),
           "unsupported_samples": unsupported[:5],
           "discarded_inputs_definition_undefined": sum(discards.values()),
           "loop_bound_sources": bounds,
           "per_variant": per_variant,
           "divergences": 0,
           "exhaustive": True,
           "samples": [{"id": i, "definition": meta[i]["doc_text"],
                        "algorithm": meta[i]["algorithm"],
                        "generated": meta[i]["generated"]} for i in sample_ids]}
    return out.finish(cov, assumptions=[
        "oracle = formula blocks of doc/user_guide/dynamo0p3.rst parsed at check time; the "
        "i-th placeholder of the heading is the i-th actual argument of the algorithm call",
        "layout owned 1..3 | annexed 4 | halo 5..6 (and 1..2 | - | 3..5); without distributed "
        "memory every DoF is owned; documented range = owned DoFs, + annexed DoFs iff "
        "COMPUTE_ANNEXED_DOFS and DM (never for reductions)",
        "exact rationals; scalars in {-2,-1/2,0,1,3} (integers {-2,-1,0,1,3}); four field fills; "
        "inputs on which the definition is undefined (zero divisor, 0**negative, non-integral "
        "real exponent) are discarded; a real exponent with integral value means the integer power",
        "OpenMP: threads run one after the other with schedule(static) chunks, private copies "
        "undefined at entry, reduction(+) copies zero-initialised and added at the end (one "
        "admissible execution; data races are C09's subject); thread counts 1..2 (thorough 1..3)",
        "LFRic run-time calls are recognised by strict text patterns; get_proxy/%data bind data "
        "arrays to field arguments; halo exchanges and set_dirty/clean do not change owned or "
        "annexed DoFs (C22); the global sum of a single process is the identity",
        "setval_random: range only (which DoFs are set), values unspecified",
        "kernel + built-in invokes under transformation histories: the coded kernel's loop nest "
        "is projected away (its effect on the fields is covered by quantifying over the fills); "
        "every loopN_start/stop its DO statements read must be defined (pv_sink = bound); sizes "
        "of other function spaces and cell counts are a defined value different from every DoF "
        "count of the built-in's space",
        "the exporter (PSyclone Fortran frontend + pv.export) is trusted and fails closed"])
