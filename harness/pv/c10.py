'''C10 - directive trees produced by accepted transformations are valid.

DirectiveTree.tla (TLC, exhaustive) generates every history of OpenMP/OpenACC
transformations up to a bounded length on small routine skeletons; each history
is replayed on REAL PSyIR with the real transformations (c10_replay), a fresh
FortranWriter (global-constraint checks on) writes the result, the written text
is itemised into the abstract tree shape, and Trace_DirectiveTree.tla (TLC)
validates the recorded behaviour against the model's actions and decides
`Written => Valid(real tree)` per case (VERDICT lines carry the violated
rules).  Model-vs-real differences are divergences, never alarms.'''
import collections
import json
import os
import shutil
import subprocess

from pv import core
from pv import c10_replay as rp
from pv.c10_findings import MATCHERS

GEN_CFGS = {
    "quick": ["DirectiveTree_quick2.cfg", "DirectiveTree_quick3.cfg"],
    "thorough": ["DirectiveTree_quick2.cfg", "DirectiveTree_quick3.cfg",
                 "DirectiveTree_thorough2.cfg", "DirectiveTree_thorough3.cfg",
                 "DirectiveTree_thorough4.cfg", "DirectiveTree_thorough5.cfg"],
}
# skeletons named in each generator cfg (cross-checked against TLC's count of
# initial states)
CFG_SKELS = {"DirectiveTree_quick2.cfg": "ABCDE", "DirectiveTree_quick3.cfg": "G",
             "DirectiveTree_thorough2.cfg": "F", "DirectiveTree_thorough3.cfg": "BCEF",
             "DirectiveTree_thorough4.cfg": "G", "DirectiveTree_thorough5.cfg": "G",
             "DirectiveTree_smoke.cfg": "B"}
ST_CODE = {"accepted": 1, "refused": 0, "error": 0}


def _opkey(op):
    return (op["t"], op["o"], op["c"], tuple(op["p"]), op["lo"], op["hi"])


def generate(cfg, workers):
    '''All histories of one generator configuration, sorted -> [(skel, ops)].'''
    res = core.run_tlc("DirectiveTree.tla", cfg, workers=workers, timeout=3000,
                       check=False)
    if res.invariant_violated or res.error:
        raise core.MachineryError(
            f"DirectiveTree.tla ({cfg}) violates its own sanity invariants: "
            + str(res.invariant_violated or res.error))
    uniq = {}
    for rec in res.printed("HIST"):
        key = (rec["s"], tuple(_opkey(o) for o in rec["h"]))
        uniq[key] = (rec["s"], rec["h"])
    nskel = len(CFG_SKELS[cfg])
    if len(uniq) != res.distinct - nskel:
        raise core.MachineryError(
            f"{cfg}: {len(uniq)} histories printed but TLC found "
            f"{res.distinct} states ({nskel} initial)")
    hist = [uniq[k] for k in sorted(uniq)]
    return hist, res


def _work(chunk):
    '''Replay a chunk of histories -> compact records (trees as JSON text).'''
    out = []
    for skel, ops in chunk:
        r = rp.replay(skel, ops)
        out.append({
            "steps": r["steps"], "gen": r["gen"], "msg": r["msg"],
            "tree": json.dumps(r["tree"], sort_keys=True) if r["tree"] else None,
            "ptree": json.dumps(r["ptree"], sort_keys=True) if r["ptree"] else None,
            "rct": bool(r.get("refusal_changed_tree"))})
    return out


def replay_all(hists, procs):
    step = max(1, min(400, len(hists) // (procs * 4) or 1))
    chunks = [hists[i:i + step] for i in range(0, len(hists), step)]
    res = []
    for part in core.pool_map(_work, chunks, procs=procs, chunksize=1):
        res += part
    return res


def _opshort(op):
    return [op["t"], op["o"], op["c"], list(op["p"]), op["lo"], op["hi"]]


def validate(hists, recs, tmp, workers, corrupt=None):
    '''Hand the recorded behaviours + projected real trees to TLC.
    -> (TLCResult, verdicts {idx: [rule records]}, diverged ids, judged idx list)'''
    trees, table = [], {}

    def tidx(js):
        if js not in table:
            trees.append(json.loads(js))
            table[js] = len(trees)
        return table[js]

    cases, judged = [], []
    for idx, ((skel, ops), r) in enumerate(zip(hists, recs)):
        if r["gen"] not in ("written", "refused", "error", "unchanged") \
                or r["ptree"] is None:
            continue
        ti = tidx(r["tree"]) if r["gen"] == "written" else 0
        cases.append([idx, skel, ti, tidx(r["ptree"]),
                      [_opshort(o) for o in ops[:len(r["steps"])]],
                      [ST_CODE[s] for s in r["steps"]]])
        judged.append(idx)
    if corrupt:
        corrupt(trees, cases)
    path = os.path.join(tmp, "cases.json")
    with open(path, "w") as f:
        json.dump({"trees": trees, "cases": cases}, f, separators=(",", ":"))
    res = core.run_tlc("Trace_DirectiveTree.tla", "Trace_DirectiveTree.cfg",
                       env={"PV_CASES": path}, workers=workers, timeout=3000)
    os.unlink(path)
    expect = sum(len(c[5]) + 2 for c in cases)
    if res.distinct != expect:
        raise core.MachineryError(
            f"C10 trace validation did not consume every trace: {res.distinct} "
            f"states, expected {expect}")
    verdicts = {v["id"]: v["w"] for v in res.printed("VERDICT")}
    diverged = sorted({d["id"] for d in res.printed("DIVERGE")})
    return res, verdicts, diverged, judged, len(trees)


def describe(skel, ops, rule, rec):
    '''Counterexample handed to the matchers / written to the replay file.'''
    return {"skel": skel, "ops": [_opshort(o) for o in ops],
            "rule": rule["r"], "kind": rule["k"], "anc": rule["a"],
            "trans": [o["t"] + (":" + o["o"] if o["o"] else "") +
                      (f":collapse={o['c']}" if o["c"] else "") for o in ops],
            "steps": rec["steps"]}


def reproduce(case):
    '''Text the real writer produced for a case (for replay files/evidence).'''
    ops = [dict(zip(("t", "o", "c", "p", "lo", "hi"), o)) for o in case["ops"]]
    r = rp.replay(case["skel"], ops, keep_text=True)
    return r.get("text")


# ------------------------------------------------ anchor self-test (thorough)
_RE = __import__("re")
# front end:  file:LINE:COL:\n\n <code>\n <caret>\nError: msg
_GF_ERR_FE = _RE.compile(r"^\S*anchor\w*\.f90:(\d+):\d+:\s*\n(?:(?!^\S*anchor\w*\.f90:).*\n)*?"
                         r"(?:Error|Fatal Error): ([^\n]*)", _RE.M)
# middle end: file:LINE:COL: error: msg
_GF_ERR_ME = _RE.compile(r"^\S*anchor\w*\.f90:(\d+):\d+: (?:error|sorry, unimplemented): ([^\n]*)",
                         _RE.M)


def _gf_batch(arg):
    '''Compile one file holding several routines -> {routine idx: message}.'''
    tmp, tag, flags, items = arg
    lines, spans = [], []
    for i, text in items:
        body = text.replace("subroutine s(", f"subroutine s{i}(") \
                   .replace("end subroutine s\n", f"end subroutine s{i}\n")
        lo = len(lines) + 1
        lines += body.splitlines()
        spans.append((lo, len(lines), i))
    fn = os.path.join(tmp, f"anchor{tag}.f90")
    with open(fn, "w") as f:
        f.write("\n".join(lines) + "\n")
    p = subprocess.run(["gfortran", "-fopenmp", "-fopenacc", "-fmax-errors=0"]
                       + flags + [fn], capture_output=True, text=True, cwd=tmp)
    bad = {}
    for rex in (_GF_ERR_FE, _GF_ERR_ME):
        for m in rex.finditer(p.stderr):
            ln = int(m.group(1))
            for lo, hi, i in spans:
                if lo <= ln <= hi:
                    bad.setdefault(i, m.group(2)[:160])
    if p.returncode and not bad:
        raise core.MachineryError("gfortran failed without a diagnostic that "
                                  "can be attributed:\n" + p.stderr[-800:])
    return bad


def gfortran_judge(texts, tmp, procs):
    '''gfortran's opinion of each program: None = accepted, else the first
    error.  Pass 1 parses/resolves (-fsyntax-only); the nesting diagnostics of
    the OpenMP/OpenACC lowering only run in a real compilation, so pass 2
    compiles (-c) the programs that survived pass 1.'''
    verdict = [None] * len(texts)
    batch = 25
    todo = list(range(len(texts)))
    for tag, flags in (("s", ["-fsyntax-only"]), ("c", ["-c", "-o", "/dev/null"])):
        jobs = [(tmp, f"{tag}{b}", flags, [(i, texts[i]) for i in todo[b:b + batch]])
                for b in range(0, len(todo), batch)]
        for bad in core.pool_map(_gf_batch, jobs, procs=procs, chunksize=1):
            for i, msg in bad.items():
                verdict[i] = msg
        todo = [i for i in todo if verdict[i] is None]
    return verdict


def gfortran_anchor(samples, tmp, procs):
    '''Compare gfortran's acceptance with TLC's Valid on written programs.
    samples: [(text, valid, rules)].  Purely a calibration of the
    specification: disagreement is reported as machinery divergence, the exit
    code is governed by TLC's Valid decisions.'''
    if not shutil.which("gfortran") or not samples:
        return {"compiled": 0}
    verdict = gfortran_judge([s[0] for s in samples], tmp, procs)
    res = {"compiled": len(samples), "both_accept": 0, "both_reject": 0,
           "valid_but_gfortran_rejects": 0, "valid_but_gfortran_rejects_samples": [],
           "not_valid_but_gfortran_accepts": collections.Counter(),
           "gfortran_messages_by_rule": {}}
    for (text, valid, rules), msg in zip(samples, verdict):
        if valid and msg is None:
            res["both_accept"] += 1
        elif valid:
            res["valid_but_gfortran_rejects"] += 1
            if len(res["valid_but_gfortran_rejects_samples"]) < 5:
                res["valid_but_gfortran_rejects_samples"].append(
                    {"gfortran": msg, "written": text})
        elif msg is None:
            res["not_valid_but_gfortran_accepts"]["+".join(rules)] += 1
        else:
            res["both_reject"] += 1
            res["gfortran_messages_by_rule"].setdefault("+".join(rules), msg)
    res["not_valid_but_gfortran_accepts"] = dict(res["not_valid_but_gfortran_accepts"])
    return res


# ------------------------------------------------- trace-corruption (binding)
def _walk(n):
    yield n
    for ch in n["body"]:
        yield from _walk(ch)


def corrupt_kind(trees, cases):
    '''Flip one recorded field: the first recorded real tree that has an
    `omp do` inside an `omp parallel` gets its parallel region recorded as a
    target region.  Valid must reject it (OmpDoOutsideParallel).'''
    used = {c[2] for c in cases if c[2]}
    for i, t in enumerate(trees, 1):
        if i not in used:
            continue
        for n in _walk(t):
            if n["k"] == "omp_parallel" and any(m["k"] == "omp_do" for m in _walk(n)):
                n["k"] = "omp_target"
                return
    raise core.MachineryError("corruption test: no tree to corrupt")


def corrupt_collapse(trees, cases):
    '''Flip one recorded field: a written `omp do` over an imperfect nest is
    recorded with collapse(2).'''
    used = {c[2] for c in cases if c[2]}
    for i, t in enumerate(trees, 1):
        if i not in used:
            continue
        for n in _walk(t):
            if n["k"] == "omp_do" and n["c"] == 0 and n["body"] and \
                    len(n["body"][0]["body"]) == 2:
                n["c"] = 2
                return
    raise core.MachineryError("corruption test: no tree to corrupt")


CORRUPTIONS = {"kind": corrupt_kind, "collapse": corrupt_collapse}


# ------------------------------------------------------------------------ run
def run(tier, corrupt=None):
    core.setup_psyclone_env()
    if os.environ.get("PV_C10_CORRUPT"):    # binding demonstration only
        corrupt = CORRUPTIONS[os.environ["PV_C10_CORRUPT"]]
    out = core.Outcome("C10", tier, "model_checking", matchers=MATCHERS)
    dev = int(os.environ.get("PV_C10_PROCS", "0"))
    procs = dev or core.NCPU
    cov = {"states": 0, "transitions": 0, "traces_validated_against_impl": 0,
           "samples": [], "exhaustive": True, "divergences": 0, "unsupported": 0}
    # the skeleton trees are written down twice (TLA+ Skel, Python): check them
    hists = [(s, []) for s in sorted(rp.SKELETONS)]
    nskel = len(hists)
    gen_states = {}
    cfgs = GEN_CFGS[tier]
    if os.environ.get("PV_C10_CFGS"):       # development / binding demos only
        cfgs = os.environ["PV_C10_CFGS"].split(",")
        cov["exhaustive"] = False
    for cfg in cfgs:
        h, res = generate(cfg, procs)
        gen_states[cfg] = res.distinct
        cov["states"] += res.distinct
        cov["transitions"] += res.generated
        hists += h
    # one case per distinct history (the parts overlap on nothing but be safe)
    seen, uniq = set(), []
    for skel, ops in hists:
        key = (skel, tuple(_opkey(o) for o in ops))
        if key not in seen:
            seen.add(key)
            uniq.append((skel, ops))
    hists = uniq
    recs = replay_all(hists, procs)

    tmp = core.mktemp("pv-c10-")
    try:
        res, verdicts, diverged, judged, ntrees = validate(hists, recs, tmp, procs,
                                                           corrupt)
        for i in range(nskel):
            if i in diverged or i in verdicts:
                raise core.MachineryError(
                    f"skeleton {hists[i][0]}: DirectiveTree!Skel, the parsed "
                    f"Fortran and the itemiser disagree (or it is not Valid)")
        cov["states"] += res.distinct
        cov["transitions"] += res.generated
        cov["traces_validated_against_impl"] = len(judged)
        cov["divergences"] = len(diverged)
        cnt = collections.Counter()
        for r in recs:
            last = r["steps"][-1] if r["steps"] else "none"
            cnt[f"{last}/{r['gen']}"] += 1
        cov["outcomes"] = dict(sorted(cnt.items()))
        cov["unsupported"] = sum(1 for r in recs if r["gen"] in ("unsupported", "unresolved"))
        cov["refusal_changed_tree"] = sum(1 for r in recs if r["rct"])
        cov["writer_other_errors"] = sum(1 for r in recs if r["gen"] == "error")
        cov["histories"] = len(hists)
        cov["generator_states"] = gen_states
        cov["distinct_real_trees"] = ntrees
        cov["written"] = sum(1 for r in recs if r["gen"] == "written")
        cov["written_not_valid"] = len(verdicts)
        if cov["unsupported"] * 5 > len(hists):
            raise core.MachineryError("more than 20% of the cases are unsupported")
        rules = collections.Counter()
        shown = set()
        # shortest histories first: the recorded example of a finding is minimal
        for idx in sorted(verdicts, key=lambda i: (len(hists[i][1]), i)):
            skel, ops = hists[idx]
            for rule in sorted(verdicts[idx], key=lambda x: (x["r"], x["k"], x["a"])):
                case = describe(skel, ops, rule, recs[idx])
                rules[rule["r"]] += 1
                hit = out.violation(case, rule["r"], None)
                if hit is None and len(out.violations) <= 25:
                    out.violations[-1]["detail"] = {"written": reproduce(case)}
                elif hit and hit not in shown:
                    shown.add(hit)
                    out.known_examples[hit]["detail"] = {"written": reproduce(case)}
        cov["violated_rules"] = dict(sorted(rules.items()))
        cov["known_examples"] = {k: v for k, v in sorted(out.known_examples.items())}
        # samples: a valid written case, a writer refusal, a divergence
        for want in ("written", "refused"):
            for idx in judged:
                if recs[idx]["gen"] == want and idx not in verdicts and \
                        len(hists[idx][1]) >= 2:
                    cov["samples"].append({
                        "skel": hists[idx][0],
                        "ops": [_opshort(o) for o in hists[idx][1]],
                        "steps": recs[idx]["steps"], "gen": want,
                        "msg": recs[idx]["msg"][:160],
                        "tree": json.loads(recs[idx]["tree"])
                        if recs[idx]["tree"] else None})
                    break
        if diverged:
            idx = diverged[0]
            cov["samples"].append({"divergence": True, "skel": hists[idx][0],
                                   "ops": [_opshort(o) for o in hists[idx][1]],
                                   "steps": recs[idx]["steps"],
                                   "real": json.loads(recs[idx]["ptree"])})
        for r in recs:
            if r["gen"] == "error":
                cov["samples"].append({"writer_other_error": r["msg"]})
                break
        if tier != "quick":
            # anchor: gfortran vs Valid on distinct written programs
            sample, seen_t = [], set()
            for idx in judged:
                r = recs[idx]
                if r["gen"] != "written" or r["tree"] in seen_t:
                    continue
                seen_t.add(r["tree"])
                if len(seen_t) % 7 and idx not in verdicts:
                    continue            # every 7th valid tree, every invalid one
                rl = sorted({x["r"] for x in verdicts.get(idx, [])})
                case = {"skel": hists[idx][0],
                        "ops": [_opshort(o) for o in hists[idx][1]]}
                sample.append((reproduce(case), idx not in verdicts, rl))
                if len(sample) >= 4000:
                    break
            cov["gfortran_anchor"] = gfortran_anchor(sample, tmp, procs)
    finally:
        shutil.rmtree(tmp, ignore_errors=True)
    cov["evaluations"] = len(judged)
    cov["distinct_nontrivial"] = ntrees
    cov["rule"] = ("a case is one transformation history (skeleton, ops with "
                   "options and target); distinct_nontrivial counts the distinct "
                   "real directive trees TLC judged")
    return out.finish(cov, assumptions=[
        "skeletons: <=3 loops, independent iterations (dependence analysis accepts)",
        "Valid = nesting/collapse rules of DirectiveTree.tla (OpenMP 5.0 2.20/2.7/2.9, "
        "OpenACC 3.0 2.5/2.6/2.9/2.15 + the placements named by the property); "
        "clause data-sharing legality is out of scope (C09/C13)",
        "the written text is itemised by c10_replay.itemise (trusted; cross-checked "
        "against the PSyIR projection: differences count as divergences)"])
