'''C25: minimal reproducers of the two known findings against the unchanged
tree.  Run:  /venv/bin/python -m pv.c25_repro {move|fuse|clb}   (PYTHONPATH=/verif/harness)'''
import os
import sys
import tempfile


def move_in_fused_loop():
    '''C25-move-boundaries-in-fused-loop: the 2nd compute_cu_code call ends up in
    whole-array loops (1..SIZE(cu_fld%data)) without any mask.'''
    from psyclone.parse.algorithm import parse
    from psyclone.psyGen import PSyFactory
    from psyclone.gocean1p0 import GOKern
    from psyclone.domain.gocean.transformations import (
        GOceanLoopFuseTrans, GOMoveIterationBoundariesInsideKernelTrans)
    base = os.path.join(os.environ.get("PV_REPO", "/repo"),
                        "src/psyclone/tests/test_files/gocean1p0/")
    if not os.path.isdir(base):
        base = "/repo/src/psyclone/tests/test_files/gocean1p0/"
    _, info = parse(base + "single_invoke_two_identical_kernels.f90", api="gocean1.0")
    psy = PSyFactory("gocean1.0", distributed_memory=False).create(info)
    sched = psy.invokes.invoke_list[0].schedule
    GOceanLoopFuseTrans().apply(sched[0], sched[1])
    GOceanLoopFuseTrans().apply(sched[0].loop_body[0], sched[0].loop_body[1])
    GOMoveIterationBoundariesInsideKernelTrans().apply(sched.walk(GOKern)[0])
    return str(psy.gen)


def fuse_same_name_other_offset():
    '''C25-fuse-same-space-name-other-offset: kb is configured for rows
    {start}-1..{stop}+1 but after the (accepted) fusion runs over ka's rows.'''
    from pv import c25_build as B
    term = lambda cs, ce, c: {"cs": cs, "ce": ce, "c": c}          # noqa: E731
    space = lambda lo, hi: {"name": "go_us1", "os": lo, "oe": hi,  # noqa: E731
                            "is": term(1, 0, 0), "ie": term(0, 1, 0)}
    desc = {"kernels": [
        {"off": "go_offset_ne", "pt": "go_ct", "sp": space(term(1, 0, 0), term(0, 1, 0))},
        {"off": "go_offset_any", "pt": "go_ct", "sp": space(term(1, 0, -1), term(0, 1, 1))}]}
    tmp = tempfile.mkdtemp(prefix="pv-c25r-")
    with open(tmp + "/c25k_mod.f90", "w") as f:
        f.write(B.kern_src(desc))
    with open(tmp + "/alg.f90", "w") as f:
        f.write(B.alg_src(desc))
    lines = B.iteration_space_lines(desc, 0)
    with open(tmp + "/psyclone.cfg", "w") as f:
        f.write(B.config_text(os.environ["PSYCLONE_CONFIG"], lines))
    B.load_config(tmp + "/psyclone.cfg")
    from psyclone.parse.algorithm import parse
    from psyclone.psyGen import PSyFactory
    from psyclone.domain.gocean.transformations import GOceanLoopFuseTrans
    _, info = parse(tmp + "/alg.f90", api="gocean1.0", kernel_paths=[tmp])
    before = str(PSyFactory("gocean1.0", distributed_memory=False).create(info).gen)
    psy = PSyFactory("gocean1.0", distributed_memory=False).create(info)
    sched = psy.invokes.invoke_list[0].schedule
    GOceanLoopFuseTrans().apply(sched[0], sched[1])
    GOceanLoopFuseTrans().apply(sched[0].loop_body[0], sched[0].loop_body[1])
    return "\n".join(lines) + "\n--- before\n" + before + "\n--- after fusion\n" + str(psy.gen)


def clb_fused_mixed_offsets():
    '''C25-const-bounds-fused-mixed-offsets: kb (go_offset_sw, internal T points,
    2..istop) ends up in ka's constant-bounds loops 1..istop.'''
    from pv import c25_build as B
    none = {"cs": 0, "ce": 0, "c": 0}
    space = {"name": "go_internal_pts", "os": none, "oe": none, "is": none, "ie": none}
    desc = {"kernels": [{"off": "go_offset_any", "pt": "go_ct", "sp": space},
                        {"off": "go_offset_sw", "pt": "go_ct", "sp": space}]}
    tmp = tempfile.mkdtemp(prefix="pv-c25r-")
    with open(tmp + "/c25k_mod.f90", "w") as f:
        f.write(B.kern_src(desc))
    with open(tmp + "/alg.f90", "w") as f:
        f.write(B.alg_src(desc))
    from psyclone.parse.algorithm import parse
    from psyclone.psyGen import PSyFactory
    from psyclone.domain.gocean.transformations import (GOceanLoopFuseTrans,
                                                        GOConstLoopBoundsTrans)
    _, info = parse(tmp + "/alg.f90", api="gocean1.0", kernel_paths=[tmp])
    psy = PSyFactory("gocean1.0", distributed_memory=False).create(info)
    sched = psy.invokes.invoke_list[0].schedule
    GOConstLoopBoundsTrans().apply(sched)
    before = str(psy.gen)
    psy = PSyFactory("gocean1.0", distributed_memory=False).create(info)
    sched = psy.invokes.invoke_list[0].schedule
    GOConstLoopBoundsTrans().apply(sched)
    GOceanLoopFuseTrans().apply(sched[2], sched[3])
    GOceanLoopFuseTrans().apply(sched[2].loop_body[0], sched[2].loop_body[1])
    return "--- constant bounds\n" + before + "\n--- then fused\n" + str(psy.gen)


if __name__ == "__main__":
    from pv import core
    core.setup_psyclone_env()
    print({"move": move_in_fused_loop, "fuse": fuse_same_name_other_offset,
           "clb": clb_fused_mixed_offsets}[sys.argv[1]]())
