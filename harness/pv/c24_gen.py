'''C24 helper - renders an invoke shape (enumerated by InvokeBinding.tla) to a
real algorithm file, runs the real generator (old `Alg` class path and the
PSyIR-based algorithm layer), itemises the generated algorithm text (call name
+ actual texts) and the generated PSy-layer Fortran (subroutine names, dummy
lists, per kernel call the provenance of every data argument: proxy -> dummy)
and builds the cases TLC judges (Trace_InvokeBinding.tla).

Nothing here decides the property: anything that cannot be traced makes the
case `unsupported`.'''
import os
import re
import shutil

from pv import core


class Unsupported(Exception):
    pass


def dec(codes):
    return "".join(chr(c) for c in codes)


def enc(text):
    return [ord(c) for c in text]


# ------------------------------------------------------------------- LFRic
LFRIC_KERNELS = {
    # shape kernel id: (module, type name, kernel subroutine, n args)
    "tk5": ("testkern_mod", "testkern_type", "testkern_code", 5),
    "tk2": ("testkern_w2_only_mod", "testkern_w2_only_type",
            "testkern_w2_only_code", 2),
    # stencil (variable / literal extent, xory1d direction) and quadrature
    "tks": ("testkern_stencil_mod", "testkern_stencil_type",
            "testkern_stencil_code", 5),
    "tkx": ("testkern_stencil_xory1d_mod", "testkern_stencil_xory1d_type",
            "testkern_stencil_xory1d_code", 6),
    "tkq": ("testkern_qr_mod", "testkern_qr_type", "testkern_qr_code", 7),
}
LFRIC_EXTRA = {"tks", "tkx", "tkq"}
# kernels with several quadrature shapes in every metadata order: variants of
# testkern_2qr_mod written into the private kernel directory
_QSHAPE = {"x": "gh_quadrature_xyoz", "f": "gh_quadrature_face",
           "e": "gh_quadrature_edge"}
_QORDERS = ["ef", "fe", "xe", "ex", "xf", "fx",
            "xfe", "xef", "fxe", "fex", "exf", "efx"]
for _o in _QORDERS:
    LFRIC_KERNELS["q_" + _o] = ("c24q_%s_mod" % _o, "c24q_%s_type" % _o,
                                "c24q_%s_code" % _o, 4 + len(_o))
    LFRIC_EXTRA.add("q_" + _o)
LFRIC_KERNEL_FILES = ["testkern_mod.F90", "testkern_w2_only_mod.f90",
                      "testkern_stencil_mod.f90",
                      "testkern_stencil_xory1d_mod.f90", "testkern_qr_mod.F90"]
LFRIC_BUILTINS = {"setval_c": 2, "setval_x": 2, "inc_a_times_x": 2,
                  "x_plus_y": 3}

LFRIC_PRELUDE = '''\
  implicit none
  type st_type
     type(field_type) :: f1
     type(field_type) :: fv(2)
     real(r_def) :: x1
     real(r_def) :: xv(2)
  end type st_type
  type p_type
     type(field_type) :: q
     real(r_def) :: x
  end type p_type
  type(field_type) :: f1, f2, m1, m2, m3, p_q
  type(field_type) :: fv(2)
  type(st_type) :: st
  type(p_type) :: p
  real(r_def) :: x1, p_x, xv(2)
'''
# shapes with stencil / quadrature kernels: more objects
LFRIC_PRELUDE_EXTRA = '''\
  implicit none
  type st_type
     type(field_type) :: f1
     type(field_type) :: fv(2)
     real(r_def) :: x1
     real(r_def) :: xv(2)
     integer(i_def) :: n1, d1, i1
     type(quadrature_xyoz_type) :: qr
  end type st_type
  type p_type
     type(field_type) :: q
     real(r_def) :: x
  end type p_type
  type(field_type) :: f1, f2, m1, m2, m3, p_q
  type(field_type) :: fv(2)
  type(st_type) :: st
  type(p_type) :: p
  real(r_def) :: x1, p_x, xv(2)
  integer(i_def) :: n1, n2, d1, i1, nv(2)
  type(quadrature_xyoz_type) :: qr, qr2
  type(quadrature_face_type) :: qf
  type(quadrature_edge_type) :: qe
'''
# the base names the prelude declares (a shape using anything else is a
# machinery error: the universe of the specification and the renderer differ)
_KNOWN_BASES = {"f1", "f2", "m1", "m2", "m3", "p_q", "fv", "st", "p", "x1",
                "p_x", "xv", "n1", "n2", "d1", "i1", "nv", "qr", "qr2", "qf", "qe",
                "x_direction", "y_direction"}
_RE_LIT = re.compile(r"^[+-]?(\d+\.?\d*|\.\d+)([ed][+-]?\d+)?(_\w+)?$", re.I)


def _check_text(text):
    t = text.replace(" ", "")
    if _RE_LIT.match(t):
        return
    base = re.match(r"\w+", t)
    if not base or base.group(0).lower() not in _KNOWN_BASES:
        raise core.MachineryError("shape text not in the rendered universe: "
                                  + repr(text))


def lfric_dir():
    for root in (core.REPO, "/repo"):
        path = os.path.join(root, "src", "psyclone", "tests", "test_files",
                            "dynamo0p3")
        if os.path.isdir(path):
            return path
    raise core.MachineryError("LFRic test kernels not found")


def prepare_kernels(tmp):
    '''A private kernel directory (the repository's test directory holds a
    second testkern_qr_mod in a sub-directory, which the kernel search
    refuses).'''
    kdir = os.path.join(tmp, "kernels_lfric")
    if not os.path.isdir(kdir):
        os.makedirs(kdir)
        for name in LFRIC_KERNEL_FILES:
            shutil.copy(os.path.join(lfric_dir(), name), kdir)
        with open(os.path.join(lfric_dir(), "testkern_2qr_mod.F90")) as f:
            base = f.read()
        line = [ln for ln in base.splitlines() if "gh_shape" in ln]
        if len(line) != 1:
            raise core.MachineryError("testkern_2qr_mod: gh_shape line")
        for order in _QORDERS:
            text = base.replace(line[0], "     integer :: gh_shape(%d) = (/ %s /)"
                                % (len(order),
                                   ", ".join(_QSHAPE[c] for c in order)))
            text = text.replace("testkern_2qr", "c24q_" + order)
            with open(os.path.join(kdir, "c24q_%s_mod.F90" % order), "w") as f:
                f.write(text)
    return kdir


def render_lfric(shape):
    '''Shape (texts already decoded to str) -> Fortran source of an LFRic
    algorithm program.'''
    mods = []
    body = []
    for inv in shape["invokes"]:
        parts = []
        if inv["name"]:
            parts.append('name="%s"' % inv["name"])
        for call in inv["calls"]:
            for a in call["args"]:
                _check_text(a)
            if call["k"] in LFRIC_KERNELS:
                mod, typ, _, nargs = LFRIC_KERNELS[call["k"]]
                if (mod, typ) not in mods:
                    mods.append((mod, typ))
                name = typ
            elif call["k"] in LFRIC_BUILTINS:
                name, nargs = call["k"], LFRIC_BUILTINS[call["k"]]
            else:
                raise core.MachineryError("unknown kernel " + call["k"])
            if nargs != len(call["args"]):
                raise core.MachineryError("arity of " + call["k"])
            parts.append("%s(%s)" % (name, ", ".join(call["args"])))
        body.append("  call invoke( &\n       " + ", &\n       ".join(parts)
                    + " )\n")
    extra = any(c["k"] in LFRIC_EXTRA for inv in shape["invokes"]
                for c in inv["calls"])
    src = "program c24_alg\n"
    src += "  use constants_mod, only: r_def, i_def\n"
    src += "  use field_mod, only: field_type\n"
    if extra:
        src += "  use quadrature_xyoz_mod, only: quadrature_xyoz_type\n"
        src += "  use quadrature_face_mod, only: quadrature_face_type\n"
        src += "  use quadrature_edge_mod, only: quadrature_edge_type\n"
        src += "  use flux_direction_mod, only: x_direction, y_direction\n"
    for mod, typ in mods:
        src += "  use %s, only: %s\n" % (mod, typ)
    src += (LFRIC_PRELUDE_EXTRA if extra else LFRIC_PRELUDE) + "".join(body) \
        + "end program c24_alg\n"
    return src


# ------------------------------------------------------------------ GOcean
GO_KERNELS = {
    # id: (module, type, kernel subroutine, n algorithm args)
    "gcopy": ("kernel_field_copy_mod", "copy", "field_copy_code", 2),
    "gssh": ("kernel_scalar_float", "bc_ssh", "bc_ssh_code", 2),
}
GO_PRELUDE = '''\
  implicit none
  type st_type
     type(r2d_field) :: f1
     type(r2d_field) :: fv(2)
     real(go_wp) :: x1
  end type st_type
  type p_type
     type(r2d_field) :: q
     real(go_wp) :: x
  end type p_type
  type(r2d_field) :: f1, f2, m1, m2, m3, p_q
  type(r2d_field) :: fv(2)
  type(st_type) :: st
  type(p_type) :: p
  real(go_wp) :: x1, p_x, xv(2)
'''


def gocean_dir():
    for root in (core.REPO, "/repo"):
        path = os.path.join(root, "src", "psyclone", "tests", "test_files",
                            "gocean1p0")
        if os.path.isdir(path):
            return path
    raise core.MachineryError("GOcean test kernels not found")


def render_gocean(shape):
    mods = []
    body = []
    for inv in shape["invokes"]:
        parts = []
        if inv["name"]:
            parts.append('name="%s"' % inv["name"])
        for call in inv["calls"]:
            for a in call["args"]:
                _check_text(a)
            if call["k"] not in GO_KERNELS:
                raise core.MachineryError("unknown kernel " + call["k"])
            mod, typ, _, nargs = GO_KERNELS[call["k"]]
            if (mod, typ) not in mods:
                mods.append((mod, typ))
            if nargs != len(call["args"]):
                raise core.MachineryError("arity of " + call["k"])
            parts.append("%s(%s)" % (typ, ", ".join(call["args"])))
        body.append("  call invoke( &\n       " + ", &\n       ".join(parts)
                    + " )\n")
    src = "program c24_alg\n"
    src += "  use kind_params_mod\n  use grid_mod\n  use field_mod\n"
    for mod, typ in mods:
        src += "  use %s, only: %s\n" % (mod, typ)
    src += GO_PRELUDE + "".join(body) + "end program c24_alg\n"
    return src


# --------------------------------------------------------------- itemisers
def split_args(text):
    '''Split at top-level commas.'''
    args, depth, cur = [], 0, ""
    for ch in text:
        if ch == "(":
            depth += 1
        elif ch == ")":
            depth -= 1
            if depth < 0:
                raise Unsupported("unbalanced parentheses")
        if ch == "," and depth == 0:
            args.append(cur.strip())
            cur = ""
        else:
            cur += ch
    if depth != 0:
        raise Unsupported("unbalanced parentheses")
    if cur.strip() or args:
        args.append(cur.strip())
    return args


def join_continuations(text):
    lines = []
    cur = ""
    for line in text.splitlines():
        s = line.rstrip()
        if cur:
            s2 = s.lstrip()
            if s2.startswith("&"):
                s2 = s2[1:]
            s = cur + s2
            cur = ""
        if s.endswith("&") and not s.lstrip().startswith("!"):
            cur = s[:-1]
            continue
        lines.append(s)
    if cur:
        lines.append(cur)
    return lines


_RE_CALL = re.compile(r"^\s*call\s+(\w+)\s*(?:\((.*)\))?\s*$", re.I)


def itemise_alg(text):
    '''Generated algorithm text -> [(called name, [actual texts])] in source
    order.  The rendered programs contain no call other than invokes.'''
    calls = []
    for line in join_continuations(text):
        m = _RE_CALL.match(line)
        if m:
            calls.append((m.group(1), split_args(m.group(2) or "")))
    return calls


_RE_SUB = re.compile(r"^\s*subroutine\s+(\w+)\s*(?:\((.*)\))?\s*$", re.I)
_RE_ENDSUB = re.compile(r"^\s*end\s*subroutine\b", re.I)


def split_subroutines(text):
    '''PSy module text -> [(name, [dummies], [body lines])] in order.'''
    subs = []
    cur = None
    for line in join_continuations(text):
        m = _RE_SUB.match(line)
        if m:
            if cur is not None:
                raise Unsupported("nested subroutine")
            cur = (m.group(1), split_args(m.group(2) or ""), [])
            continue
        if _RE_ENDSUB.match(line):
            if cur is None:
                raise Unsupported("end subroutine without start")
            subs.append(cur)
            cur = None
            continue
        if cur is not None:
            cur[2].append(line.strip())
    if cur is not None:
        raise Unsupported("unterminated subroutine")
    return subs


_RE_PROXY = re.compile(r"^(\w+)\s*=\s*(\w+)\s*%\s*get_proxy\(\)$", re.I)
_RE_DATA = re.compile(r"^(\w+)\s*=>\s*(\w+)\s*%\s*data$", re.I)
_RE_INFRA = re.compile(r"^(nlayers|cell|ndf_\w+|undf_\w+|map_\w+\(:,\s*cell\)"
                       r"|(diff_)?basis_\w+)$", re.I)
_RE_STMAP = re.compile(r"^(\w+)\s*=>\s*(\w+)\s*%\s*vspace\s*%\s*"
                       r"get_stencil_dofmap\(\s*\w+\s*,\s*(.+?)\s*\)$", re.I)
_RE_STDOFMAP = re.compile(r"^(\w+)\s*=>\s*(\w+)\s*%\s*get_whole_dofmap\(\)$",
                          re.I)
_RE_QRPROXY = re.compile(r"^(\w+)\s*=\s*(\w+)\s*%\s*get_quadrature_proxy\(\)$",
                         re.I)
_RE_QRPART = re.compile(r"^(\w+)\s*=>?\s*(\w+)\s*%\s*"
                        r"(np_xy|np_z|weights_xy|weights_z|np_xyz|nfaces|nedges"
                        r"|weights_xyz)$", re.I)
_RE_DECL = re.compile(r"^(type\(\s*\w+\s*\)|real(\(.*?\))?|integer(\(.*?\))?"
                      r"|logical(\(.*?\))?)\s*,\s*intent\(\w+\)\s*::\s*(.+)$",
                      re.I)
_RE_BUILTIN = re.compile(r"^!\s*Built-in:\s*(\w+)", re.I)
_RE_ASSIGN = re.compile(r"^(\w+)\(df\)\s*=\s*(.+)$", re.I)


class _LFRicRoutine:
    def __init__(self, dummies, lines):
        self.dummies = [d.lower() for d in dummies]
        self.proxy = {}
        self.data = {}
        self.stmap = {}          # stencil map -> set of extent expressions
        self.stdofmap = {}       # stencil dofmap pointer -> stencil map
        self.qrproxy = {}        # quadrature proxy -> dummy
        self.qrpart = {}         # np_xy_q / weights_z_q ... -> (proxy, part)
        self.dtype = {}          # dummy -> declared type class
        self.events = []         # (kernel id or code name, [provenance])
        self._scan(lines)

    def dtypes(self):
        '''Declared type class per dummy; [] if one is not declared.'''
        if all(d in self.dtype for d in self.dummies):
            return [self.dtype[d] for d in self.dummies]
        return []

    def _declaration(self, m):
        spec = m.group(1).lower().replace(" ", "")
        if spec.startswith("type("):
            cls = {"type(field_type)": "field",
                   "type(quadrature_xyoz_type)": "qr",
                   "type(quadrature_face_type)": "qrf",
                   "type(quadrature_edge_type)": "qre"}.get(spec, "other")
        elif spec.startswith("real"):
            cls = "real"
        elif spec.startswith("integer"):
            cls = "integer"
        else:
            cls = "other"
        for ent in split_args(m.group(5)):
            name = re.match(r"\w+", ent.strip())
            if name:
                self.dtype[name.group(0).lower()] = cls

    def _kernel_call(self, name, args):
        '''Provenance of the data arguments of a kernel call in the order of
        the invoke: field data and scalars; for a stencil access the extent
        (from the get_stencil_dofmap call behind the dofmap that is passed)
        then the direction; a quadrature rule once (all its parts must come
        from one dummy).'''
        prov = []
        direction = None
        in_stencil = False
        qr_cur = None
        for a in args:
            low = a.strip().lower().replace(" ", "")
            if re.match(r"^\w+_stencil_size(_\d+)?\(cell\)$", low):
                in_stencil = True
                continue
            m = re.match(r"^(\w+)\(:,:,cell\)$", low)
            if m and m.group(1) in self.stdofmap:
                smap = self.stdofmap[m.group(1)]
                exts = self.stmap.get(smap)
                if not exts or len(exts) != 1:
                    raise Unsupported("stencil extent not unique: " + a)
                prov.append(self._classify(next(iter(exts))))
                if prov[-1] is None:
                    raise Unsupported("stencil extent is infrastructure")
                if direction is not None:
                    prov.append(direction)
                direction, in_stencil = None, False
                continue
            if in_stencil:
                if direction is not None:
                    raise Unsupported("two arguments inside a stencil group")
                direction = self._classify(a)
                if direction is None:
                    raise Unsupported("stencil direction is infrastructure")
                continue
            if low in self.qrpart:
                prox, _ = self.qrpart[low]
                if prox not in self.qrproxy:
                    raise Unsupported("quadrature part of unknown proxy: " + a)
                dummy = self.qrproxy[prox]
                if dummy not in self.dummies:
                    raise Unsupported("quadrature proxy of a non-dummy: " + a)
                if qr_cur != dummy:
                    prov.append(("d", dummy))
                    qr_cur = dummy
                continue
            c = self._classify(a)
            if c is not None:
                prov.append(c)
        if in_stencil or direction is not None:
            raise Unsupported("incomplete stencil group in " + name)
        self.events.append((name, prov))

    def _classify(self, expr):
        '''-> ("d", dummy) | ("l", literal text) | None for infrastructure.'''
        e = expr.strip()
        low = e.lower()
        m = re.match(r"^(\w+)\(df\)$", low)
        if m:
            name = m.group(1)
            if name not in self.data:
                raise Unsupported("dof-indexed operand is not a data pointer: "
                                  + e)
            low = name
        if re.match(r"^\w+$", low) and not _RE_LIT.match(low):
            if low in self.data:
                prox = self.data[low]
                if prox not in self.proxy:
                    raise Unsupported("data pointer of unknown proxy: " + e)
                dummy = self.proxy[prox]
                if dummy not in self.dummies:
                    raise Unsupported("proxy of a non-dummy: " + e)
                return ("d", dummy)
            if low in self.dummies:
                return ("d", low)
            if low in ("x_direction", "y_direction"):
                return ("l", low)
            if _RE_INFRA.match(low):
                return None
            raise Unsupported("untraceable kernel argument: " + e)
        if _RE_INFRA.match(low):
            return None
        if _RE_LIT.match(low.replace(" ", "")):
            return ("l", e)
        raise Unsupported("untraceable kernel argument: " + e)

    def _builtin(self, name, line):
        m = _RE_ASSIGN.match(line)
        if not m:
            raise Unsupported("built-in without dof assignment: " + line)
        lhs, rhs = m.group(1) + "(df)", m.group(2).strip()
        if name == "setval_c":
            ops = [lhs, rhs]
        elif name == "setval_x":
            if not re.match(r"^\w+\(df\)$", rhs):
                raise Unsupported("setval_x form: " + line)
            ops = [lhs, rhs]
        elif name == "inc_a_times_x":
            m2 = re.match(r"^(.+?)\s*\*\s*(\w+\(df\))$", rhs)
            if not m2 or m2.group(2).lower() != lhs.lower():
                raise Unsupported("inc_a_times_x form: " + line)
            ops = [m2.group(1), lhs]
        elif name == "x_plus_y":
            m2 = re.match(r"^(\w+\(df\))\s*\+\s*(\w+\(df\))$", rhs)
            if not m2:
                raise Unsupported("x_plus_y form: " + line)
            ops = [lhs, m2.group(1), m2.group(2)]
        else:
            raise Unsupported("built-in " + name)
        prov = []
        for op in ops:
            c = self._classify(op)
            if c is None:
                raise Unsupported("built-in operand is infrastructure: " + op)
            prov.append(c)
        self.events.append((name, prov))

    def _scan(self, lines):
        pending = None
        for line in lines:
            if not line:
                continue
            m = _RE_BUILTIN.match(line)
            if m:
                if pending:
                    raise Unsupported("built-in comment without statement")
                pending = m.group(1).lower()
                continue
            if line.startswith("!"):
                continue
            if pending:
                self._builtin(pending, line)
                pending = None
                continue
            m = _RE_PROXY.match(line)
            if m:
                self.proxy[m.group(1).lower()] = m.group(2).lower()
                continue
            m = _RE_DATA.match(line)
            if m:
                self.data[m.group(1).lower()] = m.group(2).lower()
                continue
            m = _RE_DECL.match(line)
            if m:
                self._declaration(m)
                continue
            m = _RE_STMAP.match(line)
            if m:
                self.stmap.setdefault(m.group(1).lower(), set()).add(
                    m.group(3).lower())
                continue
            m = _RE_STDOFMAP.match(line)
            if m:
                self.stdofmap[m.group(1).lower()] = m.group(2).lower()
                continue
            m = _RE_QRPROXY.match(line)
            if m:
                self.qrproxy[m.group(1).lower()] = m.group(2).lower()
                continue
            m = _RE_QRPART.match(line)
            if m:
                self.qrpart[m.group(1).lower()] = (m.group(2).lower(),
                                                   m.group(3).lower())
                continue
            if _RE_ASSIGN.match(line):
                raise Unsupported("dof assignment without built-in comment")
            m = _RE_CALL.match(line)
            if m and m.group(1).lower().endswith("_code"):
                self._kernel_call(m.group(1).lower(),
                                  split_args(m.group(2) or ""))
        if pending:
            raise Unsupported("built-in comment without statement")


def canon(text):
    return "".join(text.split()).lower()


def build_cases(shape, alg_text, psy_text, api):
    '''-> list with one entry per invoke: ("case", dict) | ("unsupported",
    reason).'''
    ninv = len(shape["invokes"])
    try:
        calls = itemise_alg(alg_text)
        subs = split_subroutines(psy_text)
        if len(calls) != ninv:
            raise Unsupported("%d calls for %d invokes" % (len(calls), ninv))
    except Unsupported as err:
        return [("unsupported", str(err))] * ninv
    res = []
    subnames = [s[0] for s in subs]
    for i, inv in enumerate(shape["invokes"]):
        try:
            cname, actuals = calls[i]
            match = [s for s in subs if canon(s[0]) == canon(cname)]
            if len(match) == 1:
                sub = match[0]
            elif len(subs) == ninv:
                sub = subs[i]
            else:
                raise Unsupported("PSy routine of the invoke not identifiable")
            if api == "lfric":
                rt = _LFRicRoutine(sub[1], sub[2])
            else:
                rt = _GORoutine(sub[1], sub[2])
            if len(rt.events) != len(inv["calls"]):
                raise Unsupported("%d kernel calls in the PSy routine for %d "
                                  "in the invoke" % (len(rt.events),
                                                     len(inv["calls"])))
            kargs = []
            for (ename, prov), call in zip(rt.events, inv["calls"]):
                kid = call["k"]
                table = LFRIC_KERNELS if api == "lfric" else GO_KERNELS
                want = table[kid][2] if kid in table else kid
                if ename != want:
                    raise Unsupported("kernel %s where %s expected"
                                      % (ename, want))
                if len(prov) != len(call["args"]):
                    raise Unsupported("%d traced arguments of %s for %d in "
                                      "the invoke" % (len(prov), ename,
                                                      len(call["args"])))
                kargs.append([{"t": "d", "n": enc(p[1])} if p[0] == "d" else
                              {"t": "l", "v": enc(p[1])} for p in prov])
            case = {"call": enc(cname),
                    "acts": [enc(a) for a in actuals],
                    "subs": [enc(s) for s in subnames],
                    "dums": [enc(d) for d in sub[1]],
                    "dtypes": rt.dtypes() if api == "lfric" else [],
                    "kargs": kargs,
                    "orig": [[enc(a) for a in c["args"]]
                             for c in inv["calls"]],
                    "okinds": [list(c["kinds"]) for c in inv["calls"]]}
            res.append(("case", case))
        except Unsupported as err:
            res.append(("unsupported", str(err)))
    return res


# --------------------------------------------------------- GOcean itemiser
_RE_GO_FIELD = re.compile(r"^(\w+)\s*%\s*data$", re.I)


class _GORoutine:
    '''GOcean PSy routine: kernels are called as
    CALL k_code(i, j, fld%data, scalar, fld%grid%..., ...): field data is taken
    straight from the dummy.'''
    def __init__(self, dummies, lines):
        self.dummies = [d.lower() for d in dummies]
        self.events = []
        for line in lines:
            if not line or line.startswith("!"):
                continue
            m = _RE_CALL.match(line)
            if m and m.group(1).lower().endswith("_code"):
                prov = []
                for a in split_args(m.group(2) or ""):
                    c = self._classify(a)
                    if c is not None:
                        prov.append(c)
                self.events.append((m.group(1).lower(), prov))

    def _classify(self, expr):
        e = expr.strip()
        low = e.lower().replace(" ", "")
        if low in ("i", "j"):
            return None
        m = _RE_GO_FIELD.match(low)
        if m:
            if m.group(1) not in self.dummies:
                raise Unsupported("data of a non-dummy: " + e)
            return ("d", m.group(1))
        if re.match(r"^\w+%grid%\w+$", low) or \
                re.match(r"^\w+%grid%subdomain%internal%\w+$", low):
            return None        # grid property (taken from some field's grid)
        if _RE_LIT.match(low):
            return ("l", e)
        if re.match(r"^\w+$", low):
            if low in self.dummies:
                return ("d", low)
            raise Unsupported("untraceable kernel argument: " + e)
        raise Unsupported("untraceable kernel argument: " + e)


# ------------------------------------------------------------------ worker
def decode_shape(shape):
    return {"id": shape["id"], "fam": shape["fam"],
            "invokes": [{"name": dec(inv["name"]),
                         "calls": [{"k": c["k"], "kinds": list(c["kinds"]),
                                    "args": [dec(a) for a in c["args"]]}
                                   for c in inv["calls"]]}
                        for inv in shape["invokes"]]}


def work(job):
    '''job = (decoded shape, api, dm, tmpdir).  Runs the real generator on the
    rendered shape along every reachable algorithm-layer path and returns
    {"id", "src", "paths": {path: ("refused", why) | ("ok", [per invoke])}}.'''
    shape, api, dm, tmp = job
    core.setup_psyclone_env()
    import psyclone.generator as G
    out = {"id": shape["id"], "api": api, "paths": {}}
    if api == "lfric":
        src = render_lfric(shape)
        kdir = prepare_kernels(tmp)
        paths = [("alg", False), ("psyir", True)]
        apiname = "dynamo0.3"
    else:
        src = render_gocean(shape)
        kdir = gocean_dir()
        paths = [("psyir", False)]
        apiname = "gocean1.0"
    out["src"] = src
    fname = os.path.join(tmp, "c24_%s_%d_%d.f90" % (api, shape["id"],
                                                    os.getpid()))
    with open(fname, "w") as f:
        f.write(src)
    try:
        for pname, flag in paths:
            G.LFRIC_TESTING = flag
            try:
                alg, psy = G.generate(fname, api=apiname, kernel_paths=[kdir],
                                      distributed_memory=dm)
                alg_text, psy_text = str(alg), str(psy)
            except SystemExit:
                out["paths"][pname] = ("refused", "SystemExit")
                continue
            except Exception as err:    # noqa  (a refusal is not a violation)
                out["paths"][pname] = ("refused", type(err).__name__ + ": "
                                       + str(err).replace(fname, "<alg>")[:200])
                continue
            out["paths"][pname] = ("ok", build_cases(shape, alg_text,
                                                     psy_text, api))
    finally:
        G.LFRIC_TESTING = False
        os.unlink(fname)
    return out


# ------------------------------------------------- repository example files
def example_files(api):
    d = lfric_dir() if api == "lfric" else gocean_dir()
    return [os.path.join(d, f) for f in sorted(os.listdir(d))
            if f.endswith(".f90") and not f.endswith("_mod.f90")]


def work_example(job):
    '''job = (algorithm file of the repository, api, dm).  Only the clauses
    about the two lists and the names are decidable here (kernel-argument
    provenance of arbitrary kernels is not traced): kargs = [], orig = actuals.'''
    fname, api, dm = job
    core.setup_psyclone_env()
    import psyclone.generator as G
    out = {"file": os.path.basename(fname), "api": api, "paths": {}}
    if api == "lfric":
        kdir, apiname = lfric_dir(), "dynamo0.3"
        paths = [("alg", False), ("psyir", True)]
    else:
        kdir, apiname = gocean_dir(), "gocean1.0"
        paths = [("psyir", False)]
    try:
        with open(fname, errors="replace") as f:
            own = {c[0].lower() for c in itemise_alg(f.read())}
    except (Unsupported, OSError):
        own = None
    for pname, flag in paths:
        G.LFRIC_TESTING = flag
        try:
            alg, psy = G.generate(fname, api=apiname, kernel_paths=[kdir],
                                  distributed_memory=dm)
            alg_text, psy_text = str(alg), str(psy)
        except BaseException as err:    # noqa  (negative test inputs, exits)
            if isinstance(err, KeyboardInterrupt):
                raise
            out["paths"][pname] = ("refused", type(err).__name__)
            continue
        finally:
            G.LFRIC_TESTING = False
        try:
            if own is None:
                raise Unsupported("source calls not itemisable")
            calls = [c for c in itemise_alg(alg_text)
                     if c[0].lower() not in own - {"invoke"}]
            subs = split_subroutines(psy_text)
            if len(calls) != len(subs):
                raise Unsupported("%d generated calls for %d PSy routines"
                                  % (len(calls), len(subs)))
        except Unsupported as err:
            out["paths"][pname] = ("ok", [("unsupported", str(err))])
            continue
        res = []
        for i, (cname, actuals) in enumerate(calls):
            match = [s for s in subs if canon(s[0]) == canon(cname)]
            sub = match[0] if len(match) == 1 else subs[i]
            res.append(("case", {
                "call": enc(cname), "acts": [enc(a) for a in actuals],
                "subs": [enc(s[0]) for s in subs],
                "dums": [enc(d) for d in sub[1]],
                "dtypes": [], "kargs": [],
                "orig": [[enc(a) for a in actuals]],
                "okinds": [["other"] * len(actuals)]}))
        out["paths"][pname] = ("ok", res)
    return out
