'''C05 - accepted generic loop transformations preserve serial semantics.

A generated family of small routines (all bound/step/subscript combinations of
the grids below) is read by PSyclone; each of the eight generic loop
transformations is applied to every applicable target without any force
option.  Accepted applications give a pair (program before, program after),
both exported from the real PSyIR, and TLC executes both under
spec/FortranSem.tla (SemEquiv.tla) on every input of the case's domain:
clauses SameObservable, NoNewUndefined.  Refusals are not checked here (C26).
'''
import itertools
import random

from pv import core, sem
from pv.export import Unsupported

HEAD = '''subroutine s(a, b, c, n, m, kout, t)
  integer, intent(in) :: n
  integer, intent(in) :: m
  integer, intent(inout) :: kout
  real, intent(inout) :: t
  real, dimension(0:9), intent(inout) :: a
  real, dimension(0:9), intent(inout) :: b
  real, dimension(0:5,0:5), intent(inout) :: c
  integer :: i
  integer :: j
  integer :: k
  real :: x
'''
TAIL = "end subroutine s\n"
DOM = [("n", [-1, 0, 1, 2, 3, 4]), ("m", [1, 2, 3]), ("kout", [7]),
       ("t", [[1, 2]])]
LIVE = ["a", "b", "c", "kout", "t"]
FILLS = [1, 4]


def prog(body):
    return HEAD + "".join("  " + l + "\n" for l in body) + TAIL


# ------------------------------------------------------------------ families
def fam_fuse(tier):
    s1 = ["a(i) = b(i) + 1.0", "a(i) = a(i) * 2.0", "a(i+1) = b(i)",
          "t = t + a(i)", "a(2*i) = b(i)", "a(n-i+4) = b(i)", "x = b(i)",
          "c(i,1) = a(i)", "a(i-1) = 1.0"]
    s2 = ["b(i) = a(i+1)", "b(i) = a(i)", "b(i) = a(i-1) + 1.0", "c(i,2) = a(i)",
          "a(i) = a(i) + 1.0", "b(i) = t", "b(i) = x", "a(i) = c(i,1)",
          "b(i) = a(2*i)", "a(i+1) = a(i+1) * 2.0", "t = t * 2.0 + b(i)"]
    bounds = [("1", "n", ""), ("1", "4", ", 2"), ("n", "1", ", -1"), ("m", "n+1", "")]
    if tier == "quick":
        bounds = bounds[:3]
    for (lo, hi, st), x, y in itertools.product(bounds, s1, s2):
        yield (f"fuse|{lo},{hi}{st}|{x}|{y}",
               prog([f"do i = {lo}, {hi}{st}", "  " + x, "end do",
                     f"do i = {lo}, {hi}{st}", "  " + y, "end do"]))
    # different loop variables, same bounds
    for x, y in itertools.product(s1[:5], ["b(j) = a(j+1)", "b(j) = a(j)", "c(j,2) = a(j-1)",
                                            "a(j) = a(j) + 1.0"]):
        yield (f"fuse2|{x}|{y}",
               prog(["do i = 1, n", "  " + x, "end do",
                     "do j = 1, n", "  " + y, "end do"]))
    # same bounds but different steps / start
    for lohi2 in ["1, n, 2", "1, n, 1", "2, n", "1, n, m", "n, 1, -1"]:
        yield (f"fuse4|{lohi2}",
               prog(["do i = 1, n", "  a(i) = 1.0", "end do",
                     f"do i = {lohi2}", "  b(i) = 2.0", "end do"]))
    # bounds that are only symbolically equal / not equal
    for hi2 in ["n", "n+0", "n*1", "m", "n+1-1"]:
        yield (f"fuse3|{hi2}",
               prog(["do i = 1, n", "  a(i) = 1.0", "end do",
                     f"do i = 1, {hi2}", "  b(i) = 2.0", "end do"]))


def fam_swap(tier):
    bodies = ["c(i,j) = c(i,j) + 1.0", "c(i,j) = c(j,i)", "c(i,j) = c(i-1,j+1)",
              "c(i,j) = c(i-1,j)", "c(i,j) = c(i,j-1) + c(i-1,j)", "a(i) = a(i) + c(i,j)",
              "c(i,j) = c(i+1,j-1) * 2.0", "t = t * 0.5 + c(i,j)", "a(j) = a(i) + 1.0",
              "c(i,j) = a(i) * b(j)", "c(j,i) = c(i,j)", "kout = i * 10 + j"]
    nests = [("1", "n", "1", "m+1"), ("1", "4", "1", "n"), ("n", "1, -1", "1", "3"),
             ("1", "n", "j", "4"), ("1", "n", "1", "3, 2"), ("1", "n", "1", "j"), ("1", "4", "1", "m+j"),
             # a step that uses the other loop's variable / another scalar
             ("1", "3", "1", "5, j"), ("1", "n", "0", "4, m"), ("1", "4, m", "1", "n")]
    for (jl, jh, il, ih), b in itertools.product(nests, bodies):
        yield (f"swap|{jl},{jh}|{il},{ih}|{b}",
               prog([f"do j = {jl}, {jh}", f"  do i = {il}, {ih}", "    " + b,
                     "  end do", "end do"]))


def fam_single(tier):
    bodies = [["a(i) = b(i) + 1.0"], ["a(i) = a(i-1) + 1.0"], ["t = t + a(i)"],
              ["a(i) = b(i)", "kout = i"], ["x = b(i) * 2.0", "a(i) = x"],
              ["a(i) = a(i+1)"], ["if (b(i) > 20.0) a(i) = 0.0"]]
    bounds = [("1", "n", ""), ("0", "n+2", ", 2"), ("n", "0", ", -1"), ("m", "m+n", ""),
              ("1", "8", ", 3"), ("8", "n", ", -2"), ("1", "2*n", ", m")]
    for (lo, hi, st), b in itertools.product(bounds, bodies):
        yield (f"single|{lo},{hi}{st}|{';'.join(b)}",
               prog([f"do i = {lo}, {hi}{st}"] + ["  " + x for x in b] +
                    ["end do"]))


def fam_nest(tier):
    bodies = ["c(i,j) = c(i,j) + 1.0", "c(i,j) = c(i-1,j)", "c(i,j) = a(i) + b(j)",
              "t = t + c(i,j)", "c(i,j) = c(j,i) + 1.0"]
    nests = [("1", "n", "", "1", "m+1", ""), ("1", "4", "", "1", "4", ""),
             ("0", "n", ", 2", "1", "3", ""), ("1", "n", "", "4", "1", ", -1")]
    for (jl, jh, js, il, ih, is_), b in itertools.product(nests, bodies):
        yield (f"nest|{jl},{jh}{js}|{il},{ih}{is_}|{b}",
               prog([f"do j = {jl}, {jh}{js}", f"  do i = {il}, {ih}{is_}", "    " + b,
                     "  end do", "end do"]))


def fam_hoist(tier):
    pre = ["x = 2.0 * t", "x = b(1) + 1.0", "x = a(i)", "x = a(2)", "t = 3.0", "x = t",
           "kout = n + 1", "b(1) = 2.0", "x = real(i)", "k = m + 1", "x = x + 1.0",
           "a(0) = b(0)"]
    post = ["a(i) = x + b(i)", "a(i) = b(i) + t", "t = t + 1.0", "b(i) = x", "x = b(i)",
            "a(i) = real(k) + b(1)", "a(i) = a(0) + 1.0", "b(0) = a(i)"]
    for lohi in [("1", "n"), ("1", "3")]:
        for p, q in itertools.product(pre, post):
            # the candidate statement first, last, or in the middle
            yield (f"hoist|{lohi[1]}|{p}|{q}|first",
                   prog(["x = 0.5", "k = 0", f"do i = {lohi[0]}, {lohi[1]}", "  " + p, "  " + q, "end do",
                         "t = t + x", "kout = kout + k"]))
            yield (f"hoist|{lohi[1]}|{p}|{q}|last",
                   prog(["x = 0.5", "k = 0", f"do i = {lohi[0]}, {lohi[1]}", "  " + q, "  " + p, "end do",
                         "t = t + x", "kout = kout + k"]))


def fam_bound(tier):
    his = ["n*m", "n+m-1", "ubound(a,1)-1", "max(n,m)", "kout", "n"]
    bodies = [["a(i) = b(i) + 1.0"], ["a(i) = b(i)", "kout = kout - 1"], ["a(i) = b(i)", "k = n"]]
    for hi, b in itertools.product(his, bodies):
        for lo, st in [("1", ""), ("m", ", 2"), ("kout-6", "")]:
            yield (f"bound|{lo},{hi}{st}|{';'.join(b)}",
                   prog(["k = 0", f"do i = {lo}, {hi}{st}"] + ["  " + x for x in b] +
                        ["end do", "kout = kout + k"]))


def fam_induction(tier):
    defs = ["k = i + 1", "k = 2 * i", "k = i - 1 + m", "k = n - i + 1", "k = kout + i",
            "k = i", "k = mod(i, 2)", "k = k + 1", "k = j + i"]
    uses = [["a(k) = b(i)"], ["a(i) = b(k)"], ["a(k) = a(k) + 1.0", "kout = k"],
            ["if (k > 2) a(i) = 0.0"], ["a(i) = real(k)", "k = k + 1", "b(i) = real(k)"]]
    for (lo, hi, st), d, u in itertools.product(
            [("1", "n", ""), ("1", "3", ""), ("n", "1", ", -1")], defs, uses):
        yield (f"ind|{lo},{hi}{st}|{d}|{';'.join(u)}",
               prog(["k = 5", "j = 1", f"do i = {lo}, {hi}{st}", "  " + d] + ["  " + x for x in u] +
                    ["end do", "kout = kout + k"]))
    for d, u in itertools.product(defs[:5], uses[:3]):
        yield (f"ind2|{d}|{';'.join(u)}",
               prog(["k = 5", "j = 1", "do i = 1, n"] + ["  " + x for x in u] + ["  " + d] +
                    ["end do", "kout = kout + k"]))


def fam_fold(tier):
    conds = ["n > 2", "n == 0", "m < 2 .and. n > 0", "t > 0.0"]
    for c1 in conds:
        for tail in [["a(1) = 1.0", "b(2) = a(1)"], ["do i = 1, n", "  a(i) = 0.0", "end do"]]:
            yield (f"fold1|{c1}|{len(tail)}",
                   prog([f"if ({c1}) then", "  return", "end if"] + tail))
            yield (f"fold2|{c1}|{len(tail)}",
                   prog([f"if ({c1}) then", "  return", "end if", "t = t + 1.0",
                         "if (n > 3) then", "  return", "end if"] + tail))
            yield (f"fold3|{c1}|{len(tail)}",
                   prog(["a(0) = 5.0", f"if ({c1}) then", "  return", "end if"] + tail))
            yield (f"fold4|{c1}|{len(tail)}",
                   prog([f"if ({c1}) then", "  a(0) = 5.0", "  return", "end if"] + tail))


# -------------------------------------------------------------- applications
def _loops(r):
    from psyclone.psyir.nodes import Loop
    return r.walk(Loop)


def applications(fam):
    '''[(label, function(routine) applying one transformation)] for a family.'''
    from psyclone.psyir import transformations as T
    from psyclone.psyir.nodes import Assignment, Loop
    apps = []
    if fam in ("fuse", "fuse2", "fuse3", "fuse4", "lvfuse"):
        apps.append(("LoopFuseTrans", lambda r: T.LoopFuseTrans().apply(
            _loops(r)[0], _loops(r)[1])))
    if fam in ("swap", "nest", "lvnest"):
        apps.append(("LoopSwapTrans", lambda r: T.LoopSwapTrans().apply(_loops(r)[0])))
        for ts in (2, 3):
            apps.append((f"LoopTiling2DTrans:{ts}",
                         lambda r, ts=ts: T.LoopTiling2DTrans().apply(
                             _loops(r)[0], {"tilesize": ts})))
    if fam in ("single", "nest", "swap", "fuse", "lv", "lvnest"):
        for cs in (2, 3):
            apps.append((f"ChunkLoopTrans:{cs}",
                         lambda r, cs=cs: T.ChunkLoopTrans().apply(
                             _loops(r)[0], {"chunksize": cs})))
    if fam in ("nest",):
        apps.append(("ChunkLoopTrans:2:inner", lambda r: T.ChunkLoopTrans().apply(
            _loops(r)[1], {"chunksize": 2})))
    if fam in ("hoist",):
        for pos in (0, 1):
            apps.append((f"HoistTrans:{pos}",
                         lambda r, pos=pos: T.HoistTrans().apply(
                             _loops(r)[0].loop_body.children[pos])))
    if fam in ("bound", "single", "swap"):
        apps.append(("HoistLoopBoundExprTrans",
                     lambda r: T.HoistLoopBoundExprTrans().apply(_loops(r)[0])))
    if fam in ("swap",):
        apps.append(("HoistLoopBoundExprTrans:inner",
                     lambda r: T.HoistLoopBoundExprTrans().apply(_loops(r)[1])))
    if fam in ("ind", "ind2", "hoist"):
        apps.append(("ReplaceInductionVariablesTrans",
                     lambda r: T.ReplaceInductionVariablesTrans().apply(_loops(r)[0])))
    if fam.startswith("fold"):
        apps.append(("FoldConditionalReturnExpressionsTrans",
                     lambda r: T.FoldConditionalReturnExpressionsTrans().apply(r)))
    return apps


def fam_lv(tier):
    # the value of a loop variable after its loop is observed (kout)
    for lo, hi, st in [("1", "n", ""), ("0", "n+2", ", 2"), ("n", "0", ", -1")]:
        yield (f"lv|{lo},{hi}{st}",
               prog([f"do i = {lo}, {hi}{st}", "  a(i) = b(i) + 1.0", "end do", "kout = i"]))
    yield ("lvnest|", prog(["do j = 1, n", "  do i = 1, 3", "    c(i,j) = 1.0", "  end do", "end do",
                            "kout = 10 * j + i"]))
    yield ("lvfuse|", prog(["do i = 1, n", "  a(i) = 1.0", "end do", "do j = 1, n", "  b(j) = 2.0",
                            "end do", "kout = 10 * j + i"]))


FAMILIES = [fam_lv, fam_fuse, fam_swap, fam_single, fam_nest, fam_hoist, fam_bound,
            fam_induction, fam_fold]


def _literal_steps(r):
    '''A step written "-2" is read as UnaryOperation(MINUS, Literal), which
    ChunkLoopTrans refuses as non-literal; PSyIR built by the domain APIs uses
    Literal("-2").  Give the loops that form so that negative steps are reached.'''
    from psyclone.psyir.nodes import Literal, Loop
    from pv.export import const_int
    for lp in r.walk(Loop):
        st = lp.step_expr
        if not isinstance(st, Literal):
            v = const_int(st)
            if v is not None:
                st.replace_with(Literal(str(v), lp.variable.datatype))


def _build(item):
    '''(id, source) -> list of result dicts, one per application.'''
    from psyclone.psyir.transformations import TransformationError
    pid, src = item
    fam = pid.split("|")[0]
    out = []
    for label, fn in applications(fam):
        cid = f"{pid}#{label}"
        try:
            psy = sem.parse(src)
            r = sem.routine_named(psy, "s")
            _literal_steps(r)
            ref = sem.Exporter().routine(r)
        except Unsupported as err:
            out.append({"id": cid, "status": "unsupported", "why": "ref: " + str(err)})
            continue
        try:
            fn(r)
        except TransformationError:
            out.append({"id": cid, "status": "refused"})
            continue
        except Exception as err:   # noqa  - an internal error is not a refusal
            out.append({"id": cid, "status": "crash",
                        "why": f"{type(err).__name__}: {err}"[:300]})
            continue
        try:
            new = sem.Exporter().routine(r)
            case = sem.equiv_case(cid, ref, [new], DOM, FILLS, LIVE)
            text = sem.write(r)
        except Unsupported as err:
            out.append({"id": cid, "status": "unsupported", "why": str(err)})
            continue
        out.append({"id": cid, "status": "accepted", "case": case, "src": src,
                    "after": text, "trans": label.split(":")[0], "label": label})
    return out


# ------------------------------------------------------------ known findings
def _ival(e, env):
    """integer value of a simple pv-ast expression under env, or None"""
    k = e.get("k")
    if k == "lit" and e.get("t") == "int":
        return e["v"]
    if k == "ref":
        return env.get(e["name"])
    if k == "un" and e["op"] in "+-":
        v = _ival(e["e"], env)
        return None if v is None else (-v if e["op"] == "-" else v)
    if k == "bin" and e["op"] in ("+", "-", "*"):
        l, r = _ival(e["l"], env), _ival(e["r"], env)
        if l is None or r is None:
            return None
        return l + r if e["op"] == "+" else l - r if e["op"] == "-" else l * r
    if k == "icall" and e["name"] in ("MAX", "MIN"):
        vs = [_ival(a, env) for a in e["args"]]
        if None in vs:
            return None
        return max(vs) if e["name"] == "MAX" else min(vs)
    return None


def _first_loop(case):
    for s in case["progs"][0]["body"]:
        if s["k"] == "loop":
            return s
    return None


def _trip(loop, env):
    lo, hi, st = (_ival(loop[x], env) for x in ("lo", "hi", "st"))
    if None in (lo, hi, st) or st == 0:
        return None
    q = abs(hi - lo + st) // abs(st)
    q = q if (hi - lo + st >= 0) == (st > 0) else -q
    return max(q, 0)


def _env(case, val):
    return {d[0]: v for d, v in zip(case["dom"], val) if isinstance(v, int)}


def _accesses(stmts, acc=None):
    """{name: set((is_write, subscript json))} over a statement list"""
    import json
    acc = {} if acc is None else acc

    def ex(e, w=False):
        if not isinstance(e, dict):
            return
        if e.get("k") == "aref":
            acc.setdefault(e["name"], set()).add((w, json.dumps(e["idx"], sort_keys=True)))
            for i in e["idx"]:
                ex(i)
        elif e.get("k") == "ref":
            acc.setdefault(e["name"], set()).add((w, ""))
        else:
            for v in e.values():
                if isinstance(v, dict):
                    ex(v)
                elif isinstance(v, list):
                    for x in v:
                        ex(x)

    def st(s):
        if s["k"] == "assign":
            ex(s["lhs"], True)
            ex(s["rhs"])
        else:
            for key, v in s.items():
                if key in ("body", "then", "else"):
                    for x in v:
                        st(x)
                elif isinstance(v, dict):
                    ex(v)
    for s in stmts:
        st(s)
    return acc


def _top_loops(case):
    return [s for s in case["progs"][0]["body"] if s["k"] == "loop"]


def m_fuse_distance(rec, clause, detail, finding):
    """LoopFuseTrans accepted two loops that touch a common array, at least one
    of them writing it, through different subscripts.  (No scalar-only case fails
    on the unchanged tree, so scalars are deliberately not covered.)"""
    if rec["trans"] != "LoopFuseTrans" or clause != "SameObservable":
        return False
    loops = _top_loops(rec["case"])
    if len(loops) < 2:
        return False
    a1 = _accesses(loops[0]["body"])
    a2 = _accesses(loops[1]["body"])
    for nm in set(a1) & set(a2):
        if nm in (loops[0]["var"], loops[1]["var"]):
            continue
        w = any(x[0] for x in a1[nm]) or any(x[0] for x in a2[nm])
        subs = {x[1] for x in a1[nm]} | {x[1] for x in a2[nm]}
        if w and len(subs) > 1:     # an array accessed through different subscripts
            return True
    return False


def m_swap_dependence(rec, clause, detail, finding):
    """LoopSwapTrans / LoopTiling2DTrans accepted a nest whose body accesses a
    variable it writes through a second, different subscript (a carried
    dependence) or updates a scalar / lower-rank element from itself."""
    if rec["trans"] not in ("LoopSwapTrans", "LoopTiling2DTrans") or \
            clause != "SameObservable":
        return False
    loops = _top_loops(rec["case"])
    if not loops or not loops[0]["body"] or loops[0]["body"][0]["k"] != "loop":
        return False
    outer, inner = loops[0], loops[0]["body"][0]
    acc = _accesses(inner["body"])
    for nm, uses in acc.items():
        if nm in (outer["var"], inner["var"]) or not any(u[0] for u in uses):
            continue
        subs = {u[1] for u in uses}
        if len(subs) > 1:
            return True
        # read and written with a subscript that does not use both loop variables
        if len(uses) > 1 and not all(
                ('"' + v + '"') in next(iter(subs)) for v in (outer["var"], inner["var"])):
            return True
    return False


def m_zero_trip(rec, clause, detail, finding):
    """HoistTrans moves a statement out of / ReplaceInductionVariablesTrans adds
    an assignment after a loop; it is then executed although the loop has zero
    trips.  Every failing input must be a zero-trip input."""
    if rec["trans"] not in ("HoistTrans", "ReplaceInductionVariablesTrans"):
        return False
    return clause in ("SameObservable", "NoNewUndefined") and detail["all_zero_trip"]


def m_chunk_step(rec, clause, detail, finding):
    """ChunkLoopTrans / LoopTiling2DTrans on a loop whose step s has |s| > 1 and
    does not divide the chunk size: iterations of the next chunk are misaligned."""
    if rec["trans"] not in ("ChunkLoopTrans", "LoopTiling2DTrans"):
        return False
    size = int(rec["label"].split(":")[1])
    for lp in detail["target_loops"]:
        st = _ival(lp["st"], {})
        if st is not None and abs(st) > 1 and size % abs(st) != 0:
            return True
    return False


def m_chunk_negative(rec, clause, detail, finding):
    """ChunkLoopTrans / LoopTiling2DTrans on a loop with a negative step: the
    inner bound is out_var - (chunk + 1) instead of out_var - (chunk - 1)."""
    if rec["trans"] not in ("ChunkLoopTrans", "LoopTiling2DTrans"):
        return False
    for lp in detail["target_loops"]:
        st = _ival(lp["st"], {})
        if st is not None and st < 0:
            return True
    return False


def m_loopvar_live_out(rec, clause, detail, finding):
    """the value of a loop variable after the loop is changed or left undefined
    (chunking, tiling, swapping, fusing loops with different variables) - only
    the families that read a loop variable after the loop (lv*) can show it."""
    return rec["id"].startswith("lv") and detail["names"] <= {"kout"}


MATCHERS = {"fuse-no-distance-check": m_fuse_distance,
            "swap-carried-dependence": m_swap_dependence,
            "zero-trip-hoist": m_zero_trip,
            "chunk-step-not-divisor": m_chunk_step,
            "chunk-negative-step": m_chunk_negative,
            "loopvar-live-out": m_loopvar_live_out}


def _target_loops(rec):
    """loops of the reference program the chunk/tile application targets"""
    loops = _top_loops(rec["case"])
    if not loops:
        return []
    if rec["trans"] == "LoopTiling2DTrans":
        inner = [s for s in loops[0]["body"] if s["k"] == "loop"]
        return [loops[0]] + inner[:1]
    if rec["label"].endswith(":inner"):
        return [s for s in loops[0]["body"] if s["k"] == "loop"][:1]
    return loops[:1]


def items(tier):
    out = []
    for fam in FAMILIES:
        out.extend(fam(tier))
    return out


def run(tier):
    core.setup_psyclone_env()
    out = core.Outcome("C05", tier, "model_checking", matchers=MATCHERS)
    items = []
    for fam in FAMILIES:
        items.extend(fam(tier))
    if tier == "quick":
        # deterministic thinning of the largest families
        rnd = random.Random(12345)
        keep = []
        for it in items:
            fam = it[0].split("|")[0]
            if fam in ("fuse", "hoist", "ind") and rnd.random() > 0.5:
                continue
            keep.append(it)
        items = keep
    results = [r for part in core.pool_map(_build, items) for r in part]
    stat = {}
    for r in results:
        stat[r["status"]] = stat.get(r["status"], 0) + 1
    accepted = [r for r in results if r["status"] == "accepted"]
    if stat.get("unsupported", 0) > 0.2 * max(1, len(results)):
        raise core.MachineryError(f"too many unsupported cases: {stat}")
    res = sem.run_equiv([r["case"] for r in accepted])
    per_trans = {}
    nontrivial = 0
    for r in accepted:
        cid = r["id"]
        ninp = sem.n_inputs(r["case"])
        live_inputs = ninp - res.discards.get(cid, 0)
        pt = per_trans.setdefault(r["trans"], {"accepted": 0, "nontrivial": 0, "failing": 0})
        pt["accepted"] += 1
        if live_inputs > 0:
            nontrivial += 1
            pt["nontrivial"] += 1
        fails = res.fails.get(cid, [])
        if not fails:
            continue
        pt["failing"] += 1
        wit = [f[1] for f in fails]
        lp = _first_loop(r["case"])
        trips = [(_trip(lp, _env(r["case"], w["val"])) if lp else None) for w in wit]
        rec = {"id": cid, "trans": r["trans"], "label": r["label"], "case": r["case"]}
        detail = {"witnesses": wit[:4], "n_failing_inputs": len(wit),
                  "names": {n for w in wit for n in w.get("names", [])},
                  "all_zero_trip": all(t == 0 for t in trips),
                  "target_loops": _target_loops(rec)}
        slim = {"id": cid, "trans": r["trans"], "label": r["label"], "source": r["src"],
                "after": r["after"]}
        sdetail = {"witnesses": wit[:4], "n_failing_inputs": len(wit),
                   "differing": sorted(detail["names"]),
                   "all_zero_trip": detail["all_zero_trip"]}
        for cl in sorted({f[0] for f in fails}):
            out.classify(rec, cl, detail, slim, sdetail)
    crashes = [r for r in results if r["status"] == "crash"]
    cov = {"states": res.states, "transitions": res.transitions,
           "traces_validated_against_impl": len(accepted),
           "evaluations": len(results), "distinct_nontrivial": nontrivial,
           "rule": ("one case = (generated routine, transformation, target, options); "
                    "non-trivial = the transformation accepted it without force and the "
                    "original program is defined on at least one input of the domain"),
           "status_counts": stat, "per_transformation": per_trans,
           "inputs_per_case": sem.n_inputs(accepted[0]["case"]) if accepted else 0,
           "discarded_ub_inputs": sum(res.discards.values()),
           "internal_errors": [{"id": c["id"], "why": c["why"]} for c in crashes[:10]],
           "known_examples": out.known_examples,
           "samples": [{"id": r["id"], "source": r["src"], "after": r["after"]}
                       for r in accepted[:: max(1, len(accepted) // 4)][:4]],
           "exhaustive": False}
    return out.finish(cov, assumptions=[
        "exact rational arithmetic for reals; inputs n in -1..4, m in 1..3, two array fills",
        "observables: the dummy arguments a, b, c, kout, t; loop variables are observable only in "
        "the lv* families, which copy them to kout after the loop",
        "inputs on which the original program is undefined (out-of-bounds, undefined read) are discarded",
        "exporter pv.export is trusted; it fails closed (unsupported)"])
