'''C26 - transformation recorder (binding B, code -> spec).

`install()` wraps `apply` of every Transformation subclass (monkeypatch, only
when SVALAT_PSYCLONE_VERIF=1).  Every call becomes two trace lines

    ["B", seq, trans, text, syms, tree, carried]     (TransTxn!Begin)
    ["E", seq, outcome, text, syms, tree]            (Commit | Refuse | Crash)

with outcome "ok" | "refused" (TransformationError) | "crash" (any other
exception type).  The fingerprint covers the roots of all nodes handed to
`apply`.  Nested calls (a transformation using another one) are recorded as
nested transactions; a `super().apply` of the same object on the same target
is the same attempt and is not recorded twice.
'''
import os
import sys

from pv import c26_fp

GUARD = "SVALAT_PSYCLONE_VERIF"
TRANS_MODULES = ["psyclone.transformations", "psyclone.psyir.transformations",
                 "psyclone.psyad.transformations", "psyclone.psyGen"]

MAX_NEST = int(os.environ.get("C26_MAX_NEST", "3"))


def discover():
    '''All Transformation subclasses reachable by importing the transformation
    packages (86 in PSyclone 2.5.0).'''
    import importlib
    import pkgutil
    import psyclone.domain
    from psyclone.psyGen import Transformation
    mods = list(TRANS_MODULES)
    for m in pkgutil.walk_packages(psyclone.domain.__path__, "psyclone.domain."):
        if ".transformations" in m.name:
            mods.append(m.name)
    pit = importlib.import_module("psyclone.psyir.transformations")
    for m in pkgutil.walk_packages(pit.__path__, "psyclone.psyir.transformations."):
        mods.append(m.name)
    pat = importlib.import_module("psyclone.psyad.transformations")
    for m in pkgutil.walk_packages(pat.__path__, "psyclone.psyad.transformations."):
        mods.append(m.name)
    for m in mods:
        importlib.import_module(m)

    def allsub(c):
        res = []
        for s in c.__subclasses__():
            res.append(s)
            res += allsub(s)
        return res
    seen = {}
    for c in allsub(Transformation):
        if (c.__module__ or "").startswith("psyclone."):
            seen[c.__module__ + "." + c.__name__] = c
    return [seen[k] for k in sorted(seen)]


class Recorder:
    def __init__(self):
        self.sessions = []          # {"sid","closed","lines","meta"}
        self.cur = None
        self.stack = []             # open attempts
        self.seq = 0
        self.installed = []
        self.post_on_ok = True
        self.counts = {"ok": 0, "refused": 0, "crash": 0, "no_tree": 0,
                       "super_calls": 0, "too_deep": 0, "text_written": 0,
                       "text_inferred": 0, "writer_flaky": 0}
        self.text_every = 1         # write the text of every n-th unchanged post
        self.crash_types = {}
        self.context = ""           # e.g. pytest node id
        self.continuity = None      # (numbering, roots, FP) of a closed session
        self.auto_session = True

    # -- sessions -----------------------------------------------------------
    def begin_session(self, sid, closed=False):
        self.cur = {"sid": sid, "closed": closed, "lines": [], "meta": {}}
        self.sessions.append(self.cur)
        self.continuity = None
        return self.cur

    def end_session(self):
        self.cur = None
        self.continuity = None

    # -- the wrapper --------------------------------------------------------
    @staticmethod
    def _roots(args, kwargs):
        from psyclone.psyir.nodes import Node
        roots, first = [], None
        seen = set()

        def visit(x, lvl):
            nonlocal first
            if isinstance(x, Node):
                if first is None:
                    first = x
                r = x.root
                if id(r) not in seen:
                    seen.add(id(r))
                    roots.append(r)
            elif isinstance(x, (list, tuple)) and lvl < 2:
                for y in x[:64]:
                    visit(y, lvl + 1)
        for a in args:
            visit(a, 0)
        for k in sorted(kwargs):
            if k != "options":
                visit(kwargs[k], 0)
        return roots, first

    @staticmethod
    def _path(node):
        path = []
        cur = node
        while cur is not None and cur._parent is not None:
            try:
                path.append(cur.position)
            except Exception:      # noqa
                path.append(-1)
            cur = cur._parent
        return list(reversed(path))

    def _fp(self, roots, numbering, pre, infer_from=None):
        if len(roots) == 1:
            fp = c26_fp.fingerprint(roots[0], numbering, pre=pre,
                                    infer_from=infer_from)
            self.counts["text_inferred" if fp.inferred else "text_written"] += 1
            return fp
        fps = [c26_fp.fingerprint(r, numbering, pre=pre) for r in roots]
        self.counts["text_written"] += 1
        raw = tuple("\n=== ROOT ===\n".join(f.raw[i] for f in fps)
                    for i in range(3))
        return c26_fp.FP(c26_fp._h(raw[0]), c26_fp._h(raw[1]),
                         c26_fp._h(raw[2]), raw, sum(f.nnodes for f in fps))

    def call(self, orig, cls, tself, args, kwargs):
        from psyclone.psyir.transformations import TransformationError
        roots, first = self._roots(args, kwargs)
        if self.stack:
            top = self.stack[-1]
            if top["self"] is tself and top["first"] is first:
                self.counts["super_calls"] += 1
                return orig(tself, *args, **kwargs)
            if len(self.stack) >= MAX_NEST:
                self.counts["too_deep"] += 1
                return orig(tself, *args, **kwargs)
        if not roots:
            # nothing that could be modified was handed over
            self.counts["no_tree"] += 1
            return orig(tself, *args, **kwargs)
        if self.cur is None:
            if not self.auto_session:
                return orig(tself, *args, **kwargs)
            self.begin_session(f"{self.context}#{len(self.sessions)}")
            auto = True
        else:
            auto = False
        sess = self.cur
        self.seq += 1
        seq = self.seq
        depth = len(self.stack)
        if depth == 0:
            cont = self.continuity
            if (sess["closed"] and cont is not None and len(cont[1]) == len(roots)
                    and all(a is b for a, b in zip(cont[1], roots))):
                numbering, pre = cont[0], cont[2]
                carried = 1
            else:
                numbering = c26_fp.Numbering()
                pre = self._fp(roots, numbering, True)
                carried = 0
        else:
            # nested attempt: same numbering, and (LFRic) the same set of
            # pre-existing symbols as the enclosing top-level attempt
            numbering = self.stack[0]["numbering"]
            pre = self._fp(roots, numbering, False)
            carried = 0
        name = type(tself).__name__
        opts = kwargs.get("options", args[1] if len(args) > 1 and
                          isinstance(args[1], dict) else None)
        info = {"seq": seq, "trans": name, "cls": cls.__name__, "depth": depth,
                "target": (type(first).__name__, self._path(first)),
                "opts": repr(opts)[:200], "ctx": self.context}
        # last field: 1 = the state is claimed to be the one the previous
        # top-level attempt of this (closed) session ended in
        sess["lines"].append(["B", seq, name] + pre.triple() + [carried])
        frame = {"self": tself, "first": first, "numbering": numbering}
        self.stack.append(frame)
        outcome, exc = "ok", None
        try:
            return orig(tself, *args, **kwargs)
        except TransformationError as err:
            outcome, exc = "refused", err
            raise
        except BaseException as err:
            if isinstance(err, (KeyboardInterrupt, SystemExit, GeneratorExit)):
                outcome = "abort"
            else:
                outcome, exc = "crash", err
            raise
        finally:
            self.stack.pop()
            if outcome == "abort":
                sess["lines"].append(["E", seq, "crash"] + pre.triple())
            else:
                if outcome == "ok" and not self.post_on_ok:
                    post = None
                else:
                    # roots are those of the begin: a node detached from them
                    # shows up as a change of the tree it was taken from
                    infer = None
                    if self.text_every > 1 and seq % self.text_every:
                        infer = pre
                    # after a commit everything is (re)numbered: pre-mode
                    post = self._fp(roots, numbering,
                                    outcome == "ok" and depth == 0,
                                    infer_from=infer)
                if (post is not None and post.text != pre.text
                        and post.syms == pre.syms and post.tree == pre.tree
                        and (pre.raw[0].startswith("ERR:")
                             or post.raw[0].startswith("ERR:"))):
                    # the writer answered differently for identical dumps:
                    # not something the attempt did to the tree
                    self.counts["writer_flaky"] += 1
                    post.text = pre.text
                    post.raw = (pre.raw[0],) + tuple(post.raw[1:])
                self.counts[outcome] += 1
                line = ["E", seq, outcome] + (post.triple() if post else ["", "", ""])
                sess["lines"].append(line)
                info["outcome"] = outcome
                if exc is not None:
                    info["exc"] = type(exc).__name__
                    try:
                        info["msg"] = str(exc)[:300]
                    except Exception:     # noqa
                        info["msg"] = "?"
                    if outcome == "crash":
                        self.crash_types[info["exc"]] = \
                            self.crash_types.get(info["exc"], 0) + 1
                if outcome in ("refused", "crash") and post.triple() != pre.triple():
                    info["diff"] = {
                        nm: c26_fp.diff_component(pre.raw[i], post.raw[i])
                        for i, nm in enumerate(("text", "syms", "tree"))
                        if pre.raw[i] != post.raw[i]}
                if outcome != "ok" or len(sess["meta"]) < 3:
                    sess["meta"][str(seq)] = info
                if depth == 0:
                    if sess["closed"] and post is not None:
                        self.continuity = (numbering, roots, post)
                    else:
                        self.continuity = None
                    if auto:
                        self.end_session()

    # -- installation -------------------------------------------------------
    def install(self):
        if os.environ.get(GUARD) != "1":
            raise RuntimeError("C26 recorder needs " + GUARD + "=1")
        if self.installed:
            return len(self.installed)
        rec = self
        for cls in discover():
            if "apply" not in cls.__dict__:
                continue
            orig = cls.__dict__["apply"]
            if getattr(orig, "__isabstractmethod__", False):
                continue
            if getattr(orig, "_c26_wrapped", False):
                continue

            def make(orig, cls):
                def apply(self, *args, **kwargs):
                    return rec.call(orig, cls, self, args, kwargs)
                apply.__name__ = "apply"
                apply.__qualname__ = getattr(orig, "__qualname__", "apply")
                apply.__doc__ = orig.__doc__
                apply.__wrapped__ = orig
                apply._c26_wrapped = True
                return apply
            setattr(cls, "apply", make(orig, cls))
            self.installed.append((cls, orig))
        return len(self.installed)

    def uninstall(self):
        for cls, orig in self.installed:
            setattr(cls, "apply", orig)
        self.installed = []

    def dump(self):
        return {"sessions": self.sessions, "counts": self.counts,
                "crash_types": self.crash_types}


RECORDER = Recorder()
