'''C25 - GOcean loops visit exactly the configured grid points.

1. GOceanRegion.tla is model-checked at design level (the reference regions and
   the synthetic field environments satisfy the clauses on every grid 1..4 x 1..4).
2. TLC enumerates the family of invokes (GOceanRegion!Family: offset x point
   type x iteration space, built-in and user-defined, one or two kernels, with
   transformation histories; F5: histories of configuration files loaded in one
   process - AddBounds on the table of configured bounds, last definition wins).
3. For every element the harness writes real algorithm / kernel / config files,
   builds the real schedule, applies the real transformations, generates the PSy
   layer and exports the generated loop nests (c25_build).
4. Trace_GOceanRegion.tla executes every exported loop nest under FortranSem on
   every grid size and field environment and judges the kernel-call log:
   BoundsDefined, EachPointOnce, VisitedEqualsRegion, WithinDepth1Halo,
   ContainsInternal, WithinModelDomain, PerPointSequenceUnchanged.

C25_CORRUPT=<kind> corrupts one exported program (binding demonstration).'''
import collections
import json
import os
import shutil

from pv import core
from pv import c25_build as B

MAXN_QUICK, MAXN_THOROUGH = 3, 4          # grid sizes 1..MAXN x 1..MAXN


# ------------------------------------------------------------ known findings
def _m_fuse_same_name_other_offset(case, clause, detail, finding):
    '''Two kernels whose user-defined iteration spaces have the same name and
    point type but belong to different index offsets (one go_offset_any) with
    different bounds were fused: the second kernel runs over the first one's
    region.'''
    ks = case["kernels"]
    if len(ks) != 2 or "FUSE" not in case["hist"].replace("FUSEO", "FUSE"):
        return False
    a, b = ks
    return (clause in ("VisitedEqualsRegion", "PerPointSequenceUnchanged")
            and a["sp"]["name"] == b["sp"]["name"] and a["sp"]["name"] not in B.META_SP
            and a["pt"] == b["pt"] and a["off"] != b["off"]
            and "go_offset_any" in (a["off"], b["off"])
            and a["sp"] != b["sp"])


def _m_move_in_fused_loop(case, clause, detail, finding):
    '''GOMoveIterationBoundariesInsideKernelTrans applied to a kernel of a loop
    nest that (after an accepted fusion) holds two kernels: the loops become
    whole-array loops but only the moved kernel gets a mask, the other kernel is
    called on extra points (nothing is missing).'''
    ops = case["hist"].split("+")
    fuse = [n for n, o in enumerate(ops) if o in ("FUSE", "FUSEO")]
    move = [n for n, o in enumerate(ops) if o.startswith("MOVE")]
    if len(case["kernels"]) != 2 or not fuse or not move or min(move) < fuse[0]:
        return False
    d = detail["witness"].get("d", {})
    return (clause == "VisitedEqualsRegion" and d.get("missing") == []
            and bool(d.get("extra")))


def _m_clb_fused_mixed_offsets(case, clause, detail, finding):
    '''A go_offset_any kernel and a kernel with a definite offset (same point
    type, same built-in space) are fused and given constant loop bounds (either
    order): the two loops have different constant bounds (the go_offset_any row of
    the table), fusion compares only the space name, and the kernel with the
    definite offset runs over the other one's bounds.'''
    ops = case["hist"].split("+")
    ks = case["kernels"]
    if len(ks) != 2 or "CLB" not in ops or not {"FUSE", "FUSEO"} & set(ops):
        return False
    offs = [k["off"] for k in ks]
    label = detail["witness"].get("kernel", "")
    idx = 0 if label.startswith("ka_") else 1
    return (clause == "VisitedEqualsRegion" and offs[0] != offs[1]
            and "go_offset_any" in offs and offs[idx] != "go_offset_any"
            and all(k["sp"]["name"] in B.META_SP for k in ks)
            and ks[0]["pt"] == ks[1]["pt"] and ks[0]["pt"] != "go_every")


MATCHERS = {"fuse_same_name_other_offset": _m_fuse_same_name_other_offset,
            "move_in_fused_loop": _m_move_in_fused_loop,
            "clb_fused_mixed_offsets": _m_clb_fused_mixed_offsets}


# ------------------------------------------------------------------ helpers
def _family(tier):
    cfg = "GOceanRegion_gen_quick.cfg" if tier == "quick" else "GOceanRegion_gen_thorough.cfg"
    res = core.run_tlc("GOceanRegion.tla", cfg, workers=min(4, core.NCPU), timeout=900)
    cases = res.printed("CASE")
    for c in cases:
        c["hists"] = sorted(c["hists"])
    cases.sort(key=lambda c: json.dumps(c, sort_keys=True))
    if len(cases) != res.distinct or not cases:
        raise core.MachineryError(f"C25 generator: {len(cases)} CASE lines for "
                                  f"{res.distinct} states")
    return cases, res


def _uses_members(case):
    return any(k["sp"]["name"] in B.META_SP and k["pt"] != "go_every"
               for k in case["kernels"])


def _expected_states(tcases, ngrids):
    total = 0
    for c in tcases:
        um = _uses_members(c)
        total += ngrids * (3 if um else 1) * (len(c["goffs"]) if um else 1) * \
            (len(c["progs"]) + 1)
    return total


def _corrupt(tcases, kind):
    '''Binding demonstration: flip one recorded field of one exported program.'''
    for c in tcases:
        for p in c["progs"]:
            loops = [s for s in p["body"] if s.get("k") == "loop"]
            if not loops:
                continue
            outer = loops[0]
            inner = [s for s in outer["body"] if s.get("k") == "loop"][0]
            if kind == "inner-lo":
                inner["lo"] = {"k": "bin", "op": "+", "l": inner["lo"],
                               "r": {"k": "lit", "t": "int", "v": 1}}
            elif kind == "outer-hi":
                outer["hi"] = {"k": "bin", "op": "+", "l": outer["hi"],
                               "r": {"k": "lit", "t": "int", "v": 1}}
            elif kind == "swap-axes":
                outer["lo"], inner["lo"] = inner["lo"], outer["lo"]
                outer["hi"], inner["hi"] = inner["hi"], outer["hi"]
            elif kind == "drop-call":
                inner["body"] = inner["body"][:-1]
            elif kind == "dup-call":
                inner["body"] = inner["body"] + inner["body"][-1:]
            else:
                raise core.MachineryError("unknown C25_CORRUPT kind " + kind)
            return c["id"], p["hist"]
    raise core.MachineryError("nothing to corrupt")


def _slim_case(rec, hist):
    desc = rec["desc"]
    return {"id": rec["id"], "family": desc["fam"],
            "kernels": [{"off": k["off"], "pt": k["pt"], "sp": k["sp"]}
                        for k in desc["kernels"]],
            "iteration_spaces": (rec["config_lines"][0] if len(rec["config_lines"]) == 1
                                 else rec["config_lines"]),
            "hist": hist}


def run(tier):
    global MAXN                                   # pylint: disable=global-statement
    MAXN = int(os.environ.get("C25_MAXN", MAXN_QUICK if tier == "quick" else MAXN_THOROUGH))
    core.setup_psyclone_env()
    out = core.Outcome("C25", tier, "model_checking", matchers=MATCHERS)
    cov = {"states": 0, "transitions": 0, "traces_validated_against_impl": 0,
           "samples": [], "exhaustive": True}

    # 1. design level
    res = core.run_tlc("GOceanRegion.tla", "GOceanRegion_design.cfg", check=False,
                       workers=min(4, core.NCPU))
    if res.invariant_violated or res.error or not res.distinct:
        raise core.MachineryError("GOceanRegion.tla does not satisfy its own invariants: "
                                  + str(res.invariant_violated or res.error))
    cov["model_states"] = res.distinct
    cov["states"] += res.distinct
    cov["transitions"] += res.generated
    # the process-wide table of configured bounds: last definition wins,
    # other (offset, point type, name) entries are untouched
    res = core.run_tlc("GOceanRegion.tla", "GOceanRegion_table.cfg", check=False,
                       workers=min(4, core.NCPU))
    if res.invariant_violated or res.error or not res.distinct:
        raise core.MachineryError("GOceanRegion.tla (AddBounds) does not satisfy its own "
                                  "invariants: " + str(res.invariant_violated or res.error))
    cov["model_states"] += res.distinct
    cov["states"] += res.distinct
    cov["transitions"] += res.generated

    # 2. the family, enumerated by TLC
    family, gres = _family(tier)
    if os.environ.get("C25_FAM"):             # development aids: part of the family
        family = [c for c in family if c["fam"] in os.environ["C25_FAM"].split(",")]
        cov["exhaustive"] = False
    if os.environ.get("C25_MATCH"):           # substring of the kernels' JSON
        family = [c for c in family
                  if os.environ["C25_MATCH"] in json.dumps(c["kernels"], sort_keys=True)]
        cov["exhaustive"] = False
    if os.environ.get("C25_STRIDE"):
        family = family[::int(os.environ["C25_STRIDE"])]
        cov["exhaustive"] = False
    cov["family_invokes"] = len(family)
    cov["states"] += gres.distinct
    cov["transitions"] += gres.generated

    # 3. real schedules, real transformations, generated code, export
    tmp = core.mktemp("pv-c25-")
    try:
        items = [(n, desc, os.path.join(tmp, f"w{n}"), n + core.seed())
                 for n, desc in enumerate(family)]
        recs = core.pool_map(B.build_case, items, chunksize=1)
    finally:
        shutil.rmtree(tmp, ignore_errors=True)
    stat = collections.Counter(s["st"] for r in recs for s in r["status"])
    nhist = sum(stat.values())
    why = collections.Counter((s["st"], "+".join(s["hist"]), s.get("why", "")[:160])
                              for r in recs for s in r["status"]
                              if s["st"] in ("unsupported", "crash", "input_refused"))
    unsupported = stat["unsupported"] + stat["crash"] + stat["input_refused"]
    cov["evaluations"] = nhist
    cov["status_counts"] = dict(stat)
    cov["unsupported"] = unsupported
    cov["unsupported_samples"] = [{"status": k[0], "hist": k[1], "why": k[2], "n": v}
                                  for k, v in why.most_common(6)]
    if unsupported > 0.2 * nhist:
        raise core.MachineryError(f"C25: too many unsupported cases: {dict(stat)} "
                                  f"{why.most_common(5)}")
    byid = {r["id"]: r for r in recs}
    tcases = [B.tlc_case(r) for r in recs if r["progs"]]
    corrupted = None
    if os.environ.get("C25_CORRUPT"):
        corrupted = _corrupt(tcases, os.environ["C25_CORRUPT"])
        print(f"[C25] corrupted exported program of case {corrupted[0]} "
              f"(history '{corrupted[1]}'): {os.environ['C25_CORRUPT']}")

    # 4. TLC executes every exported loop nest on every grid / environment
    tmp = core.mktemp("pv-c25-")
    try:
        path = os.path.join(tmp, "cases.json")
        with open(path, "w") as f:
            f.write(B.dumps({"maxn": MAXN, "cases": tcases}))
        res = core.run_tlc("Trace_GOceanRegion.tla", "Trace_GOceanRegion.cfg",
                           env={"PV_CASES": path}, timeout=3000)
    finally:
        shutil.rmtree(tmp, ignore_errors=True)
    expect = _expected_states(tcases, MAXN * MAXN)
    if res.distinct != expect:
        raise core.MachineryError(f"C25 trace validation did not consume every program: "
                                  f"{res.distinct} states, expected {expect}")
    cov["states"] += res.distinct
    cov["transitions"] += res.generated
    cov["trace_states"] = res.distinct
    nprogs = sum(len(r["progs"]) for r in recs)
    nuniq = sum(len(c["progs"]) for c in tcases)
    cov["traces_validated_against_impl"] = nprogs
    cov["distinct_programs_executed"] = nuniq
    cov["distinct_nontrivial"] = nuniq
    cov["grids"] = MAXN * MAXN
    cov["rule"] = ("one evaluation = one (invoke, transformation history) pushed through "
                   "the real PSyclone; accepted histories yield a generated loop nest; "
                   "loop nests with the same pv-ast are executed once per (grid, "
                   "environment, grid offset); every execution is one TLC state")

    # 5. verdicts
    verdicts = res.printed("VERDICT")
    groups = collections.OrderedDict()
    for v in sorted(verdicts, key=lambda v: (v["id"], v["w"]["prog"], v["v"], v["w"]["nx"],
                                             v["w"]["ny"], v["w"]["env"], v["w"]["go"])):
        groups.setdefault((v["id"], v["w"]["prog"], v["v"]), []).append(v["w"])
    tc_by_id = {c["id"]: c for c in tcases}
    for (cid, prog, clause), wits in groups.items():
        hists = tc_by_id[cid]["progs"][prog - 1]["hists"]
        for hist in hists:
            case = _slim_case(byid[cid], hist)
            detail = {"n_failing_states": len(wits), "witness": wits[0],
                      "generated": byid[cid]["texts"].get(hist or "baseline")}
            out.violation(case, clause, detail)
    div = {(d["id"], d["hist"]) for d in res.printed("DIVERGE")}
    cov["divergences"] = len(div)
    cov["divergence_note"] = (
        "constant loop bounds for a go_offset_any kernel with a built-in space take the "
        "fixed go_offset_any table row ({start}-1..{stop}); without constant bounds the "
        "region is the field's internal/whole member, which follows the grid's offset. "
        "go_offset_any is not described in the user guide and dl_esm_inf is not bundled: "
        "measured as different from the reference environment, not judged")
    cov["known_examples"] = out.known_examples
    # samples
    for r in recs:
        if r["progs"] and len(cov["samples"]) < 4 and r["id"] % 61 == 0:
            cov["samples"].append({"kernels": _slim_case(r, "")["kernels"],
                                   "configuration_files": r["config_lines"],
                                   "histories": len(r["status"]),
                                   "generated": r["texts"]})
    return out.finish(cov, assumptions=[
        "grid internal region = {2..xstop} x {2..ystop} ({start} = 2 as in the user guide), "
        "field data arrays cover exactly the depth-1 halo box (SIZE = stop + 1)",
        "fld%internal / fld%whole are run-time values of dl_esm_inf (not bundled): three "
        "environments - 'ref' (GOceanRegion!RefDelta, the model the constant-loop-bounds "
        "table is compared with) and two synthetic ones with distinct values per point type "
        "and member; constant-loop-bounds programs are executed in 'ref' only",
        "configuration histories (family F5): the bounds table GOLoop._bounds_lookup is "
        "emptied at the start of a history (as the repository's tests do) and kept while "
        "further configuration files are loaded in the same process; a built-in space name "
        "re-defined in a configuration file is judged in the constant-loop-bounds form only "
        "(default loops are documented to use the field's internal/whole members)",
        "all fields of an invoke live on one grid; a go_offset_any kernel runs on grids of "
        "both offsets",
        "directives are executed with serial semantics (C09 covers schedules); PSyData / "
        "OpenACC data set-up calls are skipped",
        "kernel bodies are the generated one-line kernels: after a "
        "GOMoveIterationBoundariesInsideKernelTrans the real IF(..)RETURN mask of the "
        "transformed kernel schedule is executed, the rest of the body is the logged call",
        "go_external_pts, go_every with user-defined spaces and OpenACC kernels regions "
        "(NotImplementedError for GOcean) are outside the family"])
