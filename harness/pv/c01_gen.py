'''C01 - the program family, as pv-ast (the shape spec/FortranSem.tla executes).

A program is written with a small constructor DSL whose expressions are
strings in Fortran syntax parsed *here* (Fortran operator precedence) into
pv-ast; nothing in this module touches PSyclone.  The same AST is (a) given
its meaning by FortranSem.tla and (b) rendered fully parenthesised by
c01_render for PSyclone to read.

Fixed frame (module c01mod, routine s):
  real a(2:7), b(6), e(6), c(0:3), d(3,2); integer ia(4); logical mk(6)
  module variables: real gv(4), integer gk
  integer n, m (in), k (out); real t, u; logical flag (in), lg (out)
  locals: integer i, j; real x; logical lx
'''
import itertools
import os
import random
import re
from fractions import Fraction

NONE = {"k": "none"}

INTRINSICS = {"abs", "sign", "max", "min", "mod", "modulo", "int", "real", "nint",
              "merge", "sum", "product", "maxval", "minval", "dot_product", "matmul",
              "size", "lbound", "ubound"}

# user functions of the module (lower-case keys of HELPERS that are functions)
FUNC_NAMES = {"scaleby", "twice", "plain", "addone", "lowf", "nextid", "ispos", "clamp"}

# ------------------------------------------------------------------- parser
_TOK = re.compile(r"\s*(?:(\d+\.\d*|\.\d+)|(\d+)|(\.[a-z]+\.)|([a-z_][a-z0-9_]*)|"
                  r"(\*\*|==|/=|<=|>=|[-+*/()<>,:=]))", re.I)


def _tokens(text):
    pos, out = 0, []
    text = text.rstrip()
    while pos < len(text):
        m = _TOK.match(text, pos)
        if not m:
            raise SyntaxError("bad token at %r" % text[pos:])
        pos = m.end()
        if m.group(1):
            out.append(("real", m.group(1)))
        elif m.group(2):
            out.append(("int", m.group(2)))
        elif m.group(3):
            out.append(("dot", m.group(3).lower()))
        elif m.group(4):
            out.append(("id", m.group(4).lower()))
        else:
            out.append(("op", m.group(5)))
    out.append(("end", ""))
    return out


class _P:
    def __init__(self, text):
        self.t = _tokens(text)
        self.i = 0

    def peek(self):
        return self.t[self.i]

    def take(self, kind=None, val=None):
        tk = self.t[self.i]
        if (kind and tk[0] != kind) or (val is not None and tk[1] != val):
            raise SyntaxError(f"expected {val or kind}, got {tk}")
        self.i += 1
        return tk

    def at(self, kind, val=None):
        tk = self.t[self.i]
        return tk[0] == kind and (val is None or tk[1] == val)

    # level 5: .eqv. .neqv. < .or. < .and. < .not.
    def expr(self):
        l = self.p_or()
        while self.at("dot", ".eqv.") or self.at("dot", ".neqv."):
            op = self.take()[1].strip(".")
            l = {"k": "bin", "op": op, "l": l, "r": self.p_or()}
        return l

    def p_or(self):
        l = self.p_and()
        while self.at("dot", ".or."):
            self.take()
            l = {"k": "bin", "op": "or", "l": l, "r": self.p_and()}
        return l

    def p_and(self):
        l = self.p_not()
        while self.at("dot", ".and."):
            self.take()
            l = {"k": "bin", "op": "and", "l": l, "r": self.p_not()}
        return l

    def p_not(self):
        if self.at("dot", ".not."):
            self.take()
            return {"k": "un", "op": "not", "e": self.p_not()}
        return self.p_rel()

    def p_rel(self):
        l = self.p_add()
        if self.peek()[0] == "op" and self.peek()[1] in ("==", "/=", "<", "<=", ">", ">="):
            op = self.take()[1]
            return {"k": "bin", "op": op, "l": l, "r": self.p_add()}
        return l

    def p_add(self):
        if self.at("op", "-") or self.at("op", "+"):
            op = self.take()[1]
            l = {"k": "un", "op": op, "e": self.p_mul()}
        else:
            l = self.p_mul()
        while self.at("op", "+") or self.at("op", "-"):
            op = self.take()[1]
            l = {"k": "bin", "op": op, "l": l, "r": self.p_mul()}
        return l

    def p_mul(self):
        l = self.p_pow()
        while self.at("op", "*") or self.at("op", "/"):
            op = self.take()[1]
            l = {"k": "bin", "op": op, "l": l, "r": self.p_pow()}
        return l

    def p_pow(self):
        l = self.p_prim()
        if self.at("op", "**"):
            self.take()
            return {"k": "bin", "op": "**", "l": l, "r": self.p_pow()}   # right assoc
        return l

    def p_prim(self):
        tk = self.peek()
        if tk[0] == "int":
            self.take()
            return {"k": "lit", "t": "int", "v": int(tk[1])}
        if tk[0] == "real":
            self.take()
            fr = Fraction(tk[1])
            return {"k": "lit", "t": "real", "n": fr.numerator, "d": fr.denominator}
        if tk[0] == "dot" and tk[1] in (".true.", ".false."):
            self.take()
            return {"k": "lit", "t": "log", "b": tk[1] == ".true."}
        if tk == ("op", "("):
            self.take()
            e = self.expr()
            self.take("op", ")")
            return e
        if tk[0] == "id":
            name = self.take()[1]
            if not self.at("op", "("):
                return {"k": "ref", "name": name}
            self.take()
            if name in FUNC_NAMES:
                args = []
                while not self.at("op", ")"):
                    args.append(self.expr())
                    if self.at("op", ","):
                        self.take()
                self.take("op", ")")
                return {"k": "fcall", "name": name, "args": args}
            if name in INTRINSICS:
                args, named, order = [], {}, []
                while True:
                    if self.peek()[0] == "id" and self.t[self.i + 1] == ("op", "="):
                        kw = self.take()[1]
                        self.take()
                        named[kw] = self.expr()
                        order.append(kw)
                    else:
                        args.append(self.expr())
                    if self.at("op", ","):
                        self.take()
                        continue
                    break
                self.take("op", ")")
                res = {"k": "icall", "name": name.upper(), "args": args}
                if named:
                    res["named"] = named
                    res["named_order"] = order
                if name in ("sum", "product", "maxval", "minval") and len(args) >= 2:
                    res["dimpos"] = True
                return res
            idx = []
            while True:
                idx.append(self.p_index())
                if self.at("op", ","):
                    self.take()
                    continue
                break
            self.take("op", ")")
            return {"k": "aref", "name": name, "idx": idx}
        raise SyntaxError(f"unexpected {tk}")

    def p_index(self):
        lo = hi = st = NONE
        if not self.at("op", ":"):
            lo = self.expr()
            if not self.at("op", ":"):
                return lo
        self.take("op", ":")
        if not (self.at("op", ":") or self.at("op", ",") or self.at("op", ")")):
            hi = self.expr()
        if self.at("op", ":"):
            self.take()
            st = self.expr()
        return {"k": "range", "lo": lo, "hi": hi, "st": st}


def E(text):
    if isinstance(text, dict):
        return text
    p = _P(text)
    e = p.expr()
    p.take("end")
    return e


def case_items(text):
    '''"1, 3:4, :0, 7:" -> items of one CASE'''
    p = _P(text)
    items = []
    while True:
        lo = hi = NONE
        if p.at("op", ":"):
            p.take()
            hi = p.expr()
            items.append({"lo": lo, "hi": hi})
        else:
            v = p.expr()
            if p.at("op", ":"):
                p.take()
                if not (p.at("op", ",") or p.at("end")):
                    hi = p.expr()
                items.append({"lo": v, "hi": hi})
            else:
                items.append({"v": v})
        if p.at("op", ","):
            p.take()
            continue
        break
    p.take("end")
    return items


# ------------------------------------------------------- statement builders
def asg(lhs, rhs):
    return {"k": "assign", "lhs": E(lhs), "rhs": E(rhs)}


def _split_assign(text):
    depth = 0
    for i, ch in enumerate(text):
        if ch == "(":
            depth += 1
        elif ch == ")":
            depth -= 1
        elif ch == "=" and depth == 0 and text[i + 1] != "=" and text[i - 1] not in "=/<>":
            return text[:i], text[i + 1:]
    raise SyntaxError(text)


def S(x):
    '''statement from a string "lhs = rhs" | "exit" | "cycle" | "return" or a dict'''
    if isinstance(x, dict):
        return x
    t = x.strip()
    if t in ("exit", "cycle", "return"):
        return {"k": t}
    lhs, rhs = _split_assign(t)
    return asg(lhs, rhs)


def B(body):
    return [S(x) for x in body]


def do(var, lo, hi, st, body):
    return {"k": "loop", "var": var, "lo": E(lo), "hi": E(hi),
            "st": NONE if st is None else E(st), "body": B(body)}


def doconc(var, lo, hi, mask, body):
    '''DO CONCURRENT (var = lo:hi, mask): the iterations are independent, so
    its meaning is the loop over the active iterations'''
    return {"k": "loop", "var": var, "lo": E(lo), "hi": E(hi), "st": NONE,
            "body": [{"k": "if", "cond": E(mask), "then": B(body), "else": []}],
            "concurrent": True}


def named(label, loop):
    '''give a DO / DO WHILE construct a name'''
    return dict(loop, label=label)


def xit(kind, label):
    '''EXIT / CYCLE naming the innermost enclosing loop (spelled as given)'''
    return {"k": kind, "label": label}


def if_(cond, then, els=(), elif_=False, emptyelse=False):
    r = {"k": "if", "cond": E(cond), "then": B(then), "else": B(els)}
    if elif_:
        r["elif"] = True
    if emptyelse:
        r["emptyelse"] = True
    return r


def if1(cond, st):
    return {"k": "if", "cond": E(cond), "then": [S(st)], "else": [], "single": True}


def ifchain(*arms):
    '''ifchain((c1, body1), (c2, body2), ..., (None, elsebody)) -> IF / ELSE IF / ELSE'''
    arms = list(arms)
    tail = []
    if arms and arms[-1][0] is None:
        tail = B(arms.pop()[1])
    node = None
    for cond, body in reversed(arms):
        node = {"k": "if", "cond": E(cond), "then": B(body),
                "else": tail if node is None else [node], "elif": node is not None}
        if node["elif"] is False:
            del node["elif"]
    return node


def while_(cond, body):
    return {"k": "while", "cond": E(cond), "body": B(body)}


def where(mask, body, *elsewhere):
    return {"k": "where", "mask": E(mask), "body": B(body),
            "elsewhere": [{"mask": NONE if m is None else E(m), "body": B(b)}
                          for m, b in elsewhere]}


def where1(mask, st):
    return {"k": "where", "mask": E(mask), "body": [S(st)], "elsewhere": [], "single": True}


def select(sel, *cases):
    '''cases: (items text | "default", body)'''
    cs = []
    for items, body in cases:
        if items == "default":
            cs.append({"dflt": True, "items": [], "body": B(body)})
        else:
            cs.append({"dflt": False, "items": case_items(items), "body": B(body)})
    return {"k": "select", "sel": E(sel), "cases": cs}


def call(name, *args):
    return {"k": "call", "name": name, "args": [E(a) for a in args]}


# ------------------------------------------------------------------- frame
def D(name, ty, *dims):
    return {"name": name, "ty": ty, "dims": [list(d) for d in dims]}


# order = position used by FortranSem!FillVal (arrays first: small values)
ARGS = [D("a", "r", (2, 7)), D("b", "r", (1, 6)), D("e", "r", (1, 6)), D("c", "r", (0, 3)),
        D("d", "r", (1, 3), (1, 2)), D("ia", "i", (1, 4)), D("mk", "l", (1, 6)),
        D("n", "i"), D("m", "i"), D("k", "i"), D("t", "r"), D("u", "r"),
        D("flag", "l"), D("lg", "l")]
INTENT = {"n": "in", "m": "in", "flag": "in"}
MODVARS = [D("gv", "r", (1, 4)), D("gk", "i")]
LOCALS = [D("i", "i"), D("j", "i"), D("x", "r"), D("lx", "l")]
LIVE = [d["name"] for d in ARGS + MODVARS]
MODULE = "c01mod"

# default (singleton) input values of the scalars; programs override
DEFAULT_DOM = {"n": [2], "m": [1], "k": [5], "t": [[3, 2]], "u": [[-2, 1]],
               "flag": [True], "lg": [False], "gk": [3]}


def case_decls():
    out = []
    for d in ARGS:
        out.append({"name": d["name"], "ty": d["ty"], "dims": d["dims"], "init": "in", "arg": True})
    for d in MODVARS:
        out.append({"name": d["name"], "ty": d["ty"], "dims": d["dims"], "init": "in", "arg": False})
    for d in LOCALS:
        out.append({"name": d["name"], "ty": d["ty"], "dims": d["dims"], "init": "poison",
                    "arg": False})
    return out


# ---------------------------------------------------------------- helpers
def _sub(name, args, locals_, body, disp=None, prefix=(), use=None, spec=()):
    '''args: [(decl, intent)]; disp: spelling of the name in the definition,
    use: spelling at the references'''
    return {"name": name, "args": args, "locals": locals_, "body": B(body),
            "disp": disp or name, "prefix": list(prefix), "use": use or disp or name,
            "result": None, "spec": list(spec)}


def _fun(name, args, result, locals_, body, disp=None, prefix=(), use=None, clause=None,
         typeprefix=False):
    '''function: result = decl of the result variable (its name is the
    function's unless clause gives the spelling of a RESULT clause)'''
    h = _sub(name, args, locals_, body, disp, prefix, use)
    h.update(result=result, clause=clause, typeprefix=typeprefix)
    return h


HELPERS = {h["name"]: h for h in [
    _sub("h_add", [(D("p", "r"), "inout"), (D("q", "r"), "in")], [], ["p = p + q"]),
    _sub("h_vec", [(D("v", "r", (1, 3)), "inout"), (D("p", "r"), "inout")], [D("jj", "i")],
         [do("jj", "3", "1", "-1", ["v(jj) = v(jj) + p", "p = p + 1.0"])]),
    _sub("h_vec0", [(D("v", "r", (0, 2)), "inout"), (D("q", "i"), "in")], [D("jj", "i")],
         [do("jj", "0", "q", None, ["v(jj) = v(jj) * 2.0"]), "v(2) = v(0) + v(2)"]),
    _sub("h_swap", [(D("p", "r"), "inout"), (D("q", "r"), "inout")], [D("tmp", "r")],
         ["tmp = p", "p = q", "q = tmp"]),
    _sub("h_cnt", [(D("q", "i"), "inout")], [], ["q = q + 1", "gk = gk + q"]),
    _sub("h_nest", [(D("v", "r", (1, 3)), "inout"), (D("q", "i"), "inout")], [],
         [call("h_cnt", "q"), call("h_add", "v(2)", "1.5"), if1("q > 4", "return"),
          call("h_cnt", "q")]),
    _sub("h_ret", [(D("p", "r"), "inout"), (D("q", "i"), "in")], [],
         [if_("q > 2", ["p = p + 1.0", "return"]), "p = -p"]),
    _sub("h_mat", [(D("w", "r", (1, 3), (1, 2)), "inout"), (D("q", "i"), "in")],
         [D("ii", "i"), D("jj", "i")],
         [do("jj", "1", "2", None, [do("ii", "1", "q", None, ["w(ii, jj) = w(ii, jj) + gv(jj)"])])]),
    # locals that are static: SAVE attribute, initial value, SAVE statement (same
    # spelling / different case / several names), bare SAVE.  FortranSem has no
    # static storage: every helper is called once and defines the variable before
    # reading it (or reads its initial value), so the value does not depend on it;
    # that the variable *stays* static is decided by the clause WriterKeepsStatic
    _sub("h_sattr", [(D("q", "i"), "inout")], [dict(D("cnt", "i"), save="attr")],
         ["cnt = q", "cnt = cnt + 1", "q = cnt"]),
    _sub("h_sinit", [(D("q", "i"), "inout")], [dict(D("cnt", "i"), initval="0", save="init")],
         ["cnt = cnt + q", "q = cnt * 2"]),
    _sub("h_sstmt", [(D("q", "i"), "inout")], [dict(D("cnt", "i"), save="stmt")],
         ["cnt = q", "cnt = cnt + 2", "q = cnt"], spec=["save cnt"]),
    _sub("h_scase", [(D("q", "i"), "inout")], [dict(D("calls", "i"), save="stmt", disp="Calls")],
         ["calls = q", "calls = calls + 3", "q = calls"], spec=["save calls"]),
    _sub("h_smulti", [(D("q", "i"), "inout")],
         [dict(D("calls", "i"), save="stmt", disp="Calls"), dict(D("last", "i"), save="stmt"),
          D("acc", "i")],
         ["calls = q", "last = calls + 1", "acc = last * 2", "q = acc + calls"], spec=["save calls, LAST"]),
    _sub("h_sbare", [(D("q", "i"), "inout")], [dict(D("cnt", "i"), save="stmt"), dict(D("oth", "i"), save="stmt")],
         ["cnt = q", "oth = cnt + 4", "q = oth"], spec=["save"]),
    # mixed-case names and prefixes
    _sub("mixedsub", [(D("p", "r"), "inout")], [], ["p = p + 1.0"], disp="MixedSub", prefix=["pure"],
         use="mixedsub"),
    _sub("lowsub", [(D("p", "r"), "inout")], [], ["p = p * 2.0"], prefix=["pure"]),
    # functions: with / without RESULT clause, type in the prefix, pure / elemental
    _fun("scaleby", [(D("x", "r"), "in")], D("scaleby", "r"), [], ["scaleby = 2.0 * x + gv(1)"],
         disp="ScaleBy", prefix=["pure"], use="scaleby"),
    _fun("twice", [(D("q", "i"), "in")], D("twice", "i"), [], ["twice = 2 * q"], disp="Twice",
         prefix=["elemental"], typeprefix=True),
    _fun("plain", [(D("x", "r"), "in")], D("res", "r"), [], ["res = scaleby(x) + 1.0"], clause="res"),
    _fun("addone", [(D("q", "i"), "in")], D("res", "i"), [], ["res = q + 1"], disp="AddOne",
         clause="Res", use="ADDONE"),
    _fun("lowf", [(D("x", "r"), "in")], D("lowf", "r"), [D("y", "r")], ["y = x * x", "lowf = y - x"],
         prefix=["pure"]),
    _fun("nextid", [], D("nextid", "i"), [], ["gk = gk + 1", "nextid = gk"], disp="NextId"),
    _fun("ispos", [(D("x", "r"), "in")], D("ispos", "l"), [], ["ispos = x > 0.0"], disp="isPos",
         typeprefix=True),
    _fun("clamp", [(D("x", "r"), "in")], D("y", "r"), [],
         ["y = x", if_("y > 2.0", ["y = 2.0", "return"]), "y = y + 0.5"], disp="Clamp", clause="y",
         prefix=["pure"]),
]}
assert FUNC_NAMES == {h["name"] for h in HELPERS.values() if h["result"]}


# ------------------------------------------ function references -> hoisted calls
def _lower_expr(e, pre, temps):
    '''copy of expression e in which every reference to a user function is
    replaced by a temporary assigned by a call hoisted (innermost first) into pre'''
    if isinstance(e, list):
        return [_lower_expr(x, pre, temps) for x in e]
    if not isinstance(e, dict):
        return e
    if e.get("k") == "fcall":
        args = [_lower_expr(a, pre, temps) for a in e["args"]]
        tmp = f"{e['name']}#g{len(temps) + 1}"
        temps.append({"name": tmp, "ty": HELPERS[e["name"]]["result"]["ty"], "dims": []})
        pre.append({"k": "call", "name": e["name"], "args": args + [{"k": "ref", "name": tmp}]})
        return {"k": "ref", "name": tmp}
    return {k: _lower_expr(v, pre, temps) for k, v in e.items()}


def lower(body, temps):
    '''the statements with function references (assignments, IF conditions)
    turned into calls with a result argument; temps collects the temporaries'''
    out = []
    for s in body:
        k = s["k"]
        pre = []
        if k == "assign":
            s = {"k": "assign", "lhs": _lower_expr(s["lhs"], pre, temps),
                 "rhs": _lower_expr(s["rhs"], pre, temps)}
        elif k == "if":
            s = dict(s, cond=_lower_expr(s["cond"], pre, temps), then=lower(s["then"], temps))
            s["else"] = lower(s["else"], temps)
        elif k in ("loop", "while"):
            s = dict(s, body=lower(s["body"], temps))
        elif k == "select":
            s = dict(s, cases=[dict(c, body=lower(c["body"], temps)) for c in s["cases"]])
        if any(nd.get("k") == "fcall" for nd in walk(s) if k not in ("if", "loop", "while", "select")) \
                or any(nd.get("k") == "fcall" for nd in walk([s.get("cond", {}), s.get("lo", {}),
                                                              s.get("hi", {}), s.get("sel", {})])):
            raise ValueError("function reference in a position the family does not lower")
        out += pre + [s]
    return out


def sub_record(h):
    '''the callee record FortranSem!ExecCall uses (a function is a subroutine
    whose last dummy is its result variable)'''
    temps = []
    body = lower(h["body"], temps)
    formals = [d for d, _ in h["args"]] + ([h["result"]] if h["result"] else [])
    return {"formals": [{"name": d["name"], "ty": d["ty"], "lo": [lo for lo, _ in d["dims"]],
                         "rank": len(d["dims"])} for d in formals],
            "locals": [dict({"name": d["name"], "ty": d["ty"],
                             "dims": [[{"k": "lit", "t": "int", "v": lo}, {"k": "lit", "t": "int", "v": hi}]
                                      for lo, hi in d["dims"]]},
                            **({"init": E(d["initval"])} if d.get("initval") else {}))
                       for d in h["locals"] + temps],
            "body": body}


def walk(x):
    if isinstance(x, dict):
        yield x
        for v in x.values():
            yield from walk(v)
    elif isinstance(x, list):
        for v in x:
            yield from walk(v)


def called(body, acc=None):
    '''names of the helpers reachable from body, in first-call order'''
    acc = [] if acc is None else acc
    for nd in walk(body):
        if nd.get("k") in ("call", "fcall") and nd["name"] not in acc:
            acc.append(nd["name"])
            called(HELPERS[nd["name"]]["body"], acc)
    return acc


def strip(x):
    '''the AST without renderer-only annotations (what TLC executes)'''
    if isinstance(x, dict):
        return {k: strip(v) for k, v in x.items()
                if k not in ("single", "elif", "emptyelse", "named_order", "concurrent", "label")}
    if isinstance(x, list):
        return [strip(v) for v in x]
    return x


def source(body):
    from pv import c01_render as R
    hs = called(body)
    rts = [R.routine("s", [d["name"] for d in ARGS],
                     [(d, INTENT.get(d["name"], "inout")) for d in ARGS] +
                     [(d, None) for d in LOCALS], body)]
    for nm in hs:
        h = HELPERS[nm]
        decls = [(dict(d, explicit_lo=False), it) for d, it in h["args"]]
        kind, head, suffix = "subroutine", " ".join(h["prefix"]), ""
        if h["result"]:
            kind = "function"
            res = h["result"]
            if h["clause"]:
                suffix = f" result({h['clause']})"
            if h["typeprefix"]:
                head = (head + " " + R._TY[res["ty"]]).strip()
            else:
                decls.append((dict(res, name=h["clause"] or h["disp"]), None))
        rts.append(R.routine(h["disp"], [d["name"] for d, _ in h["args"]],
                             decls + [(d, None) for d in h["locals"]], h["body"],
                             kind=kind, prefix=head, suffix=suffix, spec=h["spec"]))
    return R.module(MODULE, MODVARS, rts)


def statics(body):
    '''"routine:variable" (lower case) of every routine-local variable the program
    text makes static (SAVE attribute, initial value, SAVE statement)'''
    return sorted(f"{nm}:{d['name']}" for nm in called(body) for d in HELPERS[nm]["locals"]
                  if d.get("save"))


def interface(body):
    '''what the program text declares: one record per routine (names lower-cased)'''
    out = [{"name": "s", "kind": "subroutine", "elemental": False, "pure": False,
            "nargs": len(ARGS), "elemuse": False}]
    elemuse = {nd["name"] for nd in walk(body) if nd.get("k") == "fcall" and
               any(x.get("k") == "range" or (x.get("k") == "ref" and any(
                   d["name"] == x["name"] and d["dims"] for d in ARGS + MODVARS))
                   for x in walk(nd["args"]))}
    for nm in called(body):
        h = HELPERS[nm]
        out.append({"name": nm, "kind": "function" if h["result"] else "subroutine",
                    "elemental": "elemental" in h["prefix"], "pure": "pure" in h["prefix"],
                    "nargs": len(h["args"]), "elemuse": nm in elemuse})
    return out


class Prog:
    def __init__(self, pid, body, dom=None, fills=(1, 3), tags=()):
        self.pid = pid
        self.body = B(body)
        self.dom = dict(DEFAULT_DOM)
        self.dom.update(dom or {})
        # an input the program never mentions cannot matter: keep one value
        used = {nd["name"] for nd in walk(self.body) if nd.get("k") in ("ref", "aref")}
        used |= {nd["var"] for nd in walk(self.body) if nd.get("k") == "loop"}
        if called(self.body):
            used |= {"gk", "gv"}
        for nm in self.dom:
            if nm not in used:
                self.dom[nm] = self.dom[nm][:1]
        self.fills = list(fills)
        self.tags = set(tags)

    def ref(self):
        '''{"decls","body","subs"} in the exporter's shape'''
        temps = []
        body = lower(self.body, temps)
        return {"decls": case_decls() + [dict(t, init="poison", arg=False) for t in temps],
                "body": strip(body),
                "subs": {nm: strip(sub_record(HELPERS[nm])) for nm in called(self.body)}}

    def domlist(self):
        return [[nm, list(vs)] for nm, vs in self.dom.items()]


# ---------------------------------------------------------------- families
NVALS = [-1, 0, 1, 2, 3, 4, 5, 7, 8]
_REALS = [[3, 2], [-2, 1]]


def fam_select():
    '''SELECT CASE: value lists, ranges, open ranges, default anywhere, empty
    cases, nested, logical selectors'''
    out = []
    dom = {"n": NVALS, "m": [1, 2]}
    templates = {
        "vals": [("1", ["k = 10"]), ("2, 3", ["k = 20"]), ("default", ["k = 30"])],
        "open": [(":0", ["k = 10"]), ("1:3", ["k = 20"]), ("5:", ["k = 30"])],
        "mixed": [("2:4, 7", ["k = 10"]), ("-1, 0", ["k = 20", "t = t + 1.0"]),
                  ("default", ["k = 30"])],
        "dfirst": [("default", ["k = 30"]), ("1:2", ["k = 10"]), ("4", ["k = 20"])],
        "dmid": [(":1", ["k = 10"]), ("default", ["k = 30"]), ("3:5", ["k = 20"]), ("8", ["k = 40"])],
        "empty": [("1", []), ("2:3", ["k = 20"]), ("default", [])],
        "emptyrange": [("4:2", ["k = 10"]), ("3", ["k = 20"]), ("default", ["k = 30"])],
        "onlydefault": [("default", ["k = 30"])],
        "nodefault": [("0", ["k = 10"]), ("3", ["k = 20"])],
        "negrange": [("-1:1", ["k = 10"]), ("2:", ["k = 20"])],
        "lists": [("-1, 1, 3, 5", ["k = 10"]), ("0, 2, 4", ["k = 20"]), ("7:8", ["k = 30"])],
        "single_range_hi": [(":3", ["k = 10"]), ("default", ["k = 20"])],
        "single_range_lo": [("3:", ["k = 10"]), ("default", ["k = 20"])],
        "expr_values": [("1 + 1", ["k = 10"]), ("2 * 2:3 + 2", ["k = 20"]), ("default", ["k = 30"])],
    }
    selectors = ["n", "n + m", "mod(n, 3)", "ia(2) - 18 + n", "n * m - 1"]
    for (tn, cs), sel in itertools.product(templates.items(), selectors):
        out.append(Prog(f"select|{tn}|{sel}", ["k = 0", select(sel, *cs), "k = k + 1"],
                        dom=dom, fills=[1], tags={"select"}))
    # selector changed inside the selected block; select nested in select / loop
    out.append(Prog("select|selmod", ["k = n", select("k", ("1:3", ["k = k + 5"]), ("6:", ["k = 0"]),
                                                       ("default", ["k = -k"]))], dom=dom, fills=[1]))
    for inner in ["m", "n - m", "k"]:
        out.append(Prog(f"select|nested|{inner}",
                        ["k = 2", select("n", ("1:4", [select(inner, ("1", ["k = 11"]), ("2:", ["k = 12"]),
                                                              ("default", ["k = 13"])), "k = k + 100"]),
                                         (":0", ["k = 20"]), ("default", [select("m", ("2", ["k = 31"]))]))],
                        dom=dom, fills=[1], tags={"select"}))
    out.append(Prog("select|inloop",
                    ["k = 0", do("i", "-1", "n", None,
                                 [select("i", ("1, 3", ["k = k + 1"]), ("4:", ["k = k + 10"]),
                                         (":0", ["k = k + 100"]))])], dom=dom, fills=[1]))
    out.append(Prog("select|exitinside",
                    ["k = 0", do("i", "1", "6", None,
                                 [select("i", ("3", ["exit"]), ("2, 4", ["cycle"]), ("default", ["k = k + i"])),
                                  "k = k + 100"])], dom=dom, fills=[1]))
    # logical selectors
    ldom = {"n": [0, 2, 3], "flag": [True, False]}
    lt = {
        "tf": [(".true.", ["k = 10"]), (".false.", ["k = 20"])],
        "ft": [(".false.", ["k = 20"]), (".true.", ["k = 10"])],
        "t": [(".true.", ["k = 10"])],
        "f": [(".false.", ["k = 20"])],
        "td": [(".true.", ["k = 10"]), ("default", ["k = 30"])],
        "fd": [(".false.", ["k = 20"]), ("default", ["k = 30"])],
        "df": [("default", ["k = 30"]), (".false.", ["k = 20"])],
        "tfd": [(".true., .false.", ["k = 10"]), ("default", ["k = 30"])],
    }
    for (tn, cs), sel in itertools.product(lt.items(), ["flag", "n > 2", "mk(2)", "flag .and. n > 1",
                                                        ".not. flag"]):
        out.append(Prog(f"selectl|{tn}|{sel}", ["k = 0", select(sel, *cs), "lg = k > 15"],
                        dom=ldom, fills=[1, 2], tags={"select"}))
    return out


def fam_where():
    '''WHERE / ELSEWHERE(mask) / ELSEWHERE over unit- and non-unit-lower-bound
    arrays, sections, strides, masks modified in the block, reductions'''
    out = []
    fills = [2, 3]
    masks1 = ["b(:) > 0.0", "mk(:)", ".not. mk(:)", "b(:) > e(:)", "b(:) > 0.0 .and. e(:) < 3.0",
              "b(:) * e(:) >= t", "abs(b(:)) > 2.0"]
    stm1 = ["b(:) = 0.0", "b(:) = -b(:)", "e(:) = b(:) + 1.0", "b(:) = b(:) * t + e(:)",
            "b(:) = e(:) / 2.0", "b(:) = real(n)", "b(:) = max(b(:), e(:))"]
    for mk_, st in itertools.product(masks1, stm1):
        out.append(Prog(f"where1|{mk_}|{st}", [where1(mk_, st)], fills=fills, tags={"where"}))
    for mk_ in masks1:
        out.append(Prog(f"wherec|{mk_}", [where(mk_, ["b(:) = b(:) + 1.0", "e(:) = b(:) * 2.0"])],
                        fills=fills, tags={"where"}))
        out.append(Prog(f"wheree|{mk_}", [where(mk_, ["b(:) = 1.0"], (None, ["b(:) = -1.0", "e(:) = 0.0"]))],
                        fills=fills, tags={"where"}))
        out.append(Prog(f"whereem|{mk_}",
                        [where(mk_, ["b(:) = 1.0"], ("e(:) > 0.0", ["b(:) = 2.0"]), (None, ["b(:) = 3.0"]))],
                        fills=fills, tags={"where"}))
        out.append(Prog(f"whereemm|{mk_}",
                        [where(mk_, ["e(:) = 1.0"], ("e(:) > 0.0", ["e(:) = 2.0"]),
                               ("b(:) < 0.0", ["e(:) = 3.0"]))], fills=fills, tags={"where"}))
    # mask arrays modified inside the block
    out += [
        Prog("wheremod|mk", [where("mk(:)", ["mk(:) = .false.", "b(:) = 1.0"], (None, ["mk(:) = .true.", "b(:) = 2.0"]))],
             fills=fills),
        Prog("wheremod|b", [where("b(:) > 0.0", ["b(:) = -1.0", "e(:) = b(:)"], ("b(:) < 0.0", ["e(:) = 5.0"]),
                                  (None, ["e(:) = 7.0"]))], fills=fills),
        Prog("wheremod|b2", [where("b(:) > 0.0", ["b(:) = -b(:)", "b(:) = b(:) * 2.0"])], fills=fills),
        Prog("wheremod|ew", [where("b(:) > 0.0", ["e(:) = -1.0"], ("e(:) > 0.0", ["b(:) = 9.0"]))], fills=fills),
        Prog("wheremod|ew2", [where("b(:) > 0.0", ["e(:) = 1.0"], ("e(:) > 0.0", ["e(:) = -1.0"]),
                                    ("e(:) < 0.0", ["e(:) = 8.0"]))], fills=fills),
    ]
    # right-hand sides / masks that are not element-wise in the assigned array
    for st in ["b(:) = b(:) / sum(b(:))", "b(:) = sum(e(:))", "b(:) = maxval(e(:)) - b(:)",
               "b(:) = b(:) + b(1)", "b(:) = b(6)", "b(:) = b(:) + b(6)", "e(:) = b(6:1:-1)",
               "b(:) = b(6:1:-1)", "b(:) = e(1) + t", "b(:) = sum(e(:)) * b(:)",
               "b(:) = real(size(b(:)))", "b(:) = real(size(b))", "b(:) = sum(e)",
               "b(:) = b(:) - minval(b)", "b(:) = b(:) / sum(b)"]:
        out.append(Prog(f"wherered|{st}", [where1("b(:) > 0.0", st)], fills=fills, tags={"where"}))
        out.append(Prog(f"whereredc|{st}", [where("e(:) > 0.0", [st], (None, ["b(:) = 0.0"]))],
                        fills=fills, tags={"where"}))
    for mk_ in ["b(:) > sum(b(:)) / 6.0", "b(:) >= maxval(b(:))", "b(:) > b(1)", "b(6:1:-1) > 0.0",
                "b(:) > sum(b) / 6.0", "e(:) == minval(e)"]:
        out.append(Prog(f"wheremask|{mk_}", [where(mk_, ["b(:) = 0.0"], (None, ["b(:) = 1.0"]))],
                        fills=fills, tags={"where"}))
    # non-unit lower bounds, sections, strides
    for mk_, st in [("a(:) > 0.0", "a(:) = 0.0"), ("a(:) > 0.0", "a(:) = -a(:)"),
                    ("c(:) > 0.0", "c(:) = 1.0"), ("c(:) /= 0.0", "c(:) = 1.0 / c(:)"),
                    ("a(2:7) > 0.0", "b(:) = a(2:7)"), ("a(:) > 0.0", "b(:) = a(:)"),
                    ("b(:) > 0.0", "a(:) = b(:)"), ("b(1:4) > 0.0", "c(:) = b(1:4)"),
                    ("b(2:5) > 0.0", "c(:) = b(2:5)"), ("a(3:6) > 0.0", "c(:) = a(3:6) + b(1:4)"),
                    ("b(1:6:2) > 0.0", "ia(1:3) = 0"), ("b(1:5:2) > 0.0", "gv(1:3) = b(1:5:2)"),
                    ("gv(:) > 26.0", "gv(:) = c(:)"), ("c(:) > 0.0", "gv(:) = c(:) + gv(:)"),
                    ("ia(:) > 20", "ia(:) = ia(:) - 20"), ("ia(:) > n", "ia(:) = mod(ia(:), 3)"),
                    ("b(3:6) > 0.0", "gv(:) = b(6:3:-1)"), ("gv(:) > 0.0", "gv(:) = b(2:5)"),
                    ("b(1:6:2) > 0.0", "d(:, 1) = b(2:6:2)"), ("d(:, 1) > 17.0", "d(:, 2) = d(:, 1)"),
                    ("d(:, :) > 18.0", "d(:, :) = 0.0"), ("d(:, :) > 18.0", "d(:, :) = d(:, :) - 18.0"),
                    ("d(2, :) > 19.0", "d(3, :) = d(1, :)"), ("b(1:3) > 0.0", "d(:, 2) = b(4:6)"),
                    ("a(3:7:2) > 0.0", "d(:, 1) = a(3:7:2)"), ("mk(1:4)", "gv(:) = 0.0"),
                    ("mk(3:6)", "c(:) = gv(:)"), ("c(0:3) > 0.0", "gv(:) = 1.0"),
                    ("e(n:n + 3) > 0.0", "gv(:) = e(n:n + 3)")]:
        out.append(Prog(f"wheresec|{mk_}|{st}", [where1(mk_, st)], fills=[1, 3], tags={"where"},
                        dom={"n": [1, 2, 3]} if "n" in mk_ or "n" in st else None))
        out.append(Prog(f"wheresecc|{mk_}|{st}", [where(mk_, [st], (None, [st.split("=")[0] + "= " +
                                                                          ("9" if st.startswith("ia") else "9.0")]))],
                        fills=[1, 3], tags={"where"},
                        dom={"n": [1, 2, 3]} if "n" in mk_ or "n" in st else None))
    # WHERE nested in WHERE
    out += [
        Prog("wherenest|1", [where("b(:) > 0.0", [where("e(:) > 2.0", ["e(:) = 3.0"])])], fills=fills),
        Prog("wherenest|2", [where("b(:) > 0.0", ["b(:) = 1.0", where("e(:) > 0.0", ["e(:) = b(:)"], (None, ["e(:) = -1.0"]))],
                                   (None, ["e(:) = 7.0"]))], fills=fills),
        Prog("wherenest|3", [where("mk(:)", [where1("b(:) > 0.0", "b(:) = 0.0")])], fills=fills),
        Prog("wherenest|4", [where("mk(:)", ["b(:) = 1.0"], (None, [where("e(:) > 0.0", ["e(:) = 0.0"], ("b(:) > 0.0", ["e(:) = 5.0"]))]))],
             fills=fills),
        Prog("wherenest|5", [where("b(:) > 0.0", [where("e(:) > 0.0", ["b(:) = e(:)"], (None, ["b(:) = -e(:)"])), "e(:) = 0.0"])], fills=fills),
    ]
    # whole-array names (no array notation), WHERE inside other constructs
    out += [
        Prog("wherewhole|1", [where1("b > 0.0", "b = 0.0")], fills=fills),
        Prog("wherewhole|2", [where("b > e", ["b = e"], (None, ["e = b"]))], fills=fills),
        Prog("wherewhole|3", [where("mk", ["b = b + 1.0"])], fills=fills),
        Prog("wherewhole|4", [where1("b(:) > 0.0", "e = b")], fills=fills),
        Prog("wherewhole|5", [where1("b > 0.0", "b(:) = e(:)")], fills=fills),
        Prog("whereloop", [do("i", "1", "n", None, [where1("b(:) > real(i)", "b(:) = b(:) - 1.0")])],
             dom={"n": [0, 2, 3]}, fills=fills),
        Prog("whereif", [if_("flag", [where("b(:) > 0.0", ["b(:) = 0.0"])], [where1("b(:) < 0.0", "b(:) = 0.0")])],
             dom={"flag": [True, False]}, fills=fills),
        Prog("whereselect", [select("n", ("1", [where1("mk(:)", "e(:) = 1.0")]),
                                    ("default", [where("mk(:)", ["e(:) = 2.0"], (None, ["e(:) = 3.0"]))]))],
             dom={"n": [1, 2]}, fills=fills),
        Prog("wheretwice", [where1("b(:) > 0.0", "b(:) = -b(:)"), where1("b(:) > 0.0", "e(:) = 1.0")], fills=fills),
    ]
    return out


def fam_array():
    '''array sections and whole-array assignments (kept as array notation)'''
    out = []
    sts = ["b(:) = e(:) + 1.0", "b = e", "b = e + b", "b(2:4) = e(1:3)", "a(3:7:2) = c(1:3)",
           "b(1:5) = b(2:6)", "b(2:6) = b(1:5)", "d(:, 1) = d(:, 2)", "c = 0.0", "gv = b(1:4)",
           "b(6:1:-1) = e(:)", "b(n:n + 2) = e(1:3)", "b(n:2) = 0.0", "a(:) = b(:)", "a = b",
           "c(:) = a(3:6)", "c(0:2) = d(:, 1)", "d(2, :) = c(1:2)", "d = d * 2.0", "ia = ia + n",
           "ia(1:3) = ia(2:4)", "mk = .not. mk", "mk(:) = b(:) > 0.0", "mk(1:3) = mk(4:6) .and. flag",
           "a(2:) = b(:)", "a(:4) = b(:3)", "b(::2) = e(2::2)", "b(:n) = 0.0", "b(n:) = 1.0",
           "c(1:) = c(:2)", "gv(:) = gv(4:1:-1)", "a(7:2:-2) = c(1:3)", "d(:, :) = d(:, :) + gv(1)",
           "b(1:6:m) = 0.0", "d(1:3:2, 2) = d(2:3, 1)", "a(lbound(a, 1):ubound(a, 1)) = 1.0",
           "c(lbound(c, 1) + 1:) = 2.0", "b(:) = e(:) * e(6:1:-1)", "gv = real(ia)", "ia = int(gv) / 2"]
    for st in sts:
        out.append(Prog(f"array|{st}", [st], dom={"n": [1, 2, 3, 4], "m": [1, 2, 3], "flag": [True, False]},
                        fills=[1, 3], tags={"array"}))
    return out


def fam_intrinsic():
    out = []
    sts = ["t = sum(b)", "t = sum(b(:))", "t = sum(b(2:5))", "c(1:2) = sum(d, dim=1)", "c(1:3) = sum(d, dim=2)",
           "c(1:2) = sum(d, 1)", "t = sum(d)", "t = maxval(b, mask=b > 8.0)", "t = maxval(b, mask=mk)",
           "t = sum(b, mask=mk)", "t = sum(b, mask=b > e)", "c(1:3) = sum(d, dim=2, mask=d > 18.0)",
           "c(1:3) = sum(d, mask=d > 18.0, dim=2)", "c(1:2) = maxval(d, dim=1)", "t = minval(a)",
           "t = minval(a(3:6))", "k = product(ia) / 1000", "k = sum(ia, mask=ia > 20)",
           "k = size(a)", "k = size(d, 2)", "k = size(d, dim=1)", "k = lbound(a, 1)", "k = ubound(c, dim=1)",
           "k = lbound(c, 1) + ubound(a, 1)", "k = size(a(3:6))", "k = size(b(1:n))", "k = size(b(::2))",
           "t = abs(u)", "k = abs(n - 3)", "t = sign(t, u)", "k = sign(n, -1)", "k = max(n, m, 3)",
           "k = min(n, m)", "t = max(t, u, 0.5)", "t = min(t, real(n))", "k = mod(n, 3)", "k = mod(-n, 3)",
           "k = modulo(-n, 3)", "k = modulo(n, -3)", "k = int(u)", "k = int(t * 3.0)", "t = real(n) / 2.0",
           "t = real(n / 2)", "k = nint(t)", "k = nint(u * 0.75)", "t = merge(1.0, 2.0, flag)",
           "b = merge(b, e, mk)", "b(:) = merge(b(:), 0.0, b(:) > 0.0)", "k = merge(n, m, n > m)",
           "t = dot_product(b, e)", "t = dot_product(b(1:3), a(2:4))", "b(1:3) = matmul(d, e(1:2))",
           "t = sum(abs(b))", "t = sum(b * e)", "t = sum(b(:) * e(:)) / real(size(b))",
           "k = maxval(ia) - minval(ia)", "t = maxval(abs(b - e))", "t = sum(b, dim=1)",
           "t = sum(a(:), mask=a(:) > 0.0)", "t = product(c(1:n))", "t = sum(b(n:2))",
           "lg = sum(b) > sum(e)", "k = size(b, dim=1) * lbound(a, dim=1)", "t = abs(sum(b) - sum(e))"]
    for st in sts:
        out.append(Prog(f"intr|{st}", [st], dom={"n": [-2, 0, 1, 3, 4], "m": [1, 3], "flag": [True, False]},
                        fills=[1, 3], tags={"intrinsic"}))
    return out


def fam_loops():
    out = []
    dom = {"n": [-1, 0, 1, 3, 4], "m": [1, 2]}
    bounds = [("1", "n", None), ("n", "1", "-1"), ("1", "6", "m"), ("6", "n", "-2"), ("n", "n", None),
              ("0", "n + 1", "2"), ("5", "1", None), ("1", "5", "-1"), ("m", "2 * n", "m + 1"),
              ("-n", "n", None), ("n - 1", "-1", "-m")]
    for lo, hi, st in bounds:
        out.append(Prog(f"loop|{lo},{hi},{st}",
                        ["k = 0", do("i", lo, hi, st, ["k = k + i", "t = t + 0.5"]), "k = k * 100 + i"],
                        dom=dom, fills=[1], tags={"loop"}))
    # nested, triangular, bounds modified inside
    out += [
        Prog("loop|nested", ["k = 0", do("i", "1", "n", None, [do("j", "i", "1", "-1", ["k = k + i * 10 + j"])])], dom=dom, fills=[1]),
        Prog("loop|nested2", ["k = 0", do("j", "1", "2", None, [do("i", "1", "3", None, ["d(i, j) = d(i, j) + real(k)", "k = k + 1"])])], dom=dom, fills=[1, 3]),
        Prog("loop|boundmod", ["k = n", do("i", "1", "k", None, ["k = k + 1"])], dom=dom, fills=[1]),
        Prog("loop|stepmod", ["j = m", "k = 0", do("i", "1", "6", "j", ["j = j + 1", "k = k + i"])], dom=dom, fills=[1]),
        Prog("loop|arr", [do("i", "2", "n + 2", None, ["b(i) = b(i - 1) + e(i)"])], dom=dom, fills=[1, 3]),
        Prog("loop|arrneg", [do("i", "n + 1", "1", "-1", ["b(i) = b(i + 1) * 0.5"])], dom=dom, fills=[1, 4]),
        Prog("loop|lb", [do("i", "lbound(a, 1)", "ubound(a, 1)", None, ["a(i) = a(i) + real(i)"])], dom=dom, fills=[1]),
        Prog("loop|tri", ["k = 0", do("i", "1", "3", None, [do("j", "i + 1", "3", None, ["k = k + 1"]), "k = k + 10 * j"])], dom=dom, fills=[1]),
        # EXIT / CYCLE (kept as code blocks)
        Prog("loop|exit", ["k = 0", do("i", "1", "6", None, [if1("i > n", "exit"), "k = k + i"]), "k = k + 100 * i"], dom=dom, fills=[1]),
        Prog("loop|cycle", ["k = 0", do("i", "1", "5", None, [if1("mod(i, 2) == m - 1", "cycle"), "k = k + i"])], dom=dom, fills=[1]),
        Prog("loop|exitblock", ["k = 0", do("i", "1", "6", None, [if_("i > n", ["k = k + 50", "exit"]), "k = k + i"])], dom=dom, fills=[1]),
        Prog("loop|exitinner", ["k = 0", do("i", "1", "3", None, [do("j", "1", "3", None, [if1("j > i", "exit"), if1("j == n", "cycle"), "k = k + 1"]), "k = k + 10"])], dom=dom, fills=[1]),
        Prog("loop|exitelse", ["k = 0", do("i", "1", "6", None, [if_("i > n", ["exit"], ["k = k + i"])])], dom=dom, fills=[1]),
        # DO WHILE
        Prog("while|count", ["k = n", while_("k > 0", ["k = k - 2", "t = t + 1.0"])], dom=dom, fills=[1]),
        Prog("while|exit", ["k = 0", while_(".true.", ["k = k + 1", if1("k >= n", "exit")])], dom=dom, fills=[1]),
        Prog("while|cycle", ["k = 0", "i = 0", while_("i < n", ["i = i + 1", if1("i == 2", "cycle"), "k = k + i"])], dom=dom, fills=[1]),
        Prog("while|nested", ["k = 0", "i = n", while_("i > 0", [do("j", "1", "i", None, ["k = k + 1"]), "i = i - 1"])], dom=dom, fills=[1]),
        Prog("while|arr", ["i = 1", while_("i <= 5 .and. b(i) > 0.0", ["b(i) = -b(i)", "i = i + 1"]), "k = i"], dom=dom, fills=[1, 2, 3]),
        Prog("while|false", ["k = 1", while_("n > 100", ["k = 2"])], dom=dom, fills=[1]),
    ]
    return out


def fam_if():
    out = []
    dom = {"n": [-1, 0, 1, 2, 3], "m": [1, 2], "flag": [True, False]}
    conds = ["n > 1", "n > 1 .and. flag", "n > 1 .or. flag", ".not. (n > 1 .and. flag)",
             "flag .eqv. n > 1", "flag .neqv. n > m", "n == m", "n /= m", "t > real(n)", "n >= m .and. .not. flag",
             "real(n) < t", "n < u", ".not. flag .or. n <= 0", "mk(n + 2)", "b(2) > e(1) .eqv. flag"]
    for c in conds:
        out.append(Prog(f"if|block|{c}", ["k = 0", if_(c, ["k = 1"]), "k = k + 10"], dom=dom, fills=[1]))
        out.append(Prog(f"if|else|{c}", [if_(c, ["k = 1", "t = 0.0"], ["k = 2"])], dom=dom, fills=[1]))
        out.append(Prog(f"if|single|{c}", ["k = 0", if1(c, "k = 1")], dom=dom, fills=[1]))
    out += [
        Prog("if|chain", [ifchain(("n < 0", ["k = 1"]), ("n == 0", ["k = 2"]), ("n < 3", ["k = 3"]), (None, ["k = 4"]))], dom=dom, fills=[1]),
        Prog("if|chain_noelse", ["k = 0", ifchain(("n < 0", ["k = 1"]), ("n == 1", ["k = 2"]), ("flag", ["k = 3"]))], dom=dom, fills=[1]),
        Prog("if|chain_empty", ["k = 0", ifchain(("n < 0", []), ("n == 1", ["k = 2"]), (None, []))], dom=dom, fills=[1]),
        Prog("if|nested", ["k = 0", if_("n > 0", [if_("flag", ["k = 1"], ["k = 2"]), "k = k + 10"], [if1("flag", "k = 3")])], dom=dom, fills=[1]),
        Prog("if|nested_else_if", ["k = 0", if_("n > 0", ["k = 1"], [if_("flag", ["k = 2"]), "k = k + 5"])], dom=dom, fills=[1]),
        Prog("if|else_single_if", ["k = 0", if_("n > 0", ["k = 1"], [if_("flag", ["k = 2"], ["k = 3"])])], dom=dom, fills=[1]),
        Prog("if|emptythen", ["k = 0", if_("n > 0", [], ["k = 3"])], dom=dom, fills=[1]),
        Prog("if|emptyelse", ["k = 0", if_("n > 0", ["k = 3"], [], emptyelse=True)], dom=dom, fills=[1]),
        Prog("if|single_call", [if1("n > 0", call("h_add", "t", "u"))], dom=dom, fills=[1]),
        Prog("if|single_arr", [if1("flag", "b(:) = e(:)")], dom=dom, fills=[1]),
        Prog("if|single_return", ["k = 1", if1("n > 0", "return"), "k = 2"], dom=dom, fills=[1]),
        Prog("if|return_block", ["k = 1", if_("n > 0", ["k = 3", "return"], ["k = 4"]), "k = k + 10"], dom=dom, fills=[1]),
        Prog("if|single_in_else", ["k = 0", if_("flag", ["k = 1"], [if1("n > 0", "k = 2")]), "k = k + 10"], dom=dom, fills=[1]),
        Prog("if|single_then_else", ["k = 0", if_("flag", [if1("n > 0", "k = 2")], ["k = 1"]), "k = k + 10"], dom=dom, fills=[1]),
    ]
    return out


def fam_expr():
    '''integer division, MOD, **, mixed arithmetic, unary minus, associativity'''
    out = []
    dom = {"n": [-3, -1, 1, 2, 3], "m": [1, 2, 3]}
    iexprs = ["n / m", "(n * 2) / m", "n * (2 / m)", "n / m * m", "n - (m - 1)", "n - m - 1", "n - (m + 1)",
              "n / (m / 1)", "(n / m) / 2", "n / (m * 2)", "(n ** 2) ** 3", "n ** (2 ** 2)", "n ** 2 ** 2",
              "(n ** 2) ** m", "(-n) ** 2", "-n ** 2", "-(n ** 2)", "(-n) ** m", "2 ** (-m)", "n ** (-m)",
              "n * (-m)", "n - (-m)", "-n - m", "-(n - m)", "-(n + m) * 2", "(-n) * m", "-(n * m)", "n + m * 2",
              "(n + m) * 2", "n * m + 2", "n * (m + 2)", "mod(n, m) * 2", "mod(n * 2, m + 1)", "-mod(n, 3)",
              "n / 2 * 2 + mod(n, 2)", "(n + m) / (n - 4)", "7 / n / m", "7 / (n / m)", "n * m / 2", "n * (m / 2)",
              "+n - (+m)", "-(-n)", "- (-(-n))", "abs(-n) ** 2", "(n - m) ** 2 / 2", "2 ** m ** 2", "(2 ** m) ** 2",
              "n ** m * 2", "n * 2 ** m", "(n * 2) ** m", "-2 ** 2 + n"]
    for e_ in iexprs:
        out.append(Prog(f"expr|i|{e_}", [asg("k", e_)], dom=dom, fills=[1], tags={"expr"}))
    rdom = {"n": [-1, 2, 3], "m": [1, 2], "t": [[3, 2], [-5, 4]], "u": [[-2, 1], [1, 2]]}
    rexprs = ["n / 2 * t", "t * n / 2", "t * (n / 2)", "real(n) / 2.0", "n / 2.0", "t - (u - 1.0)", "t - u - 1.0",
              "t / (u / 2.0)", "t / u / 2.0", "t / (u * 2.0)", "(t ** 2) ** 2", "t ** (2 ** 2)", "(-t) ** 2",
              "-t ** 2", "(t ** n) ** 2", "t ** (-m)", "(u ** 2) ** m", "t * (-u)", "t - (-u)", "-(t - u)",
              "-(t + u) * 2.0", "t + n * u", "(t + n) * u", "t * u + n", "n + m / 2 + t", "t + n / m",
              "(t + n) / m", "abs(u) ** 2 / 2", "-(-t)", "t / 2 + n / 2", "u ** 2 ** 2", "(u * 2.0) ** 2",
              "u * 2.0 ** 2", "-u ** 2 * t", "(t - u) ** 2 - (t + u) ** 2"]
    for e_ in rexprs:
        out.append(Prog(f"expr|r|{e_}", [asg("t", e_), asg("k", "int(t * 4.0)")], dom=rdom, fills=[1], tags={"expr"}))
    ldom = {"n": [0, 2, 3], "m": [1, 3], "flag": [True, False], "lg": [True, False]}
    lexprs = ["flag .and. .not. lg", ".not. (flag .and. lg)", ".not. flag .and. lg", ".not. (flag .or. lg)",
              "flag .or. lg .and. n > m", "(flag .or. lg) .and. n > m", "flag .eqv. lg .eqv. n > m",
              "flag .eqv. (lg .neqv. n > m)", "(flag .eqv. lg) .neqv. n > m", "flag .neqv. lg .or. n > m",
              "flag .neqv. (lg .or. n > m)", ".not. (flag .eqv. lg)", ".not. flag .eqv. lg", "n > m .eqv. flag",
              "(n > m) .eqv. (m > 2)", "n + 1 > m * 2", "n - m > -1", ".not. n > m", "n == m .or. .not. (flag .neqv. lg)",
              "(.not. flag) .neqv. (.not. lg)"]
    for e_ in lexprs:
        out.append(Prog(f"expr|l|{e_}", [asg("lg", e_)], dom=ldom, fills=[1], tags={"expr"}))
    # conversion on assignment, array elements in expressions
    for st in ["k = t * 2", "k = u * 1.5", "k = -t * 3", "t = n", "t = n / m", "k = b(2) / 2", "k = int(b(3)) / 2",
               "b(n) = b(n) / 2 + n / 2", "ia(m) = ia(m) / 2 * 2 - ia(m)", "ia(m + 1) = ia(m) ** 2 / 7",
               "c(m) = c(m - 1) - (c(m) - c(m + 1))", "d(m, 2) = d(m, 1) / (d(m + 1, 1) / 2.0)",
               "a(n + 3) = -a(n + 4) ** 2", "a(n + 3) = (-a(n + 4)) ** 2"]:
        out.append(Prog(f"expr|a|{st}", [st], dom={"n": [1, 2, 3], "m": [1, 2], "t": [[3, 2], [-5, 4]]},
                        fills=[1, 3, 4], tags={"expr"}))
    return out


def fam_calls():
    out = []
    dom = {"n": [0, 1, 2, 3], "m": [1, 2]}
    bodies = {
        "elem": [call("h_add", "a(n + 2)", "t")],
        "elem_alias_in": [call("h_add", "b(2)", "b(3)")],
        "expr_actual": [call("h_add", "t", "u * 2.0 + real(n)")],
        "vec_section": [call("h_vec", "b(2:4)", "t")],
        "vec_whole3": [call("h_vec", "c(1:3)", "u")],
        "vec_stride": [call("h_vec", "a(3:7:2)", "t")],
        "vec_col": [call("h_vec", "d(:, 2)", "t")],
        "vec_elem_p": [call("h_vec", "e(1:3)", "b(n + 1)")],
        "vec0": [call("h_vec0", "c(0:2)", "n - 1")],
        "vec0_b": [call("h_vec0", "b(n + 1:n + 3)", "m")],
        "vec0_c": [call("h_vec0", "c", "2")],
        "swap": [call("h_swap", "t", "u")],
        "swap_el": [call("h_swap", "b(n + 1)", "e(m)")],
        "swap_d": [call("h_swap", "d(m, 1)", "d(3, m)")],
        "cnt": ["k = n", call("h_cnt", "k"), call("h_cnt", "k")],
        "cnt_el": [call("h_cnt", "ia(m)")],
        "cnt_gk": ["k = 1", call("h_cnt", "k"), "k = k + gk"],
        "nest": ["k = n", call("h_nest", "b(1:3)", "k")],
        "nest_gv": ["k = n + 2", call("h_nest", "gv(2:4)", "k")],
        "ret": [call("h_ret", "t", "n")],
        "ret_expr": [call("h_ret", "b(2)", "n + m")],
        "mat": [call("h_mat", "d", "n")],
        "mat_sec": [call("h_mat", "d(:, :)", "m + 1")],
        "loop": [do("i", "1", "n", None, [call("h_add", "b(i)", "e(i + 1)")])],
        "loop_cnt": ["k = 0", do("i", "1", "n", None, [call("h_cnt", "k"), if1("k > 2", "exit")])],
        "in_select": [select("n", ("1", [call("h_add", "t", "1.0")]), ("2:", [call("h_swap", "t", "u")]))],
        "in_if": [if_("n > m", [call("h_vec", "b(1:3)", "t")], [call("h_vec", "b(4:6)", "t")])],
        "two": [call("h_add", "t", "u"), call("h_vec", "e(4:6)", "t"), call("h_swap", "e(4)", "e(6)")],
        "where_after": [call("h_vec", "b(1:3)", "t"), where1("b(:) > 8.0", "b(:) = 0.0")],
    }
    for nm, body in bodies.items():
        out.append(Prog(f"call|{nm}", body, dom=dom, fills=[1, 3], tags={"call"}))
    return out


def fam_combo():
    dom = {"n": [-1, 1, 2, 4], "m": [1, 2], "flag": [True, False]}
    return [
        Prog("combo|1", ["k = 0", do("i", "1", "n", None,
                                    [select("mod(i, 3)", ("0", [where1("b(:) > real(i)", "b(:) = b(:) - 1.0")]),
                                            ("1", ["k = k + i / 2"]), ("default", [if1("flag", "cycle"), "k = k - 1"]))]),
                         "t = sum(b) + real(k)"], dom=dom, fills=[1, 3]),
        Prog("combo|2", [if_("flag", [do("i", "n", "1", "-1", ["b(i) = b(i + 1) + e(i)"])],
                             [where("mk(:)", ["b(:) = e(:)"], (None, ["e(:) = b(:)"]))]),
                         "t = maxval(b, mask=mk) - (t - u)"], dom=dom, fills=[1, 3]),
        Prog("combo|3", ["k = n", while_("k < 4", [select("k", (":0", ["k = k + 2"]), ("1, 3", ["k = k + 1", "t = t * 2.0"]),
                                                         ("default", ["exit"]))]), "u = t ** 2 / 2"],
             dom=dom, fills=[1]),
        Prog("combo|4", [do("j", "1", "2", None, [do("i", "1", "3", None,
                                                    [if_("d(i, j) > 18.0", ["d(i, j) = d(i, j) - (gv(j) - 20.0)"],
                                                         ["d(i, j) = -d(i, j) ** 2 / 100.0"])])]),
                         "c(1:2) = sum(d, dim=1)", call("h_vec0", "c(1:3)", "m")], dom=dom, fills=[1, 3]),
        Prog("combo|5", ["ia(1:3) = ia(2:4) - 18", select("ia(1)", ("1:2", ["k = ia(1) ** 2 ** 1"]),
                                                          ("3:", ["k = (ia(2) ** 2) ** 2"]), ("default", ["k = -1"])),
                         if1("k > 10 .and. .not. flag", "k = k / (n + 2) * 2")], dom=dom, fills=[1, 2]),
        Prog("combo|6", ["x = 0.0", do("i", "lbound(a, 1)", "ubound(a, 1)", "m",
                                      ["x = x + a(i)", if1("x > 20.0", "exit")]),
                         "t = x / real(size(a))", where1("e(:) > t", "e(:) = t")], dom=dom, fills=[1, 3]),
    ]


def fam_functions():
    '''module functions (mixed-case names, with / without RESULT clause, type in
    the prefix, pure / elemental) referenced from the routine under test'''
    dom = {"n": [-1, 2, 3], "m": [1, 2], "t": [[3, 2], [5, 2]], "u": [[-2, 1], [1, 2]], "k": [5]}
    bodies = {
        "scale": ["t = scaleby(u) + 1.0"],
        "plain": ["u = plain(t)"],
        "twice": ["k = twice(n) + twice(m)"],
        "nested": ["k = twice(addone(k))"],
        "addone": ["k = addone(n) * 2"],
        "lowf": ["t = lowf(u) - lowf(t)"],
        "nextid": ["k = nextid()", "k = k + nextid()"],
        "ispos": ["lg = ispos(u)"],
        "ispos_if": [if_("ispos(t - 2.0)", ["k = 1"], ["k = 2", "t = clamp(t)"])],
        "clamp": ["t = clamp(t)", "u = clamp(u + 3.0)"],
        "inloop": [do("i", "1", "n", None, ["b(i) = scaleby(e(i))"])],
        "index": ["b(addone(m)) = 0.0"],
        "argexpr": ["t = scaleby(t * 2.0 + u)"],
        "convert": ["k = scaleby(u)", "t = twice(n)"],
        "elemental_array": ["ia(:) = twice(ia(:))"],
        "elemental_section": ["ia(1:3) = twice(ia(2:4)) + 1"],
        "subs": [call("mixedsub", "t"), call("lowsub", "u")],
        "mix": ["k = addone(twice(m))", call("mixedsub", "t"), "u = plain(t) - scaleby(u)",
                if1("ispos(u)", "k = k + nextid()")],
    }
    return [Prog(f"fn|{nm}", body, dom=dom, fills=[1, 3], tags={"function"})
            for nm, body in bodies.items()]


def fam_misc():
    '''shapes reported by other checks: default-only SELECT after a statement kept
    verbatim, DO CONCURRENT masks, construct names'''
    dom = {"n": [0, 2, 5], "m": [1, 2]}
    fills = [1, 3]
    return [
        Prog("selectdflt|where", [where1("b > 0.0", "b = 0.0"),
                                  select("n", ("default", ["b(1) = 5.0", "k = 1"])), "k = k + 1"], dom=dom, fills=fills),
        Prog("selectdflt|wherec", [where("b > e", ["b = e"], (None, ["e = b"])),
                                   select("n + m", ("default", ["e(2) = b(2) + 1.0"]))], dom=dom, fills=fills),
        Prog("selectdflt|lowered", [where1("b(:) > 0.0", "b(:) = 0.0"),
                                    select("n", ("default", ["b(1) = 5.0"]))], dom=dom, fills=fills),
        Prog("selectdflt|two", [where1("b > 0.0", "b = 0.0"),
                                select("n", ("2", ["b(2) = 4.0"]), ("default", ["b(1) = 5.0"]))], dom=dom, fills=fills),
        Prog("doconc|mask", [doconc("i", "1", "6", "b(i) > 0.0", ["b(i) = 0.0"])], dom=dom, fills=[2, 3]),
        Prog("doconc|mk", [doconc("i", "1", "6", "mk(i)", ["e(i) = b(i) + 1.0"])], dom=dom, fills=fills),
        Prog("doconc|bounds", [doconc("i", "n", "6", "mod(i, 2) == 0", ["b(i) = real(i)"])],
             dom={"n": [1, 2, 5]}, fills=fills),
        Prog("named|cycle_case", ["k = 0", named("Lp", do("i", "1", "4", None,
                                                         [if1("i == n", xit("cycle", "lp")), "k = k + i"]))],
             dom=dom, fills=[1]),
        Prog("named|exit_case", ["k = 0", named("outer", do("i", "1", "6", None,
                                                           [if1("i > n", xit("exit", "OUTER")), "k = k + i"]))],
             dom=dom, fills=[1]),
        Prog("named|while_case", ["k = 0", named("W1", while_("k < 4", ["k = k + 1", if1("k == n", xit("exit", "w1"))]))],
             dom=dom, fills=[1]),
        Prog("named|same", ["k = 0", named("lp", do("i", "1", "4", None,
                                                   [if1("i == n", xit("cycle", "lp")), "k = k + i"]))],
             dom=dom, fills=[1]),
        Prog("named|unused", ["k = 0", named("Lp", do("i", "1", "n", None, ["k = k + i"]))], dom=dom, fills=[1]),
    ]


def fam_static():
    dom = {"n": [1, 4], "k": [5]}
    out = [Prog(f"static|{nm[3:]}", ["k = n", call(nm, "k"), "k = k + 100"], dom=dom, fills=[1],
                tags={"static"})
           for nm in ("h_sattr", "h_sinit", "h_sstmt", "h_scase", "h_smulti", "h_sbare")]
    out.append(Prog("static|all", ["k = n", call("h_scase", "k"), call("h_smulti", "k"), call("h_sattr", "k"),
                                   call("h_sinit", "k")], dom=dom, fills=[1], tags={"static"}))
    return out


FAMILIES = [fam_static, fam_functions, fam_misc, fam_select, fam_where, fam_array, fam_intrinsic, fam_loops, fam_if, fam_expr,
            fam_calls, fam_combo]


# ------------------------------------------- thorough: random combinations
def _rand_stmt(rng, depth, pool):
    '''depth 0/1 may open a DO loop (at most 4 x 4 iterations in total), a DO
    WHILE only at depth 0 with a loop-free body: values stay in 32-bit range'''
    r = rng.random()
    if depth >= 2 or r < 0.45:
        return S(rng.choice(pool["simple"])) if rng.random() < 0.7 else rng.choice(pool["compound"])
    if r < 0.6:
        lo, hi, st = rng.choice([("1", "n", None), ("n", "1", "-1"), ("1", "4", "m"), ("m", "3", None)])
        var = "ij"[depth]
        return do(var, lo, hi, st, [_rand_stmt(rng, depth + 1, pool) for _ in range(rng.randint(1, 2))])
    if r < 0.75:
        c = rng.choice(["n > 1", "flag", "n > m .and. flag", "t > u", ".not. flag .or. n == 2"])
        return if_(c, [_rand_stmt(rng, depth + 1, pool)],
                   [_rand_stmt(rng, depth + 1, pool)] if rng.random() < 0.5 else [])
    if r < 0.9 or depth > 0:
        cs = rng.choice([["1", "2:3", "default"], [":0", "2, 4:"], ["default", "1:2"],
                         ["-1:1", "3", "5:"]])
        return select(rng.choice(["n", "n + m", "k"]),
                      *[(it, [_rand_stmt(rng, depth + 1, pool)]) for it in cs])
    return while_("k < 3", ["k = k + 1", _rand_stmt(rng, 2, pool)])


def fam_random(seed, count):
    rng = random.Random(seed)
    simple = ["k = k + n / m", "t = t - (u - 1.0)", "b(:) = b(:) + e(:)", "b(2:4) = e(1:3) + t", "k = mod(k + n, 5)",
              "u = (t ** 2) / 2.0", "ia(m) = ia(m) / 2", "lg = lg .neqv. (n > m)", "c = c + 1.0", "u = sum(e, mask=mk)",
              "gv(:) = gv(4:1:-1)", "k = k + size(a) - lbound(a, 1)", "a(n + 3) = -a(n + 3)", "mk(:) = b(:) > e(:)",
              "t = t - real(k / 2)", "d(:, 1) = d(:, 2) - d(:, 1)", "k = mod(k * k, 7) - 3", "gk = gk + 1",
              "x = maxval(e) - real(n)", "k = (k - 2) ** 2 / 3", "ia(1:3) = ia(2:4) - n", "lg = b(2) > e(m) .or. flag"]
    compound = [where1("b(:) > 0.0", "b(:) = -b(:)"), where("mk(:)", ["e(:) = e(:) + 1.0"], (None, ["e(:) = 0.0"])),
                where("b(:) > e(:)", ["b(:) = e(:)"], ("b(:) < 0.0", ["b(:) = 0.0"])),
                call("h_add", "t", "u"), call("h_vec", "b(2:4)", "u"), call("h_cnt", "k"), if1("n > 2", "k = k + 1"),
                if1("flag", "b(:) = 0.0"), call("h_swap", "b(1)", "e(1)"), where1("gv(:) > 0.0", "gv(:) = gv(:) - 26.0"),
                if1("k > 6", "exit"), if1("mod(k, 2) == 0", "cycle")]
    pool = {"simple": simple, "compound": compound}
    out = []
    for q in range(count):
        body = ["k = k - 3", "x = 0.0"] + [_rand_stmt(rng, 0, pool) for _ in range(rng.randint(2, 4))]
        # EXIT / CYCLE are only legal inside a loop: drop those generated outside one
        body = _legal(body, False)
        out.append(Prog(f"rand|{seed}|{q}", body, dom={"n": [-1, 2, 4], "m": [1, 2], "flag": [True, False]},
                        fills=[1, 3], tags={"random"}))
    return out


def _legal(body, inloop):
    out = []
    for s in body:
        s = dict(s) if isinstance(s, dict) else S(s)
        k = s["k"]
        if k in ("exit", "cycle") and not inloop:
            continue
        if k == "if":
            s["then"] = _legal(s["then"], inloop)
            s["else"] = _legal(s["else"], inloop)
            if s.get("single") and not s["then"]:
                continue
        elif k in ("loop", "while"):
            s["body"] = _legal(s["body"], True)
        elif k == "select":
            s["cases"] = [dict(c, body=_legal(c["body"], inloop)) for c in s["cases"]]
        out.append(s)
    return out


def programs(tier, seed=0):
    out = []
    for f in FAMILIES:
        out += f()
    if tier != "quick":
        out += fam_random(seed, int(os.environ.get("C01_RANDOM", "800")))
    ids = set()
    for p in out:
        if p.pid in ids:
            raise ValueError("duplicate program id " + p.pid)
        ids.add(p.pid)
    return out
