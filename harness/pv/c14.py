'''C14 - the PSyIR tree stays well-formed under any sequence of edits.

spec/PSyIRTree.tla is a state machine over a small universe of nodes (kinds,
child lists with Python list-index semantics, parent links) with one action per
public tree-editing call: Success (list effect, WellFormed') or Refuse
(unchanged).  Binding A (spec -> code):

 1. TLC model-checks each universe (ParentChildAgree, ValidAtPosition, Acyclic,
    RefusalAtomic) and dumps every labelled transition (from, call, to) of the
    reachable graph; TLC also generates long pseudo-random histories.
 2. every transition is replayed on REAL psyclone nodes: fresh nodes are put in
    state `from` (by replaying the model's BFS history, else directly), the
    real call is made, the real object graph is projected;
 3. the recorded (pre-state, call, outcome, post-state) tuples go back to TLC
    (spec/Trace_PSyIRTree.tla, which reuses PSyIRTree's WellFormedOf /
    IsSuccessOf / IsRefusalOf): raised => unchanged (RefusalAtomic), returned
    => WellFormed; a well-formed post-state that is not the list effect is a
    DIVERGENCE (counted, not a violation).  TLC's verdict lines decide.

Binding B (code -> spec, c14_suite / c14_recorder / c14_pytest_recorder): a
subset of the repository's own tests runs under a recorder of the top-level
public tree-editing calls; every distinct recorded call (local state before,
call, outcome, local state after) is validated by TLC with
spec/Trace_PSyIRTree_Local.tla: raised => unchanged; returned =>
LocalParentChildAgree / LocalValidAtPosition / LocalAcyclic of PSyIRTree.tla.
PV_C14_BINDINGS=A|B|AB selects the bindings (demonstrations).
'''
import gc
import json
import os
import shutil
from collections import Counter
from concurrent.futures import ThreadPoolExecutor

from pv import core
from pv import c14_real as real
from pv import c14_suite as suite
from pv import c14_universes as unis

PROP = "C14"
BATCH = 150000          # tuples per TLC trace-validation run
_T0 = [0.0]
# processes / concurrent TLC runs (development: PV_C14_PAR=4)
PAR = int(os.environ.get("PV_C14_PAR", "0")) or core.NCPU


def _log(msg):
    if os.environ.get("PV_C14_VERBOSE"):
        import time
        if not _T0[0]:
            _T0[0] = time.time()
        print(f"[C14 +{time.time() - _T0[0]:6.1f}s] {msg}", flush=True)


# ------------------------------------------------------------------ matchers
# Narrow structural predicates over one counterexample.
#   case   = {"kinds", "pre": {"children","parent"}, "op": {...}, "outcome",
#             "exception", "post": {...}, ...}
#   detail = TLC's witness + "effect": the list effect (children) or None

def _op(case):
    op = case["op"]
    return op["name"], op["p"], op["i"], op["c"], op["d"]


def _did_list_effect(case, detail):
    '''the implementation performed exactly the Python list effect'''
    return detail.get("effect") is not None and \
        case["post"]["children"] == detail["effect"]


def _m_negative_index(case, clause, detail, _f):
    # insert / pop / __delitem__ with a negative index are validated at
    # len - index (beyond the end) instead of len + index
    name, p, i, _, _ = _op(case)
    return (name in ("insert", "addchild_at", "pop", "delitem") and i < 0
            and case["outcome"] == "returned" and clause == "ValidAtPosition"
            and _did_list_effect(case, detail)
            and any(bp[0] == p for bp in detail["badpos"]))


def _m_insert_unclamped(case, clause, detail, _f):
    # insert(i, x) with i > len: validated at i, list.insert puts it at len
    name, p, i, _, _ = _op(case)
    return (name in ("insert", "addchild_at")
            and i > len(case["pre"]["children"][p - 1])
            and case["outcome"] == "returned" and clause == "ValidAtPosition"
            and _did_list_effect(case, detail)
            and any(bp[0] == p for bp in detail["badpos"]))


def _m_setitem_negative(case, clause, detail, _f):
    # children[i] = x with i < 0 is validated at the raw negative position
    name, p, i, _, _ = _op(case)
    return (name == "setitem" and i < 0
            and case["outcome"] == "returned" and clause == "ValidAtPosition"
            and _did_list_effect(case, detail)
            and any(bp[0] == p for bp in detail["badpos"]))


def _ancestors_or_self(parent, n):
    seen = []
    while n and n not in seen:
        seen.append(n)
        n = parent[n - 1]
    return seen


def _m_cycle(case, clause, detail, _f):
    # no cycle check: a node is made a child of itself or of a descendant; the
    # update signal then recurses until RecursionError
    name, p, _, c, d = _op(case)
    pre = case["pre"]
    if name == "replace_with":
        target, new = pre["parent"][c - 1], [d]
    elif name in ("append", "addchild", "insert", "addchild_at", "setitem"):
        target, new = p, [c]
    elif name in ("extend", "iadd", "setchildren"):
        target, new = p, [x for x in (c, d) if x]
    else:
        return False
    if not target:
        return False
    above = _ancestors_or_self(pre["parent"], target)
    if not any(x in above for x in new):
        return False
    return ((clause == "RefusalAtomic" and case["exception"] == "RecursionError")
            or clause == "Acyclic")


def _m_setter_pops_first(case, clause, _detail, _f):
    # node.children = [...] detaches the old children before validating the new
    # list: after the error the node has no children
    name, p, _, _, _ = _op(case)
    if not (name == "setchildren" and clause == "RefusalAtomic"
            and case["outcome"] == "raised"
            and case["exception"] != "RecursionError"):
        return False
    pre, post = case["pre"], case["post"]
    old = pre["children"][p - 1]
    exp_ch = [([] if k == p else row) for k, row in enumerate(pre["children"], 1)]
    exp_pa = [(0 if k in old else v) for k, v in enumerate(pre["parent"], 1)]
    return bool(old) and post["children"] == exp_ch and post["parent"] == exp_pa


def _m_duplicate_items(case, clause, detail, _f):
    # extend([x, x]) / children = [x, x]: the same node is listed twice
    name, p, _, c, d = _op(case)
    return (name in ("extend", "setchildren") and c and c == d
            and case["outcome"] == "returned" and clause == "ParentChildAgree"
            and _did_list_effect(case, detail)
            and case["post"]["children"][p - 1].count(c) == 2)


def _struct_eq(kinds, children, a, b):
    '''Node.__eq__ on the abstract pre-state: same kind and pairwise equal
    children (in these universes all Literals / References of a kind carry the
    same value / symbol).'''
    if kinds[a - 1] != kinds[b - 1]:
        return False
    ra, rb = children[a - 1], children[b - 1]
    return len(ra) == len(rb) and all(
        _struct_eq(kinds, children, x, y) for x, y in zip(ra, rb))


def _m_remove_equal(case, clause, _detail, _f):
    # children.remove(x) deletes the first node EQUAL to x (structural __eq__)
    # but unlinks x itself
    name, p, _, c, _ = _op(case)
    if not (name == "remove" and case["outcome"] == "returned"
            and clause == "ParentChildAgree"):
        return False
    pre, post, kinds = case["pre"], case["post"], case["kinds"]
    row = pre["children"][p - 1]
    for pos, t in enumerate(row):
        if t == c:
            return False        # x itself came first: not this defect
        if _struct_eq(kinds, pre["children"], t, c):
            return (post["children"][p - 1] == row[:pos] + row[pos + 1:]
                    and post["parent"][c - 1] == 0
                    and post["parent"][t - 1] == p)
    return False


def _m_iadd(case, clause, _detail, _f):
    # node.children += [x]: list.__iadd__ is inherited unvalidated, then the
    # children setter pops everything - including x, whose parent link is
    # deleted although its real parent still lists it
    name, p, _, c, _ = _op(case)
    if not (name == "iadd" and case["outcome"] == "returned"
            and clause == "ParentChildAgree"):
        return False
    pre, post = case["pre"], case["post"]
    q = pre["parent"][c - 1]
    return (q not in (0, p) and post["parent"][c - 1] == 0
            and c in post["children"][q - 1] and post["children"][p - 1] == [])


def _m_omp_lowering_plain_list(case, clause, _detail, _f):
    # binding B: OMPParallelDirective.lower_to_language_level() replaces the
    # ChildrenList by a plain list (self._children = self._children[:2]); the
    # addchild() calls that follow append the new clauses without parent link
    if not (str(case.get("binding", "")).startswith("B")
            and case["op"] == "addchild" and case["outcome"] == "returned"
            and clause == "ParentChildAgree"
            and case["nodes"]["1"].startswith("OMPParallel")):
        return False
    item = case["items"][0]
    return (case["category_kind"][item - 1] in ("OMPPrivateClause",
                                                "OMPFirstprivateClause")
            and case["post"]["children"][0][-1] == item
            and case["post"]["parent"][item - 1] == 0
            and case["post"]["children"][0][:-1] == case["pre"]["children"][0])


MATCHERS = {
    "omp_lowering_plain_list": _m_omp_lowering_plain_list,
    "iadd": _m_iadd,
    "cycle": _m_cycle,
    "negative_index": _m_negative_index,
    "insert_unclamped": _m_insert_unclamped,
    "setitem_negative": _m_setitem_negative,
    "setter_pops_first": _m_setter_pops_first,
    "duplicate_items": _m_duplicate_items,
    "remove_equal": _m_remove_equal,
}


# ------------------------------------------------------------- TLC: the model

def _write_universe(tmp, uni):
    path = os.path.join(tmp, "u-" + uni["name"] + ".json")
    with open(path, "w") as f:
        json.dump({k: v for k, v in uni.items() if k != "name"}, f)
    return path


def _dump(args):
    tmp, uni = args
    path = _write_universe(tmp, uni)
    # -workers 1: strict BFS, so the depth bound cuts the same states every run
    res = core.run_tlc("PSyIRTree.tla", "PSyIRTree_dump.cfg",
                       env={"PV_UNIVERSE": path}, workers=1, check=False,
                       heap="2g", timeout=3000)
    if res.invariant_violated or res.error or not res.ok:
        raise core.MachineryError(
            f"PSyIRTree.tla ({uni['name']}) does not satisfy its own invariants "
            f"or failed: {res.invariant_violated or res.error or res.out[-1500:]}")
    _log(f"dump {uni['name']}: {res.distinct} states, TLC wall {res.wall:.1f}s")
    return uni, res


def _generate(args):
    tmp, uni = args
    path = _write_universe(tmp, dict(uni, name="gen-" + uni["name"]))
    res = core.run_tlc("PSyIRTree.tla", "PSyIRTree_gen.cfg",
                       env={"PV_UNIVERSE": path}, workers=1, check=False,
                       heap="2g", timeout=3000)
    if res.invariant_violated or res.error or not res.ok:
        raise core.MachineryError(
            f"PSyIRTree.tla generator ({uni['name']}) failed: "
            f"{res.invariant_violated or res.error or res.out[-1500:]}")
    _log(f"generator {uni['name']}: TLC wall {res.wall:.1f}s")
    return uni, res


def _key(children):
    return json.dumps(children, separators=(",", ":"))


def _jobs_of_dump(uni, trans):
    '''Group the dumped transitions by source state and attach the model's BFS
    history to each source state.  Returns (jobs, model) where model maps
    (state key, op tuple) -> (can succeed, to).'''
    path = {_key(init): [] for init in uni["inits"]}
    groups = {}
    model = {}
    for frm, op, ok, to in trans:
        kf = _key(frm)
        if kf not in path:
            raise core.MachineryError("transition dump is not in BFS order")
        if ok:
            kt = _key(to)
            if kt not in path:
                path[kt] = path[kf] + [op]
        groups.setdefault(kf, (frm, []))[1].append(op)
        mk = (kf, tuple(op))
        if mk in model:
            raise core.MachineryError("transition dumped twice: " + str(mk))
        model[mk] = (ok, to)
    jobs = []
    for kf, (frm, ops) in groups.items():
        # split big groups so that the pool is balanced
        for lo in range(0, len(ops), 200):
            jobs.append((uni["kinds"], frm, path[kf], ops[lo:lo + 200]))
    return jobs, model, len(path)


# ------------------------------------------------- TLC: validating real calls

class _Table:
    '''De-duplicated table of projected states (by value).'''

    def __init__(self):
        self.index = {}
        self.rows = []

    def add(self, ch, pa):
        k = _key([ch, pa])
        i = self.index.get(k)
        if i is None:
            self.rows.append([ch, pa])
            i = self.index[k] = len(self.rows)
        return i


def _validate(tmp, universes_kinds, records):
    '''records: list of (u, rec) with rec = [pre_ch, pre_pa, op, raised, exc,
    post_ch, post_pa, how].  Returns (verdicts {idx: (clause, witness)},
    diverged set, states, transitions).'''
    verdicts, diverged = {}, set()
    states = generated = 0
    runs = []
    for lo in range(0, len(records), BATCH):
        table = _Table()
        items = []
        for idx in range(lo, min(lo + BATCH, len(records))):
            u, rec = records[idx]
            items.append([idx, u, table.add(rec[0], rec[1]), rec[2], rec[3],
                          table.add(rec[5], rec[6])])
        path = os.path.join(tmp, f"cases-{lo}.json")
        with open(path, "w") as f:
            json.dump({"universes": universes_kinds, "states": table.rows,
                       "items": items}, f, separators=(",", ":"))
        runs.append((path, len(items)))

    def one(run):
        path, n = run
        res = core.run_tlc("Trace_PSyIRTree.tla", "Trace_PSyIRTree.cfg",
                           env={"PV_CASES": path}, timeout=3000,
                           workers=max(1, PAR // (2 * max(1, min(len(runs), 4)))))
        if res.distinct != 2 * n:
            raise core.MachineryError(
                f"C14 trace validation did not consume every tuple: "
                f"{res.distinct} states, expected {2 * n}")
        return res
    with ThreadPoolExecutor(max_workers=min(4, PAR)) as ex:
        results = list(ex.map(one, runs))
    for res in results:
        states += res.distinct
        generated += res.generated
        for v in res.printed("VERDICT"):
            verdicts[v["id"]] = (v["v"], v["w"])
        for v in res.printed("DIVERGE"):
            diverged.add(v["id"])
    return verdicts, diverged, states, generated


def _pyline(op):
    name, p, i, c, d = op
    items = ", ".join(f"n[{x}]" for x in (c, d) if x)
    return {
        "append": f"n[{p}].children.append(n[{c}])",
        "addchild": f"n[{p}].addchild(n[{c}])",
        "insert": f"n[{p}].children.insert({i}, n[{c}])",
        "addchild_at": f"n[{p}].addchild(n[{c}], {i})",
        "setitem": f"n[{p}].children[{i}] = n[{c}]",
        "delitem": f"del n[{p}].children[{i}]",
        "pop": f"n[{p}].children.pop({i})",
        "pop_last": f"n[{p}].children.pop()",
        "remove": f"n[{p}].children.remove(n[{c}])",
        "extend": f"n[{p}].children.extend([{items}])",
        "iadd": f"n[{p}].children += [{items}]",
        "setchildren": f"n[{p}].children = [{items}]",
        "clear": f"n[{p}].children.clear()",
        "reverse": f"n[{p}].children.reverse()",
        "pop_all": f"n[{p}].pop_all_children()",
        "detach": f"n[{c}].detach()",
        "replace_with": f"n[{c}].replace_with(n[{d}])",
    }[name]


def _case(uni_name, kinds, rec, source, history=None):
    pre_ch, pre_pa, op, raised, exc, post_ch, post_pa, how = rec
    return {
        "universe": uni_name, "kinds": kinds, "source": source,
        "pre": {"children": pre_ch, "parent": pre_pa},
        "op": dict(zip(("name", "p", "i", "c", "d"), op)),
        "call": _pyline(op),
        "outcome": "raised" if raised else "returned", "exception": exc,
        "post": {"children": post_ch, "parent": post_pa},
        "pre_state_built_by": how,
        "history": [_pyline(o) for o in history] if history else None,
        "how_to_rerun": "nodes n[1..N] of `kinds` (pv.c14_real.World), put them in "
                        "`pre` (World.construct), then execute `call`; "
                        "bin/verif check C14 --tier quick",
    }


# ------------------------------------------------------- binding B (code -> spec)

def _binding_b(out, cov, handle, tmp, tier):
    import time
    t0 = time.time()
    dumps, summary, prc = suite.collect(handle, 3000)
    _log(f"test subset finished: {summary} (exit {prc})")
    shapes, stats = suite.merge(dumps)
    verdicts, skipped, st, gen = suite.validate(tmp, shapes, PAR)
    _log(f"binding B: {stats['events']} events, {len(shapes)} distinct, "
         f"{len(verdicts)} verdicts, {len(skipped)} not judged")
    cov["states"] += st
    cov["transitions"] += gen
    cov["traces_validated_against_impl"] += len(shapes)
    judged = sum(s["count"] for i, s in enumerate(shapes) if i not in skipped)
    pos = sum(s["count"] for i, s in enumerate(shapes)
              if i not in skipped and s["kp"][0] != "?")
    for idx in sorted(verdicts):
        out.violation(suite.case_of(shapes[idx]), verdicts[idx],
                      {"binding": "B", "tests": shapes[idx]["tests"]})
    sample = shapes[len(shapes) // 2] if shapes else None
    cov["binding_B"] = {
        "test_paths": handle["dirs"], "tests_result": summary, "pytest_exit": prc,
        "wait_s": round(time.time() - t0, 1),
        "events_recorded": stats["events"], "events_by_operation": stats["by_op"],
        "refusals_recorded": stats["raised"],
        "distinct_events": len(shapes),
        "distinct_events_validated_by_TLC": len(shapes),
        "events_judged": judged,
        "events_with_position_validity_judged": pos,
        "events_not_judged_pre_state_ill_formed": stats["events"] - judged,
        "distinct_not_judged": len(skipped),
        "recorder_skipped": stats["recorder_skipped"],
        "violating_distinct_events": len(verdicts),
        "not_judged_samples": [
            dict(suite.case_of(shapes[i]), reason=skipped[i]) for i in sorted(skipped)[:4]],
        "kinds": stats["kinds"],
    }
    if sample:
        cov["samples"].append({"binding": "B", **{k: sample[k] for k in (
            "op", "index", "exc", "classes", "pre", "post", "count", "test")}})
    if prc not in (0, 1):
        raise core.MachineryError(f"C14 binding B: pytest exit {prc}: {summary}")


# ------------------------------------------------------ binding A, streamed

FLUSH = 120000          # recorded tuples held before TLC judges them


class _Stream:
    """Binding A, one universe at a time: replay, buffer the recorded tuples,
    let TLC judge the buffer when it is large enough, account, forget."""

    def __init__(self, out, cov, tmp, corrupt, pool):
        self.out, self.cov, self.tmp, self.corrupt = out, cov, tmp, corrupt
        self.pool = pool
        self.cats = Counter()
        self.div_ops = Counter()
        self.n_exh = self.n_hist_calls = self.n_hists = 0
        self.pending = []           # (future of _validate, batch) in order
        self.nbatch = 0
        self.vex = ThreadPoolExecutor(max_workers=2)
        self._reset()

    def _reset(self):
        self.kinds_table = []       # universes of the trace files
        self.records = []           # (u index, rec)
        self.meta = []              # (uni name, source, model key, history)
        self.models = {}
        self.hist_ranges = []
        self.exh = []               # indices of exhaustive records

    def _map(self, fn, items):
        if self.pool is None or len(items) < 2:
            return [fn(x) for x in items]
        return self.pool.map(fn, items, max(1, len(items) // (PAR * 8)))

    def add_dump(self, uni, res):
        cov = self.cov
        trans = res.printed("TR")
        res.out = ""
        jobs, model, nstates = _jobs_of_dump(uni, trans)
        ntrans = len(trans)
        del trans
        self.kinds_table.append(uni["kinds"])
        u = len(self.kinds_table)
        self.models[uni["name"]] = model
        cov["states"] += res.distinct
        cov["transitions"] += res.generated
        cov["universes"][uni["name"]] = {
            "nodes": len(uni["kinds"]), "kinds": uni["kinds"],
            "model_states": res.distinct, "model_depth": res.depth,
            "history_bound": uni["depth"], "labelled_transitions": ntrans,
            "ops": len(uni["ops"])}
        if nstates != res.distinct:
            raise core.MachineryError(
                f"{uni['name']}: dump names {nstates} states, TLC found "
                f"{res.distinct}")
        results = self._map(real.run_group, jobs)
        got = 0
        for job, recs in zip(jobs, results):
            for rec in recs:
                got += 1
                if rec[3] < 0:
                    cov["unsupported"] += 1
                    continue
                self.exh.append(len(self.records))
                self.records.append((u, rec))
                self.meta.append((uni["name"], "exhaustive",
                                  (_key(job[1]), tuple(rec[2])), job[2]))
                self.n_exh += 1
        if got != ntrans:
            raise core.MachineryError("replay lost transitions")
        _log(f"replayed {uni['name']}: {ntrans} transitions")
        if len(self.records) >= FLUSH:
            self.flush()

    def add_hists(self, uni, res):
        cov = self.cov
        hists = sorted(res.printed("HIST"))
        res.out = ""
        expect = uni["traces"] * len(uni["inits"])
        if len(hists) != expect:
            raise core.MachineryError(
                f"generator ({uni['name']}): {len(hists)} histories, expected "
                f"{expect}")
        self.kinds_table.append(uni["kinds"])
        u = len(self.kinds_table)
        cov["states"] += res.distinct
        cov["transitions"] += res.generated
        hjobs = [(uni["kinds"], h[0][2], [st[0] for st in h[1:]]) for h in hists]
        del hists
        hres = self._map(real.run_history, hjobs)
        for job, recs in zip(hjobs, hres):
            lo = len(self.records)
            for k, rec in enumerate(recs):
                if rec[3] < 0:
                    cov["unsupported"] += 1
                    break
                self.records.append((u, rec))
                self.meta.append((uni["name"], "history", None, job[2][:k]))
            self.hist_ranges.append((lo, len(self.records)))
            self.n_hist_calls += len(self.records) - lo
            self.n_hists += 1
        _log(f"replayed {len(hjobs)} histories of {uni['name']}")
        if len(self.records) >= FLUSH:
            self.flush()

    def flush(self):
        """Hand the buffer to TLC (in the background: the next universe is
        replayed meanwhile) and account the batches TLC has finished."""
        if self.records:
            if self.corrupt:            # binding demonstration (trace corruption)
                self.corrupt(self.records)
                self.corrupt = None
            batch = (self.records, self.meta, self.models, self.kinds_table,
                     self.hist_ranges, self.exh)
            self.nbatch += 1
            vdir = os.path.join(self.tmp, f"validate-{self.nbatch}")
            os.makedirs(vdir)
            fut = self.vex.submit(_validate, vdir, self.kinds_table, self.records)
            self.pending.append((fut, batch, vdir))
            self._reset()
        while self.pending and (self.pending[0][0].done() or len(self.pending) > 2):
            self._account()

    def finish(self):
        self.flush()
        while self.pending:
            self._account()
        self.vex.shutdown()

    def _account(self):
        fut, batch, vdir = self.pending.pop(0)
        records, meta, models, kinds_table, hist_ranges, exh = batch
        cov, cats = self.cov, self.cats
        # TLC decides every recorded tuple
        verdicts, diverged, st, gen = fut.result()
        shutil.rmtree(vdir, ignore_errors=True)
        _log(f"validated {len(records)} tuples: {len(verdicts)} verdicts")
        cov["states"] += st
        cov["transitions"] += gen
        cov["traces_validated_against_impl"] += len(records)
        in_hist_after = set()
        for lo, hi in hist_ranges:       # a history is judged up to its first failure
            for idx in range(lo, hi):
                if idx in verdicts:
                    in_hist_after.update(range(idx + 1, hi))
                    break
        for idx, (u, rec) in enumerate(records):
            uname, source, mkey, history = meta[idx]
            if idx in in_hist_after:
                cats["after_first_failure_in_history"] += 1
                continue
            if idx in verdicts:
                clause, wit = verdicts[idx]
                if clause == "PreNotWellFormed":
                    raise core.MachineryError(
                        "a real call was made from an ill-formed pre-state: "
                        + json.dumps(rec))
                case = _case(uname, kinds_table[u - 1], rec, source, history)
                detail = dict(wit)
                detail["effect"] = detail.pop("eff") if detail.pop("effok") else None
                if mkey is not None:
                    ok, to = models[uname][mkey]
                    case["model"] = {"may_succeed": bool(ok), "to": to}
                fid = self.out.violation(case, clause, detail)
                cats["known:" + fid if fid else "violation"] += 1
                continue
            if idx in diverged:
                cov["divergences"] += 1
                self.div_ops[rec[2][0]] += 1
                cats["returned_wellformed_but_not_list_effect"] += 1
            elif rec[3]:
                if mkey is not None and models[uname][mkey][0]:
                    cats["implementation_stricter_than_model"] += 1
                else:
                    cats["refused_as_model"] += 1
            else:
                cats["success_as_model"] += 1
        # cross-check: TLC's dump and TLC's trace verdicts agree on the effect
        for idx in exh:
            u, rec = records[idx]
            uname, _, mkey, _ = meta[idx]
            ok, to = models[uname][mkey]
            if not rec[3] and idx not in verdicts:
                same = bool(ok) and rec[5] == to
                if same == (idx in diverged):
                    raise core.MachineryError(
                        "dump and trace spec disagree on the list effect: "
                        + json.dumps(rec))
        if len(cov["samples"]) < 6:
            for idx in (0, len(records) // 2, len(records) - 1):
                u, rec = records[idx]
                cov["samples"].append(
                    {"universe": meta[idx][0], "source": meta[idx][1],
                     "kinds": kinds_table[u - 1], "pre": rec[0],
                     "call": _pyline(rec[2]),
                     "outcome": "raised " + rec[4] if rec[3] else "returned",
                     "post": rec[5]})


# ------------------------------------------------------------------- the check

def run(tier, corrupt=None):
    core.setup_psyclone_env()
    real._factories()                       # import psyclone before forking
    out = core.Outcome(PROP, tier, "model_checking", matchers=MATCHERS)
    cov = {"states": 0, "transitions": 0, "traces_validated_against_impl": 0,
           "samples": [], "exhaustive": True, "divergences": 0, "unsupported": 0,
           "universes": {}}
    tmp = core.mktemp("pv-c14-")
    ulist = unis.universes(tier)
    hlist = unis.history_universes(tier, core.seed())
    # PV_C14_BINDINGS=A|B|AB (demonstrations): which bindings run
    bindings = os.environ.get("PV_C14_BINDINGS", "AB").upper()
    if "A" not in bindings:
        ulist, hlist = [], []
    if os.environ.get("PV_C14_ONLY"):       # development aid: subset of universes
        only = os.environ["PV_C14_ONLY"].split(",")
        ulist = [u for u in ulist if u["name"] in only]
        hlist = [u for u in hlist if u["name"] in only]
    _log("start")
    handle = None
    try:
        # binding B runs beside binding A: the repository's tests under the recorder
        if "B" in bindings:
            handle = suite.start(tmp, tier, min(8, PAR))
        # binding A: TLC checks the universes, dumps transitions and generates
        # histories concurrently (one worker each); the results are consumed one
        # universe at a time, in a fixed order, so that memory stays bounded
        # (the worker pool is forked before any thread exists)
        pool = None
        if PAR > 1 and (ulist or hlist):
            import multiprocessing
            pool = multiprocessing.get_context("fork").Pool(PAR)
        stream = _Stream(out, cov, tmp, corrupt, pool)
        # The parent only holds acyclic JSON-like data, millions of small lists:
        # the cyclic collector would re-scan them over and over (measured: 5x
        # slower parsing).  The replay workers (real node trees are cyclic) keep it.
        gc.disable()
        try:
            with ThreadPoolExecutor(max_workers=max(1, PAR - 2)) as ex:
                fut_d = [ex.submit(_dump, (tmp, u)) for u in ulist]
                fut_g = [ex.submit(_generate, (tmp, u)) for u in hlist]
                for fut in fut_d:
                    stream.add_dump(*fut.result())
                for fut in fut_g:
                    stream.add_hists(*fut.result())
            stream.finish()
        finally:
            gc.enable()
            if pool is not None:
                pool.terminate()
                pool.join()
        cov["outcomes"] = dict(stream.cats)
        cov["divergences_by_op"] = dict(stream.div_ops)
        cov["histories"] = {"count": stream.n_hists, "calls": stream.n_hist_calls,
                            "length": hlist[0]["depth"] if hlist else 0}
        cov["evaluations"] = stream.n_exh + stream.n_hist_calls
        cov["distinct_nontrivial"] = sum(
            v for k, v in stream.cats.items() if k != "refused_as_model")
        cov["rule"] = ("one evaluation = one real call made on fresh real nodes in "
                       "a model state (every labelled transition of every universe's "
                       "reachable graph within the history bound) or one step of a "
                       "generated long history; non-trivial = the call succeeded in "
                       "the model or in the implementation, or was judged a violation")
        if handle is not None:
            _binding_b(out, cov, handle, tmp, tier)
    finally:
        if handle is not None and handle["proc"].poll() is None:
            handle["proc"].kill()
        shutil.rmtree(tmp, ignore_errors=True)
    if cov["unsupported"] * 5 > max(1, cov["evaluations"]):
        raise core.MachineryError("more than 20% of the cases are unsupported")
    return out.finish(cov, assumptions=[
        "universes of 5-6 nodes (7-8 in thorough) per node family; kinds as listed "
        "in evidence.universes; all Literals/References/empty Schedules are "
        "structurally equal twins",
        "indices -(len+2)..len+2; item lists of length <= 2 for extend/setter",
        "nodes are created without constructor `parent=`/`children=` arguments; "
        "slice assignment/deletion and sort() are not in the alphabet",
        "projection: ids of node.children / node.parent objects (trusted)",
        "binding B: only the neighbourhood of the edited node is recorded (the "
        "node, its children, the items and the items' parents); position validity "
        "is judged only for classes that use the validation of a kind of "
        "PSyIRTree.tla's table unchanged (evidence.binding_B.kinds: 'KP/KC'; "
        "KP '?' = not judged); a pending constructor parent counts as no parent; "
        "events whose recorded pre-state is already ill-formed are not judged",
    ])
