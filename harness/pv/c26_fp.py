'''C26 - fingerprint of a PSyIR tree (the abstract value `fp` of TransTxn.tla).

Three components, each a text dump that is hashed:

  text  : what FortranWriter writes for the root ("ERR:<type>" when the writer
          refuses the tree, e.g. an un-lowered LFRic PSy layer);
  syms  : a view of every symbol table of every scope of the tree (symbols in
          declaration order with class, identity, visibility, interface,
          datatype, initial value ...; tags; argument list; default
          visibility) and of the kernel schedules that existed before the
          attempt;
  tree  : node classes + attributes + child structure + node identities.

Identities are canonical numbers handed out by a `Numbering` in first-seen
order (so that two dumps made with the same Numbering are equal iff the same
objects are in the same places) - the Numbering keeps the objects alive, hence
`id()` cannot be re-used between the two dumps of one attempt.

Deliberately NOT part of the fingerprint (not observable code or state):
the class / datatype of an *imported* symbol (resolution cache),
fparser parse-tree links (`_ast`...), back pointers (`_parent`, `_invoke`,
`_psy`...), lazily created caches (ContainerSymbol._reference, a kernel
schedule that did not exist before the attempt), iteration order of sets
(sorted), dict order of tag maps (sorted).
'''
import enum
import hashlib

_SKIP_NODE_ATTRS = frozenset((
    "_parent", "_children", "_symbol_table", "_ast", "_ast_end", "_fp2_ast",
    "_fp2_nodes", "_invoke", "_psy", "_parent_call", "_disable_tree_update",
    "_kern_schedule", "_kernel_code", "_module_code", "_fp2_ast",
    "_forced_symtab", "_stub_symtab", "_node_reference", "_validation_function",
    "_validation_text",
    # KernelType/metadata objects parsed from the kernel source: immutable input
    "_ktype", "_kernel_type",
    # scratch lists of DynamicOMPTaskDirective filled while *lowering*; the
    # shallow Node.copy() shares them between a tree and its copy, so every
    # FortranWriter call (which lowers a copy) appends to the original's lists
    "_parent_loop_vars", "_parent_loops", "_proxy_loop_vars", "_child_loop_vars",
    "_parent_parallel", "_parallel_private", "_parallel_firstprivate", "_in_kern",
))
_SKIP_SYM_ATTRS = frozenset(("_reference",))
_SKIP_OBJ_ATTRS = frozenset((
    "_parent", "_ast", "_ast_end", "_invoke", "_psy", "_call", "_parent_call",
    "_kern", "_kernel", "_schedule", "_invokes", "_fp2_ast", "_symbol_table",
    "_symtab", "_reference", "_node", "_parse_tree", "_fparser2_tree",
))
_MAXDEPTH = 4


def _h(text):
    return hashlib.sha1(text.encode("utf-8", "replace")).hexdigest()[:12]


class Numbering:
    '''Canonical numbers for nodes, symbols and symbol tables; keeps them
    alive.'''

    def __init__(self):
        self.ids = {}
        self.keep = []
        self.kern_scheds = None     # ids of kernels whose schedule existed (pre)
        self.lfric = False          # tree holds LFRic PSy-layer nodes (pre)

    def num(self, obj):
        k = id(obj)
        n = self.ids.get(k)
        if n is None:
            n = len(self.keep) + 1
            self.ids[k] = n
            self.keep.append(obj)
        return n


class _Dumper:
    def __init__(self, numbering):
        self.n = numbering
        from psyclone.psyir.nodes import Node
        from psyclone.psyir.symbols import Symbol, SymbolTable, DataType
        from psyclone.psyir.symbols.interfaces import SymbolInterface
        self.Node, self.Symbol, self.SymbolTable = Node, Symbol, SymbolTable
        self.DataType, self.SymbolInterface = DataType, SymbolInterface
        self.in_tree = set()
        self.stack = set()
        self.skip_new_syms = False
        self.known0 = frozenset(numbering.ids)   # objects known before this dump
        self.saw_lfric = False
        try:
            from psyclone.domain.lfric import LFRicLoop
        except ImportError:
            LFRicLoop = ()
        self.LFRicLoop = LFRicLoop

    # -- generic value rendering ------------------------------------------
    def val(self, v, depth=0):
        if v is None or isinstance(v, (bool, int, float, str)):
            return repr(v)
        if isinstance(v, enum.Enum):
            return type(v).__name__ + "." + v.name
        if isinstance(v, self.Symbol):
            return f"sym#{self.n.num(v)}:{v.name}"
        if isinstance(v, self.Node):
            if id(v) in self.in_tree:
                return f"node#{self.n.num(v)}"
            if depth >= _MAXDEPTH or id(v) in self.stack:
                return f"<{type(v).__name__}>"
            return "(" + self.small_tree(v, depth + 1) + ")"
        if isinstance(v, self.SymbolTable):
            return f"symtab#{self.n.num(v)}"
        if isinstance(v, (list, tuple)):
            if depth >= _MAXDEPTH:
                return f"<{type(v).__name__}:{len(v)}>"
            return "[" + ",".join(self.val(x, depth + 1) for x in v) + "]"
        if isinstance(v, (set, frozenset)):
            if depth >= _MAXDEPTH:
                return f"<set:{len(v)}>"
            return "{" + ",".join(sorted(self.val(x, depth + 1) for x in v)) + "}"
        if isinstance(v, dict):
            if depth >= _MAXDEPTH:
                return f"<dict:{len(v)}>"
            items = [(self.val(k, depth + 1), self.val(x, depth + 1))
                     for k, x in v.items()]
            if not type(v).__name__ == "OrderedDict":
                items.sort()
            return "{" + ",".join(a + ":" + b for a, b in items) + "}"
        if isinstance(v, type):
            return "class:" + v.__name__
        mod = type(v).__module__ or ""
        if mod.startswith("psyclone") and hasattr(v, "__dict__"):
            if depth >= _MAXDEPTH or id(v) in self.stack:
                return f"<{type(v).__name__}>"
            self.stack.add(id(v))
            try:
                skip = _SKIP_OBJ_ATTRS
                parts = [f"{k}={self.val(x, depth + 1)}"
                         for k, x in sorted(vars(v).items()) if k not in skip]
            finally:
                self.stack.discard(id(v))
            return type(v).__name__ + "<" + ";".join(parts) + ">"
        return f"<{type(v).__name__}>"

    def small_tree(self, node, depth):
        '''A node that is not part of the dumped tree (array bound expression,
        initial value ...): dumped by value, without identities.'''
        self.stack.add(id(node))
        try:
            attrs = [f"{k}={self.val(x, depth)}"
                     for k, x in sorted(vars(node).items())
                     if k not in _SKIP_NODE_ATTRS and k != "_annotations"
                     and k != "_argument_names"]
            kids = ",".join(self.small_tree(c, depth) if depth < 12 else "..."
                            for c in node._children)
        finally:
            self.stack.discard(id(node))
        return f"{type(node).__name__}<{';'.join(attrs)}>[{kids}]"

    # -- the three dumps --------------------------------------------------
    def tree(self, root, lines, tables, kerns):
        '''Pre-order dump of the tree below root into `lines`; collects the
        symbol tables (in walk order) and the kernels met.'''
        nodes = []
        stack = [(root, 0, None)]
        lazy = []
        while stack:
            node, d, par = stack.pop()
            nodes.append((node, d, par))
            self.in_tree.add(id(node))
            kids = node._children
            if isinstance(node, self.LFRicLoop) and len(kids) == 4:
                # LFRicLoop.start_expr / stop_expr (read by every dependency
                # analysis) REPLACE children 0 and 1 by a fresh Reference to a
                # lazily declared loopN_start/stop symbol: not state
                lazy.append((d + 1, node))
                kids = kids[2:]
            if not self.saw_lfric and (type(node).__module__ or "").startswith(
                    ("psyclone.dynamo0p3", "psyclone.domain.lfric")):
                self.saw_lfric = True
            for c in reversed(kids):
                stack.append((c, d + 1, node))
        for node, d, par in nodes:
            dct = vars(node)
            attrs = []
            for k in sorted(dct):
                if k in _SKIP_NODE_ATTRS:
                    continue
                if k == "_argument_names":
                    # [(id(child), name)] is reconciled lazily with the
                    # children; the state is the name attached to each child
                    try:
                        byid = {i: nm for i, nm in dct[k]}
                        attrs.append("argnames=" + repr(
                            [byid.get(id(c)) for c in node._children]))
                    except Exception:     # noqa
                        attrs.append("argnames=?")
                    continue
                attrs.append(f"{k}={self.val(dct[k], 1)}")
            # a child whose parent pointer disagrees with its position
            pflag = "" if (d == 0 or node._parent is par) else " !orphan"
            lines.append(f"{d} {type(node).__name__}#{self.n.num(node)}"
                         f"{pflag} {' '.join(attrs)}")
            st = dct.get("_symbol_table")
            if st is not None:
                tables.append((node, st))
            if "_kern_schedule" in dct:
                kerns.append(node)

    def table(self, owner, st, lines):
        own = f"node#{self.n.num(owner)}" if owner is not None else "-"
        stn = st._node
        lines.append(f"TABLE symtab#{self.n.num(st)} of {own} "
                     f"backlink={'ok' if stn is owner else self.val(stn, 2)} "
                     f"defvis={self.val(st._default_visibility)}")
        known = self.known0
        skipped = set()
        for key, sym in st._symbols.items():
            if self.skip_new_syms and id(sym) not in known:
                skipped.add(id(sym))
                continue
            dct = vars(sym)
            if type(dct.get("_interface")).__name__ == "ImportInterface":
                # an imported symbol is written as part of a USE statement
                # only; its class and type are filled in (specialise /
                # resolve_type) whenever some analysis resolves the import
                attrs = [f"{k}={self.val(dct[k], 1)}"
                         for k in ("_interface", "_name", "_visibility")
                         if k in dct]
                lines.append(f"  {key} Imported#{self.n.num(sym)} "
                             + " ".join(attrs))
                continue
            attrs = [f"{k}={self.val(dct[k], 1)}" for k in sorted(dct)
                     if k not in _SKIP_SYM_ATTRS]
            lines.append(f"  {key} {type(sym).__name__}#{self.n.num(sym)} "
                         + " ".join(attrs))
        lines.append("  ARGS " + self.val(st._argument_list, 1))
        lines.append("  TAGS " + ",".join(
            f"{t}->{self.val(s)}" for t, s in sorted(st._tags.items())
            if id(s) not in skipped))


WRITER_PERTURBED = []


class FP:
    __slots__ = ("text", "syms", "tree", "raw", "nnodes", "inferred")

    def __init__(self, text, syms, tree, raw, nnodes):
        self.text, self.syms, self.tree = text, syms, tree
        self.raw = raw
        self.nnodes = nnodes
        self.inferred = False

    def triple(self):
        return [self.text, self.syms, self.tree]

    def drop_raw(self):
        self.raw = None


_PSYKAL_MODULES = ("psyclone.dynamo0p3", "psyclone.gocean1p0",
                   "psyclone.domain.lfric", "psyclone.domain.gocean",
                   "psyclone.domain.common.algorithm")


def writer_safe(root):
    '''FortranWriter lowers a *copy* of the tree, but a copy of an LFRic or
    GOcean PSy layer shares its Invoke object, kernel schedules and kernel
    output files with the original: lowering it declares symbols in the
    original's tables and renames / writes transformed kernels.  Such trees get
    no text component (their code is only observable through the tree and
    symbol dumps).'''
    from psyclone.psyir.nodes import Node
    from psyclone.psyGen import CodedKern, BuiltIn, HaloExchange, GlobalSum
    for node in root.walk(Node):
        if isinstance(node, (CodedKern, BuiltIn, HaloExchange, GlobalSum)):
            return False
        if (type(node).__module__ or "").startswith(_PSYKAL_MODULES):
            return False
    return True


def write_text(root):
    '''Writer text of the root or "ERR:<type>".  A fresh writer per call.'''
    from psyclone.psyir.backend.fortran import FortranWriter
    if not writer_safe(root):
        return "NOTEXT:psykal"
    try:
        return FortranWriter()(root)
    except Exception as err:     # noqa - the writer refusing is an answer
        return "ERR:" + type(err).__name__


def fingerprint(root, numbering, pre=True, with_text=True, infer_from=None):
    '''FP of the tree below `root`.  `pre=True` fixes which kernel schedules
    exist (a schedule created lazily during the attempt is not state).
    `infer_from`: an FP whose text is re-used (not recomputed) when the tree
    and symbol dumps are identical to it (text sampling, see c26.py).'''
    d = _Dumper(numbering)
    # LFRic: reading the access information of a kernel or loop declares the
    # kernel-argument symbols (ndf_*, undf_*, map_*, loopN_start ...) in the
    # invoke's table (find_or_create_tag).  Code generation declares them
    # anyway, so symbols *added* during a refused attempt are not state; every
    # symbol, tag and argument that existed before must be unchanged.
    d.skip_new_syms = (not pre) and numbering.lfric
    tlines, tables, kerns = [], [], []
    d.tree(root, tlines, tables, kerns)
    if pre:
        numbering.lfric = d.saw_lfric
    slines = []
    for owner, st in tables:
        d.table(owner, st, slines)
    # kernel schedules (separate trees hanging off CodedKern nodes)
    if pre or numbering.kern_scheds is None:
        numbering.kern_scheds = set(
            numbering.num(k) for k in kerns
            if getattr(k, "_kern_schedule", None) is not None)
    for k in kerns:
        ks = getattr(k, "_kern_schedule", None)
        kn = numbering.num(k)
        if kn not in numbering.kern_scheds:
            continue
        if ks is None:
            tlines.append(f"KERNSCHED of node#{kn}: None")
            continue
        tlines.append(f"KERNSCHED of node#{kn}:")
        sub_tables = []
        d.tree(ks.root if hasattr(ks, "root") else ks, tlines, sub_tables, [])
        for owner, st in sub_tables:
            d.table(owner, st, slines)
    traw = "\n".join(tlines)
    sraw = "\n".join(slines)
    ht, hs = _h(traw), _h(sraw)
    if infer_from is not None and infer_from.tree == ht and infer_from.syms == hs:
        res = FP(infer_from.text, hs, ht, (infer_from.raw[0], sraw, traw),
                 len(tlines))
        res.inferred = True
        return res
    if not with_text:
        return FP(_h("SKIPPED"), hs, ht, ("SKIPPED", sraw, traw), len(tlines))
    text = write_text(root)
    if text.startswith("NOTEXT"):
        return FP(_h(text), hs, ht, (text, sraw, traw), len(tlines))
    # the writer ran (on a copy): dump again, so that anything it created
    # lazily in shared objects is part of this and of every later dump
    res = fingerprint(root, numbering, pre=pre, with_text=False)
    res.text = _h(text)
    res.raw = (text,) + res.raw[1:]
    if res.tree != ht or res.syms != hs:
        WRITER_PERTURBED.append(type(root).__name__)
    return res


def diff_component(a, b, limit=12):
    '''Short witness: the first differing lines of two dumps.'''
    import difflib
    out = []
    al, bl = a.splitlines(), b.splitlines()
    if len(al) == len(bl):
        # same shape: name the attributes that differ, line by line
        for i, (x, y) in enumerate(zip(al, bl)):
            if x != y:
                xs, ys = x.split(" "), y.split(" ")
                out.append(f"line {i}: {' '.join(xs[:2])[:80]}: "
                           + " | ".join(t[:160] for t in xs if t not in ys)
                           + "  ==>  "
                           + " | ".join(t[:160] for t in ys if t not in xs))
                if len(out) >= limit:
                    out.append("...")
                    break
        return out
    for line in difflib.unified_diff(a.splitlines(), b.splitlines(), "before",
                                     "after", n=0, lineterm=""):
        if line.startswith(("---", "+++")):
            continue
        out.append(line[:400])
        if len(out) >= limit:
            out.append("...")
            break
    return out
