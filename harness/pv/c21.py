'''C21 - LFRic kernel calls match the kernel interface for all metadata.

LFRicArgOrder.tla holds (i) the documented argument-ordering rules of the user
guide as Args(md) and (ii) the bounded family of valid kernel metadata, which
TLC enumerates (one implementation test per metadata state).  For every
metadata the harness writes a real kernel module and a one-kernel algorithm,
runs the real kernel-stub generator and the real PSy-layer generator, itemises
both argument lists with their declarations (c21_item) and hands metadata +
both item lists back to TLC (Trace_LFRicArgOrder.tla), which decides the
clauses SameCount, CallMatchesStub, StubFollowsDoc, CallFollowsDoc, and - for
the PSyIR form of the call (KernCallArgList.psyir_arglist, the expressions and
symbol types that are passed) - PsyirCallMatchesStub, PsyirCallMatchesText.
The family also contains MULTI-KERNEL invokes (LFRicArgOrder!MultiSetOf) in
which one actual argument is passed to two or three kernels whose metadata for
it differ: every call is judged against the metadata of its own kernel.'''
import contextlib
import io
import json
import os
import re
import shutil

from pv import core
from pv import c21_gen as gen
from pv.c21_item import (Unsupported, itemise_call, itemise_psyir,
                         itemise_stub)

PROP = "C21"


def _procs():
    """development aid: PV_PROCS limits worker processes / TLC workers."""
    try:
        return max(1, int(os.environ["PV_PROCS"]))
    except (KeyError, ValueError):
        return core.NCPU


# ------------------------------------------------------------------- workers
def _invoke(kernels, alg_id, tmp):
    '''Generate and itemise the stubs and the calls of ONE invoke whose
    kernels are [(md, md_id, names)] (names: c21_gen.names_for).  Returns one
    case per kernel call.'''
    from psyclone.parse.algorithm import parse
    from psyclone.psyGen import PSyFactory
    from psyclone.gen_kernel_stub import generate
    from psyclone.errors import GenerationError, InternalError
    from psyclone.parse.utils import ParseError
    from psyclone.domain.lfric import KernCallArgList, LFRicKern
    refusals = (GenerationError, InternalError, ParseError, NotImplementedError)
    paths = []
    results = []
    sink = io.StringIO()
    for md, md_id, _ in kernels:
        mod, _, code = gen.kernel_names(md_id)
        kpath = os.path.join(tmp, mod + ".f90")
        paths.append(kpath)
        with open(kpath, "w") as f:
            f.write(gen.kernel_text(md, md_id))
        res = {"id": md_id, "md": md, "hs": False, "stub": [], "hc": False,
               "call": [], "hp": False, "pcall": [], "notes": {}}
        results.append(res)
        try:
            with contextlib.redirect_stdout(sink):
                text = str(generate(kpath, api="lfric"))
        except refusals as err:
            res["notes"]["stub_refused"] = (type(err).__name__ + ": "
                                            + str(err)[:160])
        else:
            try:
                res["stub"] = itemise_stub(text, md, code)
                res["hs"] = True
            except Unsupported as err:
                res["notes"]["stub_unsupported"] = str(err)
    apath = os.path.join(tmp, f"c21alg{alg_id}.f90")
    paths.append(apath)
    with open(apath, "w") as f:
        f.write(gen.invoke_text(kernels, alg_id))
    try:
        with contextlib.redirect_stdout(sink):
            _, info = parse(apath, api="dynamo0.3", kernel_paths=[tmp])
            psy = PSyFactory("dynamo0.3", distributed_memory=False).create(info)
            text = str(psy.gen)
    except refusals as err:
        for res in results:
            res["notes"]["call_refused"] = (type(err).__name__ + ": "
                                            + str(err)[:160])
    except Exception as err:        # noqa  not a refusal: generation crashed
        text = type(err).__name__ + ": " + str(err)
        m = re.search(r"Original error was '(.*)'", text, re.S)
        results[0]["notes"]["call_crashed"] = (
            type(err).__name__ + ": " + (m.group(1) if m else str(err))[:300])
    else:
        scheduled = psy.invokes.invoke_list[0].schedule.walk(LFRicKern)
        for (md, md_id, names), res in zip(kernels, results):
            code = gen.kernel_names(md_id)[2]
            try:
                res["call"] = itemise_call(text, md, code, names)
                res["hc"] = True
            except Unsupported as err:
                res["notes"]["call_unsupported"] = str(err)
            # the PSyIR form of the same call: the expressions (and the
            # symbols with their types) that KernCallArgList passes
            try:
                kerns = [k for k in scheduled if k.name.lower() == code]
                if len(kerns) != 1:
                    raise Unsupported(f"{len(kerns)} calls of {code} in the "
                                      "schedule")
                alist = KernCallArgList(kerns[0])
                alist.generate()
                res["pcall"] = itemise_psyir(alist.arglist,
                                             alist.psyir_arglist, md, names)
                res["hp"] = True
            except Unsupported as err:
                res["notes"]["psyir_unsupported"] = str(err)
    for path in paths:
        os.unlink(path)
    return results


def _one(md, md_id, tmp):
    '''One metadata, called from an invoke of its own.'''
    return _invoke([(md, md_id, gen.names_for(md))], md_id, tmp)[0]


MULTI_BASE = 100000


def _multi(mk, n, tmp):
    '''A multi-kernel invoke [ks, act, qsh] (LFRicArgOrder!MultiOf): one case
    per kernel call, each judged against its OWN metadata.'''
    kernels = []
    for k, md in enumerate(mk["ks"], 1):
        kernels.append((md, MULTI_BASE + 10 * n + k,
                        gen.names_for(md, k, mk["act"][k - 1], mk["qsh"])))
    results = _invoke(kernels, MULTI_BASE + 10 * n, tmp)
    for k, res in enumerate(results, 1):
        res["invoke"] = {"n": n, "call": k, "act": mk["act"], "qsh": mk["qsh"],
                         "kernels": [[a["t"] + ":" + a["acc"] + ":" + a["fs"]
                                      + (":" + a["fs2"] if a["fs2"] else "")
                                      + (":" + a["st"] if a["st"] != "none" else "")
                                      + ("*" + str(a["vec"]) if a["vec"] > 1 else "")
                                      for a in md["args"]] for md in mk["ks"]]}
    return results


def _work(chunk):
    core.setup_psyclone_env()
    tmp = core.mktemp("pv-c21w-")
    out = []
    try:
        for kind, ident, item in chunk:
            if kind == "s":
                out.append(_one(item, ident, tmp))
            else:
                out.extend(_multi(item, ident, tmp))
    finally:
        shutil.rmtree(tmp, ignore_errors=True)
    return out


# ---------------------------------------------------------- finding matchers
def _kind(md):
    args = md["args"]
    if any(a["mesh"] != "none" for a in args):
        return "intergrid"
    if any(a["t"] == "cma" for a in args):
        if all(a["t"] in ("cma", "scalar") for a in args):
            return "matrix-matrix"
        if any(a["t"] == "cma" and a["acc"] != "read" for a in args):
            return "assembly"
        return "apply"
    return md["on"]


def _roles(detail):
    return detail["ew"].split(":", 3), detail["gw"].split(":", 3)


def m_xory1d_direction(case, clause, detail, finding):
    '''documented: stencil dofmap, then direction; generated: direction, then
    dofmap - both generators, same XORY1D argument.'''
    if clause not in ("StubFollowsDoc", "CallFollowsDoc"):
        return False
    ew, gw = _roles(detail)
    if {ew[0], gw[0]} != {"stencil_dofmap", "direction"} or ew[1] != gw[1]:
        return False
    arg = case["md"]["args"][int(ew[1]) - 1]
    return arg["st"] == "xory1d" and detail["f"] == "w"


def m_refel_normals_real(case, clause, detail, finding):
    '''documented: integer(i_def) normals arrays; generated: real(r_def).'''
    if clause not in ("StubFollowsDoc", "CallFollowsDoc"):
        return False
    ew, gw = _roles(detail)
    return (ew[0] == "refel" and ew == gw and detail["f"] == "ty"
            and detail["exp"] == "integer" and detail["got"] == "real")


def m_funcs_order(case, clause, detail, finding):
    '''documented: basis/diff-basis in the order of the func_type entry;
    generated: basis always before diff-basis (same space, same shape/target).'''
    if clause not in ("StubFollowsDoc", "CallFollowsDoc"):
        return False
    ew, gw = _roles(detail)
    if {ew[0], gw[0]} != {"basis", "diff_basis"} or detail["f"] != "w":
        return False
    if ew[2] != gw[2]:
        return False
    fn = [f for f in case["md"]["funcs"] if f["fs"] == ew[2]]
    return bool(fn) and fn[0]["ops"] == ["diff", "basis"]


def m_domain_whole_dofmap(case, clause, detail, finding):
    '''domain kernels get the whole (rank-2) dofmap; the guide refers to the
    general-purpose rule (rank 1).'''
    ew, gw = _roles(detail)
    return (clause == "CallFollowsDoc" and _kind(case["md"]) == "domain"
            and ew[0] == "map" and ew == gw and detail["f"] == "r"
            and detail["exp"] == "1" and detail["got"] == "2")


def m_cma_assembly_ncell3d(case, clause, detail, finding):
    '''CMA assembly: the guide passes ncell_3d once as the fourth argument
    (rule 4) and an LMA operator as its array only; both generators pass
    <op>_ncell_3d before every LMA operator as in general-purpose kernels.
    Every position from the fourth up to the last LMA operator may be
    shifted by this, nothing else.'''
    if clause not in ("StubFollowsDoc", "CallFollowsDoc"):
        return False
    if _kind(case["md"]) != "assembly":
        return False
    nlma = sum(1 for a in case["md"]["args"] if a["t"] == "op")
    if detail["f"] == "count":
        return int(detail["got"]) - int(detail["exp"]) == nlma - 1
    got = case["stub" if clause == "StubFollowsDoc" else "call"]
    last_op = max(i for i, r in enumerate(got, 1) if r.startswith("op:"))
    return 4 <= detail["pos"] <= last_op and detail["f"] in ("w", "a")


def m_cma_apply_indirection(case, clause, detail, finding):
    '''CMA application: the guide passes the indirection maps last (rules
    5, 6: to-space, then from-space); both generators pass each one right
    after the dofmap of its function space.'''
    if clause not in ("StubFollowsDoc", "CallFollowsDoc"):
        return False
    if _kind(case["md"]) != "apply" or detail["f"] not in ("w", "fs"):
        return False
    ew, gw = _roles(detail)
    maps = {"cma_indirection_map", "ndf", "undf", "map"}
    got = case["stub" if clause == "StubFollowsDoc" else "call"]
    first = min(i for i, r in enumerate(got, 1) if r.startswith("ndf:"))
    return (ew[0] in maps and gw[0] in maps and detail["pos"] > first
            and "cma_indirection_map" in [r.split(":")[0] for r in got])


def m_eval_before_quadrature(case, clause, detail, finding):
    '''gh_shape lists gh_evaluator before a quadrature shape: the call passes
    all quadrature basis arrays before the evaluator ones, stub and guide
    follow gh_shape order.'''
    shapes = case["md"]["shapes"]
    if "evaluator" not in shapes:
        return False
    if not any(s != "evaluator" for s in shapes[shapes.index("evaluator") + 1:]):
        return False
    if clause not in ("CallMatchesStub", "CallFollowsDoc",
                      "PsyirCallMatchesStub"):
        return False
    ew, gw = _roles(detail)
    return (ew[0] in ("basis", "diff_basis") and ew[0] == gw[0]
            and ew[2] == gw[2] and ew[3] != gw[3])


def m_stub_stencil_size_rank(case, clause, detail, finding):
    '''kernel with a CROSS2D stencil and another stencil: the stub declares
    every stencil size with the rank of the first stencil argument.'''
    if clause not in ("CallMatchesStub", "StubFollowsDoc",
                      "PsyirCallMatchesStub"):
        return False
    sten = [a["st"] for a in case["md"]["args"] if a["st"] != "none"]
    if "cross2d" not in sten or all(s == "cross2d" for s in sten):
        return False
    ew, gw = _roles(detail)
    if not (ew[0] == "stencil_size" and ew == gw and detail["f"] == "r"):
        return False
    first2d = sten[0] == "cross2d"
    stub_rank = detail["got"] if clause == "StubFollowsDoc" else detail["exp"]
    return stub_rank == ("1" if first2d else "0")


def m_nfaces_re_h_undeclared(case, clause, detail, finding):
    '''adjacent_face plus reference-element properties none of which is
    horizontal: the PSy layer passes nfaces_re_h without declaring it.'''
    md = case["md"]
    if "adjacent_face" not in md["mesh"] or not md["refel"]:
        return False
    if any("horizontal" in p for p in md["refel"]):
        return False
    if clause not in ("CallMatchesStub", "CallFollowsDoc"):
        return False
    ew, gw = _roles(detail)
    return (gw[0] == "nfaces_re_h" and ew == gw and detail["f"] == "ty"
            and detail["got"] == "undeclared")


def m_cma_ncol_symbol_missing(case, clause, detail, finding):
    '''PSy-layer generation crashes: the same column-wise operator goes first
    to a kernel that declares it on one space (to == from) and later to a
    kernel that declares it on two different spaces; DynCMAOperators creates
    the <op>_ncol symbol only from the first use.'''
    if clause != "CallGenerated":
        return False
    if not re.search(r"Could not find the tag '\w+:ncol:cma_matrix'",
                     detail.get("error", "")):
        return False
    inv = case.get("invoke")
    if not isinstance(inv, dict):
        return False
    uses = {}
    for kern, act in zip(inv["kernels"], inv["act"]):
        for desc, ident in zip(kern, act):
            part = desc.split(":")
            if part[0] == "cma":
                uses.setdefault(ident, []).append(part[2] == part[3])
    return any(sq[0] and not all(sq) for sq in uses.values())


MATCHERS = {
    "c21_cma_ncol_symbol_missing": m_cma_ncol_symbol_missing,
    "c21_xory1d_direction_before_dofmap": m_xory1d_direction,
    "c21_refel_normals_real": m_refel_normals_real,
    "c21_funcs_basis_before_diff": m_funcs_order,
    "c21_domain_whole_dofmap": m_domain_whole_dofmap,
    "c21_cma_assembly_ncell3d": m_cma_assembly_ncell3d,
    "c21_cma_apply_indirection_map": m_cma_apply_indirection,
    "c21_evaluator_before_quadrature": m_eval_before_quadrature,
    "c21_stub_stencil_size_rank": m_stub_stencil_size_rank,
    "c21_nfaces_re_h_undeclared": m_nfaces_re_h_undeclared,
}


# ----------------------------------------------------------------- the check
def enumerate_metadata(tier, cov):
    cfg = {"quick": "LFRicArgOrder_gen_quick.cfg",
           "thorough": "LFRicArgOrder_gen_thorough.cfg",
           "smoke": "LFRicArgOrder_gen_smoke.cfg"}[tier]
    res = core.run_tlc("LFRicArgOrder.tla", cfg, check=False, timeout=3000,
                       workers=_procs())
    if res.invariant_violated or res.error:
        raise core.MachineryError("LFRicArgOrder.tla does not satisfy its own "
                                  "invariants: "
                                  + str(res.invariant_violated or res.error))
    mds = res.printed("MD")
    mks = res.printed("MK")
    if len(mds) + len(mks) != res.distinct or not mds:   # every state printed once
        raise core.MachineryError(f"metadata enumeration: {len(mds)}+{len(mks)} "
                                  f"printed, {res.distinct} states")
    cov["states"] += res.distinct
    cov["transitions"] += res.generated
    cov["model_states"] = res.distinct
    stride = int(os.environ.get("PV_C21_STRIDE", "1"))     # development aid
    mds = [m for _, m in sorted((json.dumps(m, sort_keys=True), m)
                                for m in mds)][::stride]
    mks = [m for _, m in sorted((json.dumps(m, sort_keys=True), m)
                                for m in mks)][::stride]
    return mds, mks


def decide(cases, tmp, cov, workers=None):
    '''TLC decides the clauses for the cases; returns the VERDICT records.'''
    path = os.path.join(tmp, "cases.json")
    slim = [{k: c[k] for k in ("id", "md", "hs", "stub", "hc", "call", "hp",
                               "pcall")}
            for c in cases]
    with open(path, "w") as f:
        json.dump(slim, f, separators=(",", ":"))
    res = core.run_tlc("Trace_LFRicArgOrder.tla", "Trace_LFRicArgOrder.cfg",
                       env={"PV_CASES": path}, timeout=3000,
                       workers=workers or _procs())
    cov["states"] += res.distinct
    cov["transitions"] += res.generated
    if res.distinct != 2 * len(cases):
        raise core.MachineryError(
            f"C21 trace validation did not consume every case: {res.distinct} "
            f"states, expected {2 * len(cases)}")
    return res.printed("VERDICT")


def run(tier):
    core.setup_psyclone_env()
    out = core.Outcome(PROP, tier, "model_checking", matchers=MATCHERS)
    cov = {"states": 0, "transitions": 0, "traces_validated_against_impl": 0,
           "samples": [], "exhaustive": True}
    mds, mks = enumerate_metadata(tier, cov)
    jobs = ([("m", n, mk) for n, mk in enumerate(mks, 1)]
            + [("s", i, md) for i, md in enumerate(mds, 1)])
    nchunk = max(1, min(len(jobs), core.NCPU * 6))
    chunks = [jobs[i::nchunk] for i in range(nchunk)]
    cases = [c for part in core.pool_map(_work, chunks, procs=_procs(),
                                         chunksize=1) for c in part]
    cases.sort(key=lambda c: c["id"])
    tmp = core.mktemp("pv-c21-")
    try:
        verdicts = decide(cases, tmp, cov)
    finally:
        shutil.rmtree(tmp, ignore_errors=True)
    by_id = {c["id"]: c for c in cases}
    for v in verdicts:
        c = by_id[v["id"]]
        case = {"md": c["md"], "kind": _kind(c["md"]),
                "invoke": c.get("invoke", "single-kernel invoke"),
                "kernel": gen.kernel_text(c["md"], c["id"]).splitlines()[7:-8],
                "stub": [i["w"] + ":" + i["a"] + ":" + i["fs"] + ":" + i["x"]
                         for i in c["stub"]],
                "call": [i["w"] + ":" + i["a"] + ":" + i["fs"] + ":" + i["x"]
                         for i in c["call"]]}
        out.violation(case, v["v"], v["w"])
    # a generation that ends in an internal error (neither a product nor a
    # refusal) is reported per invoke
    for c in cases:
        if "call_crashed" in c["notes"]:
            case = {"md": c["md"], "kind": _kind(c["md"]),
                    "invoke": c.get("invoke", "single-kernel invoke")}
            out.violation(case, "CallGenerated",
                          {"error": c["notes"]["call_crashed"]})
    # ------------------------------------------------------------- evidence
    n = len(cases)
    unsupported = [c for c in cases if "stub_unsupported" in c["notes"]
                   or "call_unsupported" in c["notes"]
                   or "psyir_unsupported" in c["notes"]]
    both = sum(1 for c in cases if c["hs"] and c["hc"])
    kinds = {}
    for c in cases:
        kinds[_kind(c["md"])] = kinds.get(_kind(c["md"]), 0) + 1
    cov["traces_validated_against_impl"] = sum(c["hs"] + c["hc"] + c["hp"]
                                               for c in cases)
    cov["evaluations"] = n
    cov["distinct_nontrivial"] = both
    cov["metadata"] = len(mds)
    cov["multi_kernel_invokes"] = len(mks)
    cov["multi_kernel_calls"] = sum(1 for c in cases if "invoke" in c)
    cov["kernel_calls"] = n
    cov["call_and_stub"] = both
    cov["stub_refused"] = sum(1 for c in cases if "stub_refused" in c["notes"])
    cov["call_refused"] = sum(1 for c in cases if "call_refused" in c["notes"])
    cov["invokes_crashed"] = sum(1 for c in cases if "call_crashed" in c["notes"])
    cov["unsupported"] = len(unsupported)
    cov["divergences"] = 0
    cov["positions_compared"] = sum(len(c["call"]) + len(c["stub"])
                                    + len(c["pcall"]) for c in cases)
    cov["psyir_arglists"] = sum(1 for c in cases if c["hp"])
    cov["failing_positions"] = len(verdicts)
    cov["kernel_kinds"] = kinds
    cov["refusal_samples"] = sorted({
        k + ": " + re.sub(r"c21k\d+", "c21kN", c["notes"][k])[:150]
        for c in cases for k in ("stub_refused", "call_refused")
        if k in c["notes"]})[:12]
    cov["unsupported_samples"] = [
        {"md": c["md"], "notes": c["notes"]} for c in unsupported[:5]]
    cov["rule"] = ("every metadata record of MdSetOf(tier) (LFRicArgOrder.tla, "
                   "enumerated by TLC) is one case: a real kernel module and "
                   "algorithm are generated from it, the real stub generator "
                   "and PSy-layer generator are run, and TLC compares both "
                   "itemised argument lists with each other and with Args(md)")
    for c in cases[::max(1, n // 3)][:3]:
        cov["samples"].append({"md": c["md"],
                               "stub": [i["w"] for i in c["stub"]],
                               "call": [i["w"] for i in c["call"]]})
    if n and len(unsupported) > 0.2 * n:
        raise core.MachineryError(f"C21: {len(unsupported)} of {n} cases could "
                                  "not be itemised")
    if both < 0.5 * n:
        raise core.MachineryError(f"C21: only {both} of {n} metadata produced "
                                  "both a stub and a call")
    return out.finish(cov, assumptions=[
        "the generated algorithm declares default-precision data (field_type, "
        "integer_field_type, operator_type, columnwise_operator_type, r_def/"
        "i_def/l_def scalars), so kinds are compared; mixed precision is a "
        "parameter of the algorithm layer (user guide) and not explored",
        "stencil extents are never given in metadata (user guide: not possible)",
        "the three reference-element face counts may come in any order (the "
        "guide does not order them)",
        "a field vector with a stencil gets one set of stencil arguments after "
        "its components",
        "the stub generator refuses domain and inter-grid kernels: only the "
        "call is compared with the documented list there",
        "distributed_memory=False PSy layers (the kernel call arguments do not "
        "depend on it)"])
