'''C25 helper: turns one element of the TLA+ family (GOceanRegion!Family: an
invoke = kernels with offset / point type / iteration space, plus histories)
into real GOcean algorithm + kernel files (+ a config file for user-defined
iteration spaces), builds the real schedule, applies the real transformations,
generates the PSy layer and exports the generated loop nests as pv-ast for
Trace_GOceanRegion.tla.'''
import json
import os

from pv.export import Exporter, Unsupported

MOD = "c25k_mod"
KNAMES = ["ka", "kb", "kc"]
META_PT = {"go_cu": "GO_CU", "go_cv": "GO_CV", "go_ct": "GO_CT", "go_cf": "GO_CF",
           "go_every": "GO_EVERY"}
META_OFF = {"go_offset_sw": "GO_OFFSET_SW", "go_offset_ne": "GO_OFFSET_NE",
            "go_offset_any": "GO_OFFSET_ANY"}
META_SP = {"go_internal_pts": "GO_INTERNAL_PTS", "go_all_pts": "GO_ALL_PTS"}
FIELD_TYPES = ["go_ct", "go_cu", "go_cv", "go_cf"]


# ------------------------------------------------------------ source rendering
def term_text(tm, style):
    '''Text of the bound  cs*{start} + ce*{stop} + c  as a user would write it
    in the configuration file (style varies the spelling only).'''
    parts = []
    for coef, name in ((tm["cs"], "{start}"), (tm["ce"], "{stop}")):
        if coef == 0:
            continue
        mag = name if abs(coef) == 1 else f"{abs(coef)}*{name}"
        parts.append(("-" if coef < 0 else "+", mag))
    if tm["c"] != 0 or not parts:
        parts.append(("-" if tm["c"] < 0 else "+", str(abs(tm["c"]))))
    if style % 3 == 2 and len(parts) > 1 and parts[-1][0] == "+":
        parts = [parts[-1]] + parts[:-1]            # "1+{stop}"
    if parts[0][0] == "-":                          # no leading unary minus
        for k, p in enumerate(parts):
            if p[0] == "+":
                parts = [p] + parts[:k] + parts[k + 1:]
                break
    sep = " " if style % 3 == 1 else ""
    text = ""
    for k, (sign, mag) in enumerate(parts):
        if k == 0:
            text = ("-" if sign == "-" else "") + mag
        else:
            text += sep + sign + sep + mag
    return text


def is_builtin(sp):
    return sp["name"] in META_SP


def fields_of(desc):
    '''Field names and point types: kernel k writes f(2k+1) and reads f(2k+2);
    fields of a GO_EVERY kernel cycle through the four types.'''
    out = []
    for k, kern in enumerate(desc["kernels"]):
        for r in range(2):
            pt = kern["pt"]
            if pt == "go_every":
                pt = FIELD_TYPES[(2 * k + r + 1) % 4]
            out.append({"name": f"f{2 * k + r + 1}", "pt": pt})
    return out


def kernel_labels(desc):
    return [f"{KNAMES[k]}_code(f{2 * k + 1},f{2 * k + 2})"
            for k in range(len(desc["kernels"]))]


def kern_src(desc):
    out = [f"module {MOD}", "  use argument_mod", "  use field_mod", "  use grid_mod",
           "  use kernel_mod", "  use kind_params_mod", "  implicit none"]
    for k, kern in enumerate(desc["kernels"]):
        nm = KNAMES[k]
        sp = kern["sp"]
        out += [f"  type, extends(kernel_type) :: {nm}",
                "     type(go_arg), dimension(2) :: meta_args = &",
                f"          (/ go_arg(GO_WRITE, {META_PT[kern['pt']]}, GO_POINTWISE), &",
                f"             go_arg(GO_READ,  {META_PT[kern['pt']]}, GO_POINTWISE) /)",
                f"     integer :: ITERATES_OVER = {META_SP.get(sp['name'], sp['name'])}",
                f"     integer :: index_offset = {META_OFF[kern['off']]}",
                "  contains",
                f"    procedure, nopass :: code => {nm}_code",
                f"  end type {nm}"]
    out.append("contains")
    for k, kern in enumerate(desc["kernels"]):
        nm = KNAMES[k]
        out += [f"  subroutine {nm}_code(ji, jj, output, input)",
                "    implicit none",
                "    integer, intent(in) :: ji, jj",
                "    real(go_wp), dimension(:,:), intent(in) :: input",
                "    real(go_wp), dimension(:,:), intent(out) :: output",
                "    output(ji,jj) = input(ji,jj)",
                f"  end subroutine {nm}_code"]
    out.append(f"end module {MOD}")
    return "\n".join(out) + "\n"


def alg_src(desc):
    n = len(desc["kernels"])
    flds = [f["name"] for f in fields_of(desc)]
    calls = [f"{KNAMES[k]}(f{2 * k + 1}, f{2 * k + 2})" for k in range(n)]
    out = ["program alg", "  use kind_params_mod", "  use grid_mod", "  use field_mod",
           f"  use {MOD}, only: " + ", ".join(KNAMES[:n]), "  implicit none",
           "  type(r2d_field) :: " + ", ".join(flds),
           "  call invoke( " + ", &\n               ".join(calls) + " )",
           "end program alg"]
    return "\n".join(out) + "\n"


def steps_of(desc):
    '''The configuration files of an element: its `steps` (lists of lines
    {off, pt, sp}) or, for the single-configuration families, one file with
    the user-defined spaces of its kernels.'''
    if desc.get("steps"):
        return [list(st) for st in desc["steps"]]
    lines, seen = [], set()
    for kern in desc["kernels"]:
        key = (kern["off"], kern["pt"], kern["sp"]["name"])
        if is_builtin(kern["sp"]) or key in seen:
            continue
        seen.add(key)
        lines.append({"off": kern["off"], "pt": kern["pt"], "sp": kern["sp"]})
    return [lines]


def line_text(line, style):
    sp = line["sp"]
    return ":".join([line["off"], line["pt"], sp["name"]] +
                    [term_text(sp[b], style) for b in ("os", "oe", "is", "ie")])


def iteration_space_lines(desc, style):
    '''Configuration-file lines of the (first) configuration of the invoke.'''
    return [line_text(ln, style) for ln in steps_of(desc)[0]]


def config_text(base_cfg, lines):
    '''The distributed psyclone.cfg with an iteration-spaces key added to the
    [gocean] section.'''
    text = open(base_cfg).read()
    if not lines:
        return text
    entry = "iteration-spaces = " + ("\n" + " " * 19).join(lines) + "\n"
    head, sep, tail = text.partition("[gocean]\n")
    if not sep:
        raise RuntimeError("no [gocean] section in " + base_cfg)
    return head + sep + entry + tail


def load_config(path, fresh=True):
    '''Load the PSyclone configuration from path.  fresh: start of a history -
    forget the process-wide bounds table the way the repository's tests do
    (GOLoop._bounds_lookup = {}).  Otherwise only the Config singleton is
    replaced, as when a second configuration file is loaded in one process.'''
    from psyclone.configuration import Config
    from psyclone.gocean1p0 import GOLoop
    from psyclone.domain.gocean import GOceanConstants
    if fresh:
        GOLoop._bounds_lookup = {}                   # pylint: disable=protected-access
        GOceanConstants.HAS_BEEN_INITIALISED = False
    Config._instance = None                          # pylint: disable=protected-access
    Config.get(do_not_load_file=True).load(path)
    return Config.get()


# ---------------------------------------------------------------- histories
def _outer_loops(sched):
    from psyclone.gocean1p0 import GOLoop
    return [l for l in sched.walk(GOLoop) if l.loop_type == "outer"]


def _top(sched, node):
    while node.parent is not sched:
        node = node.parent
    return node


def apply_op(sched, op):
    '''Apply one history operation to the schedule with the real
    transformations (raises TransformationError when PSyclone refuses).'''
    from psyclone import transformations as T
    from psyclone.domain.gocean import transformations as G
    from psyclone.gocean1p0 import GOKern
    from psyclone.psyir.transformations import ACCKernelsTrans
    if op in ("FUSE", "FUSEO"):
        outer = _outer_loops(sched)
        if len(outer) < 2:
            raise T.TransformationError("C25: nothing to fuse")
        fuse = G.GOceanLoopFuseTrans()
        fuse.apply(outer[0], outer[1])
        if op == "FUSE":
            body = outer[0].loop_body
            fuse.apply(body[0], body[1])
    elif op == "OMP":
        for loop in _outer_loops(sched):
            T.GOceanOMPParallelLoopTrans().apply(loop)
    elif op == "OMPL":
        tops = []
        for loop in _outer_loops(sched):
            top = _top(sched, loop)
            if top not in tops:
                tops.append(top)
        lo, hi = tops[0].position, tops[-1].position
        for loop in _outer_loops(sched):
            T.GOceanOMPLoopTrans().apply(loop)
        T.OMPParallelTrans().apply(sched.children[lo:hi + 1])
    elif op == "ACC":
        for loop in _outer_loops(sched):
            T.ACCLoopTrans().apply(loop)
            T.ACCParallelTrans().apply(loop.parent.parent)
        T.ACCEnterDataTrans().apply(sched)
    elif op == "ACCK":
        for loop in _outer_loops(sched):
            ACCKernelsTrans().apply(_top(sched, loop) if loop.parent is sched else loop)
    elif op == "EXT":
        G.GOceanExtractTrans().apply(_top(sched, _outer_loops(sched)[0]))
    elif op == "CLB":
        G.GOConstLoopBoundsTrans().apply(sched)
    elif op in ("MOVE1", "MOVE2"):
        kerns = sched.walk(GOKern)
        idx = int(op[-1]) - 1
        if idx >= len(kerns):
            raise T.TransformationError("C25: no such kernel")
        G.GOMoveIterationBoundariesInsideKernelTrans().apply(kerns[idx])
    else:
        raise ValueError(op)


# ------------------------------------------------------------------- export
def _member_name(node):
    '''"f1%internal%xstart" for a StructureReference.'''
    from psyclone.psyir import nodes as N
    parts = [node.symbol.name.lower()]
    cur = node.member
    while True:
        if isinstance(cur, (N.ArrayMember, N.ArrayOfStructuresMember)):
            raise Unsupported("array member in structure reference")
        parts.append(cur.name.lower())
        if isinstance(cur, N.StructureMember):
            cur = cur.member
        else:
            break
    return "%".join(parts)


class _Ctx:
    '''Export context of one generated invoke: the kernel call sites recorded
    before lowering (label, mask statements of the kernel body).'''

    def __init__(self, sites):
        self.sites = sites
        self.next = 0
        self.subs = {}


def _hooks(ctx):
    from psyclone.psyir import nodes as N

    def structure_reference(ex, node):
        return {"k": "ref", "name": _member_name(node)}

    def intrinsic(ex, node):
        if node.intrinsic.name.upper() == "SIZE" and len(node.arguments) == 2 and \
                isinstance(node.arguments[0], N.StructureReference):
            dim = node.arguments[1]
            if not isinstance(dim, N.Literal):
                raise Unsupported("SIZE with non-literal dim")
            return {"k": "ref",
                    "name": _member_name(node.arguments[0]) + "%size" + dim.value}
        return ex.icall(node)

    def call(ex, node):
        if ctx.next >= len(ctx.sites):
            raise Unsupported("more calls than kernels")
        site = ctx.sites[ctx.next]
        ctx.next += 1
        if node.routine.name.lower() != site["routine"]:
            raise Unsupported(f"call to {node.routine.name}, expected {site['routine']}")
        args = node.arguments
        fields = [a.symbol.name.lower() for a in args
                  if isinstance(a, N.StructureReference)]
        label = f"{site['routine']}({','.join(fields)})"
        scal = [k for k, a in enumerate(args)
                if not isinstance(a, N.StructureReference)]
        if site["formals"] is not None:
            if len(args) != len(site["formals"]):
                raise Unsupported("kernel call and kernel dummy lists differ in length")
            for k in scal:
                if site["formals"][k][1] != "i":
                    raise Unsupported("scalar actual for non-integer dummy")
        if not site["masks"]:
            if len(scal) != 2:
                raise Unsupported("extra scalar arguments without a kernel mask")
            return {"k": "kern", "name": label, "args": [ex.expr(args[k]) for k in scal]}
        sub = f"{site['routine']}@{ctx.next}"
        idx = site["formals"][0][0], site["formals"][1][0]
        ctx.subs[sub] = {
            "formals": [{"name": site["formals"][k][0], "ty": "i", "lo": [], "rank": 0}
                        for k in scal],
            "locals": [],
            "body": site["masks"] + [{"k": "kern", "name": label,
                                      "args": [{"k": "ref", "name": idx[0]},
                                               {"k": "ref", "name": idx[1]}]}]}
        return {"k": "call", "name": sub, "args": [ex.expr(args[k]) for k in scal]}

    def codeblock(ex, node):
        text = " ".join(str(a) for a in node.get_ast_nodes).lower()
        if "psy_data" in text and text.lstrip().startswith("call "):
            return None                      # PSyData (extraction) library call
        if "read_from_device" in text:
            return None                      # OpenACC pointer set-up
        raise Unsupported("code block: " + text[:40])

    def assignment(ex, node):
        if isinstance(node.lhs, N.StructureReference):
            if _member_name(node.lhs).endswith("%data_on_device"):
                return None
            raise Unsupported("assignment to " + _member_name(node.lhs))
        return {"k": "assign", "lhs": ex.expr(node.lhs), "rhs": ex.expr(node.rhs)}

    def directive(ex, node):
        # serial semantics of a directive = its body, in place (so that programs
        # differing only in directives are the same pv-ast and evaluated once)
        return ex.body(node.dir_body)

    def standalone(ex, node):
        return None

    hooks = {"StructureReference": structure_reference, "IntrinsicCall": intrinsic,
             "Call": call, "CodeBlock": codeblock, "Assignment": assignment}
    for nm in ("OMPParallelDoDirective", "OMPParallelDirective", "OMPDoDirective",
               "GOceanOMPParallelDoDirective", "ACCParallelDirective",
               "ACCLoopDirective", "ACCKernelsDirective"):
        hooks[nm] = directive
    for nm in ("GOACCEnterDataDirective", "ACCEnterDataDirective"):
        hooks[nm] = standalone
    return hooks


def _kernel_sites(sched):
    '''Per kernel call (in tree order, before lowering): routine name, dummy
    arguments of the (possibly transformed) kernel and its leading
    `IF (mask) RETURN` statements.'''
    from psyclone.gocean1p0 import GOKern
    from psyclone.psyir import nodes as N
    from psyclone.psyir import symbols as S
    sites = []
    for kern in sched.walk(GOKern):
        # pylint: disable=protected-access
        if getattr(kern, "_kern_schedule", None) is None and len(kern.arguments.args) == 2:
            # untouched kernel (parsing it costs 0.2 s): dummies are (i, j, fields)
            sites.append({"routine": kern.name.lower(), "formals": None, "masks": []})
            continue
        ksched = kern.get_kernel_schedule()
        formals = []
        for sym in ksched.symbol_table.argument_list:
            dt = sym.datatype
            ty = "a"
            if isinstance(dt, S.ScalarType):
                ty = "i" if dt.intrinsic == S.ScalarType.Intrinsic.INTEGER else "r"
            formals.append((sym.name.lower(), ty))
        masks = []
        ex = Exporter()
        for child in ksched.children:
            if isinstance(child, N.IfBlock) and len(child.if_body.children) == 1 and \
                    isinstance(child.if_body.children[0], N.Return) and not child.else_body:
                masks.append(ex.stmt(child))
            else:
                break
        sites.append({"routine": kern.name.lower(), "formals": formals, "masks": masks})
    return sites


def _names(obj, out):
    if isinstance(obj, dict):
        if obj.get("k") == "ref":
            out.add(obj["name"])
        if obj.get("k") == "loop":
            out.add(obj["var"])
        for v in obj.values():
            _names(v, out)
    elif isinstance(obj, list):
        for v in obj:
            _names(v, out)


def export_invoke(psy):
    '''Generate the PSy layer (lowers the schedule in place) and export the
    invoke's loop nests.  Returns (prog, generated text).'''
    sched = psy.invokes.invoke_list[0].schedule
    sites = _kernel_sites(sched)
    text = str(psy.gen)
    ctx = _Ctx(sites)
    ex = Exporter(hooks=_hooks(ctx))
    body = ex.body(sched)
    if ctx.next != len(sites):
        raise Unsupported("kernel calls lost in the generated code")
    names = set()
    _names(body, names)
    prog = {"body": body,
            "subs": ctx.subs or {"#none": {"formals": [], "locals": [], "body": []}},
            "locals": sorted(n for n in names if "%" not in n),
            "members": sorted(n for n in names if "%" in n)}
    return prog, text


# ------------------------------------------------------------ one TLC case
def build_case(args):
    '''(case id, family element, work dir, style) -> case record for
    Trace_GOceanRegion.tla + bookkeeping.  Runs in a worker process.'''
    cid, desc, workdir, style = args
    from psyclone.configuration import Config
    from psyclone.errors import GenerationError
    from psyclone.parse.algorithm import parse
    from psyclone.parse.utils import ParseError
    from psyclone.psyGen import PSyFactory
    from psyclone.psyir.transformations import TransformationError
    from pv import core
    os.makedirs(workdir, exist_ok=True)
    with open(os.path.join(workdir, MOD + ".f90"), "w") as f:
        f.write(kern_src(desc))
    with open(os.path.join(workdir, "alg.f90"), "w") as f:
        f.write(alg_src(desc))
    steps = steps_of(desc)
    rec = {"id": cid, "desc": desc, "progs": [], "status": [], "texts": {},
           "config_lines": [[line_text(ln, style + n) for ln in st]
                            for n, st in enumerate(steps)]}
    base_cfg = os.path.join(core.REPO, "config", "psyclone.cfg")
    hists = [[]] + sorted(desc["hists"])
    for n, lines in enumerate(rec["config_lines"]):
        step = n + 1
        tag = f"@{step}" if len(steps) > 1 else ""
        cfg = os.path.join(workdir, f"psyclone{step}.cfg")
        with open(cfg, "w") as f:
            f.write(config_text(base_cfg, lines))
        try:
            load_config(cfg, fresh=(n == 0))
            Config.get().kernel_output_dir = workdir
            _, info = parse(os.path.join(workdir, "alg.f90"), api="gocean1.0",
                            kernel_paths=[workdir])
        except Exception as err:   # noqa - PSyclone refuses the input itself
            # (a space name no configuration has defined yet is a refusal)
            rec["status"].append({"hist": [], "step": step,
                                  "st": "refused" if len(steps) > 1 else "input_refused",
                                  "why": f"{type(err).__name__}: {err}"[:300]})
            continue
        for hist in hists:
            st = {"hist": hist, "step": step, "st": "ok"}
            try:
                psy = PSyFactory("gocean1.0", distributed_memory=False).create(info)
                sched = psy.invokes.invoke_list[0].schedule
                for op in hist:
                    apply_op(sched, op)
                prog, text = export_invoke(psy)
                prog["hist"] = hist
                prog["clb"] = "CLB" in hist
                prog["step"] = step
                prog["isbase"] = not hist
                prog["tag"] = ("+".join(hist) + tag) if (hist or tag) else ""
                rec["progs"].append(prog)
                if not hist or len(rec["texts"]) < 3 or len(steps) > 1:
                    rec["texts"][prog["tag"] or "baseline"] = text
            except TransformationError as err:
                st.update(st="refused", why=str(err.value)[:200])
            except (GenerationError, ParseError) as err:
                st.update(st="gen_refused", why=str(err)[:200])
            except Unsupported as err:
                st.update(st="unsupported", why=str(err)[:200])
            except Exception as err:   # noqa - internal error of PSyclone
                st.update(st="crash", why=f"{type(err).__name__}: {err}"[:300])
            rec["status"].append(st)
            if not hist and st["st"] != "ok":
                break                        # no baseline: nothing to compare with
    return rec


def tlc_case(rec):
    '''The part of a case record TLC reads.  Histories whose generated loop
    nests are the same pv-ast are evaluated once (`hist` lists them all).'''
    desc = rec["desc"]
    labels = kernel_labels(desc)
    offs = {k["off"] for k in desc["kernels"]} - {"go_offset_any"}
    progs, index = [], {}
    for p in rec["progs"]:
        key = dumps([p["body"], p["subs"], p["clb"], p["step"]])
        if key in index and not p["isbase"]:
            progs[index[key]]["hists"].append(p["tag"])
            continue
        index.setdefault(key, len(progs))
        progs.append({"body": p["body"], "subs": p["subs"], "locals": p["locals"],
                      "members": p["members"], "clb": p["clb"], "step": p["step"],
                      "isbase": p["isbase"], "hist": p["tag"], "hists": [p["tag"]]})
    return {"id": rec["id"],
            "kernels": [{"off": k["off"], "pt": k["pt"], "sp": k["sp"], "label": labels[n]}
                        for n, k in enumerate(desc["kernels"])],
            "fields": fields_of(desc),
            "steps": steps_of(desc),
            "goffs": sorted(offs) if offs else ["go_offset_ne", "go_offset_sw"],
            "progs": progs}


def dumps(obj):
    return json.dumps(obj, separators=(",", ":"))
