'''verif setup: check the tools, SANY-parse every specification module.'''
import glob
import os
import shutil
import subprocess
import sys

from pv import core


def run():
    ok = True
    for tool in ("java", "timeout"):
        if not shutil.which(tool):
            print("missing tool:", tool)
            ok = False
    for path in ("/opt/veriftools/tla/tla2tools.jar", "/venv/bin/python",
                 os.path.join(core.REPO, "src", "psyclone")):
        if not os.path.exists(path):
            print("missing:", path)
            ok = False
    os.makedirs(core.EVID, exist_ok=True)
    os.makedirs(core.REPLAYS, exist_ok=True)
    mods = sorted(glob.glob(os.path.join(core.SPEC, "*.tla")))

    def sany(m):
        p = subprocess.run(
            ["java", "-cp", "/opt/veriftools/tla/tla2tools.jar:"
             "/opt/veriftools/tla/CommunityModules-deps.jar", "tla2sany.SANY", m],
            cwd=core.SPEC, stdout=subprocess.PIPE, stderr=subprocess.STDOUT, text=True)
        good = p.returncode == 0 and "error" not in p.stdout.lower().replace(
            "semantic errors:\n\n", "")
        return m, good, p.stdout
    bad = []
    from concurrent.futures import ThreadPoolExecutor
    with ThreadPoolExecutor(8) as ex:
        for m, good, out in ex.map(sany, mods):
            if not good:
                # reported, not fatal: a check whose module is broken fails by itself
                print("WARNING: SANY failed on", m)
                print(out[-800:])
                bad.append(m)
    print(f"setup: {len(mods)} specification modules, {len(bad)} with SANY errors, "
          + ("ok" if ok else "FAILED"))
    return 0 if ok else 2
