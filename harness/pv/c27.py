'''C27 - module dependency sort.  ModuleSort.tla is model-checked (design level)
and every dependency map of the stated families is fed to the real
ModuleManager.sort_modules; the returned lists are validated by TLC against
ModuleSort!Pick (Trace_ModuleSort.tla).'''
import contextlib
import io
import json
import os
import random
import shutil

from pv import core


def _names(n):
    return [f"m{i}" for i in range(n)]


def _decode(code, n, w, selfdeps):
    names = _names(n)
    deps = {}
    for m in range(n):
        s = set()
        cols = list(range(n + 1)) if selfdeps else [j for j in range(n + 1) if j != m]
        for k, j in enumerate(cols):
            if k >= w:
                break
            if (code >> (m * w + k)) & 1:
                s.add(names[j] if j < n else "zz_unknown")
        deps[m] = s
    return deps


_FAM = None


def _work(chunk):
    '''Run the real sort for codes lo..hi-1 of the current family.'''
    from psyclone.parse import ModuleManager
    n, w, selfdeps, lo, hi, sd, stride = chunk
    mm = ModuleManager.get()
    names = _names(n)
    idx = {nm: i for i, nm in enumerate(names)}
    rnd = random.Random(sd * 1000003 + lo)
    out = []
    sink = io.StringIO()
    with contextlib.redirect_stdout(sink):
        for code in range(lo, hi, stride):
            d = _decode(code, n, w, selfdeps)
            order = list(range(n))
            if sd:
                rnd.shuffle(order)           # dict insertion order is an input too
            inp = {names[m]: set(d[m]) for m in order}
            snap = {k: set(v) for k, v in inp.items()}
            res = mm.sort_modules(inp)
            mut = int(inp != snap or list(inp) != [names[m] for m in order])
            item = [code, mut]
            for r in res:
                item.append(idx.get(r, 99) if isinstance(r, str) else 99)
            out.append(item)
            sink.seek(0)
            sink.truncate()
    return out


FAMILIES = {
    # name: (n, bits per row, self-deps allowed)
    "n4-self-unknown": (4, 5, True),     # 2^20 maps
    "n5-noself": (5, 4, False),          # 2^20 maps
    "n5-noself-unknown": (5, 5, False),  # 2^25 maps (thorough)
    "n3-self-unknown": (3, 4, True),     # 2^12
}


def _family(out, fam, tmp, codes_lo, codes_hi, cov, insertion_seed=0, stride=1):
    n, w, selfdeps = FAMILIES[fam]
    step = max(1, (codes_hi - codes_lo) // (core.NCPU * 4))
    step -= step % stride if step > stride else 0
    chunks = [(n, w, selfdeps, lo, min(lo + step, codes_hi), insertion_seed, stride)
              for lo in range(codes_lo, codes_hi, step)]
    items = [it for part in core.pool_map(_work, chunks, chunksize=1) for it in part]
    path = os.path.join(tmp, f"{fam}-{codes_lo}.json")
    with open(path, "w") as f:
        json.dump({"n": n, "w": w, "self": selfdeps, "items": items}, f,
                  separators=(",", ":"))
    res = core.run_tlc("Trace_ModuleSort.tla", "Trace_ModuleSort.cfg",
                       env={"PV_CASES": path}, timeout=3000)
    os.unlink(path)
    cov["states"] += res.distinct
    cov["transitions"] += res.generated
    cov["traces_validated_against_impl"] += len(items)
    bad = res.printed("VERDICT")
    # non-vacuity: an accepted case contributes len(res)+2 states (init, one per
    # Pick, final verdict state)
    expect = sum(len(it) - 2 + 2 for it in items)
    if not bad and res.distinct != expect:
        raise core.MachineryError(
            f"C27 trace validation did not consume every trace: "
            f"{res.distinct} states, expected {expect}")
    by_code = {it[0]: it for it in items}
    names = _names(n)
    for b in bad:
        it = by_code[b["id"]]
        d = _decode(it[0], n, w, selfdeps)
        case = {"family": fam, "code": it[0], "insertion_seed": insertion_seed,
                "map": {names[m]: sorted(v) for m, v in d.items()},
                "returned": [names[r] if r < n else "?" for r in it[2:]]}
        out.violation(case, b["v"], b["w"])
    cyc = sum(1 for it in items if len(it) > 2)
    if len(cov["samples"]) < 4 and items:
        it = items[len(items) // 3]
        d = _decode(it[0], n, w, selfdeps)
        cov["samples"].append({"family": fam,
                               "map": {names[m]: sorted(v) for m, v in d.items()},
                               "returned": [names[r] if r < n else "?" for r in it[2:]]})
    return len(items)


def run(tier):
    core.setup_psyclone_env()
    out = core.Outcome("C27", tier, "model_checking")
    cov = {"states": 0, "transitions": 0, "traces_validated_against_impl": 0,
           "samples": [], "exhaustive": True}
    # 1. design level: every Pick behaviour over every map satisfies the clauses
    cfg = "ModuleSort_quick.cfg" if tier == "quick" else "ModuleSort_thorough.cfg"
    res = core.run_tlc("ModuleSort.tla", cfg, check=False, coverage=(tier != "quick"))
    if res.invariant_violated or res.error:
        raise core.MachineryError("ModuleSort.tla does not satisfy its own "
                                  "invariants: " + str(res.invariant_violated or res.error))
    cov["states"] += res.distinct
    cov["transitions"] += res.generated
    cov["model_states"] = res.distinct
    tmp = core.mktemp("pv-c27-")
    try:
        total = 0
        total += _family(out, "n3-self-unknown", tmp, 0, 1 << 12, cov)
        total += _family(out, "n4-self-unknown", tmp, 0, 1 << 20, cov)
        if tier == "quick":
            # every 8th map of the 5-module family (offset by the seed)
            cov["exhaustive"] = False
            total += _family(out, "n5-noself", tmp, core.seed() % 8, 1 << 20, cov,
                             stride=8)
        if tier == "thorough":
            total += _family(out, "n5-noself", tmp, 0, 1 << 20, cov)
            # shuffled dict insertion orders for the two quick families
            total += _family(out, "n4-self-unknown", tmp, 0, 1 << 20, cov,
                             insertion_seed=core.seed() + 1)
            # every 4th of the 2^25 maps with an unknown name (offset by the seed): the full
            # family needs about an hour on 16 idle cores
            cov["exhaustive"] = False
            for lo in range(0, 1 << 25, 1 << 22):
                total += _family(out, "n5-noself-unknown", tmp, lo + core.seed() % 4,
                                 lo + (1 << 22), cov, stride=4)
    finally:
        shutil.rmtree(tmp, ignore_errors=True)
    cov["evaluations"] = total
    cov["distinct_nontrivial"] = total
    cov["rule"] = ("every dependency map of the listed families (bit-matrix codes "
                   "0..2^k-1) is a distinct case; each is fed to the real "
                   "sort_modules and its result validated step by step as Picks")
    return out.finish(cov, assumptions=[
        "dict insertion order m0..m(n-1) in the quick tier (shuffled orders in thorough)",
        "unknown dependency = one name that is not a key of the map"])
