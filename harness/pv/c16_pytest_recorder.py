'''C16, binding B - pytest plugin: run (a subset of) the repository's own
test-suite with the symbol-table recorder installed.

    SVALAT_PSYCLONE_VERIF=1 C16_TRACE_DIR=<dir> \
    PYTHONPATH=<repo>/src:/verif/harness:/verif/harness/pv \
    python -m pytest -p c16_pytest_recorder -q -n 8 <test dirs>

Each xdist worker writes `<C16_TRACE_DIR>/trace-<worker>.json` at the end (the
de-duplicated events with multiplicity and the first test that produced each).
Inactive (no patching at all) unless SVALAT_PSYCLONE_VERIF=1.
'''
import json
import os
import sys

_HERE = os.path.dirname(os.path.abspath(__file__))
if os.path.dirname(_HERE) not in sys.path:
    sys.path.append(os.path.dirname(_HERE))

_ACTIVE = os.environ.get("SVALAT_PSYCLONE_VERIF") == "1"
_REC = None


def pytest_configure(config):
    global _REC
    if not _ACTIVE:
        return
    from pv import c16_recorder
    _REC = c16_recorder.RECORDER
    _REC.install()


def pytest_runtest_setup(item):
    if _REC is not None:
        _REC.context = item.nodeid
        _REC.depth = 0


def pytest_runtest_teardown(item, nextitem):
    if _REC is not None:
        _REC.depth = 0


def pytest_sessionfinish(session, exitstatus):
    if _REC is None:
        return
    out = os.environ.get("C16_TRACE_DIR")
    if not out:
        return
    worker = os.environ.get("PYTEST_XDIST_WORKER", "main")
    if worker == "main" and not _REC.events and \
            getattr(session.config.option, "numprocesses", None):
        return                    # the xdist controller records nothing
    data = _REC.dump()
    data["worker"] = worker
    with open(os.path.join(out, f"trace-{worker}.json"), "w") as f:
        json.dump(data, f)
