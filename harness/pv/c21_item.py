'''C21 helper - itemises the two generated Fortran texts of one metadata case:
the kernel stub (dummy argument list + declarations) and the PSy layer (actual
arguments of the kernel call + declarations of those actuals).  Every item is
  {w, a, fs, x, ty, k, r, in}      (all strings, see LFRicArgOrder.tla)
An argument that cannot be classified raises Unsupported (the case is counted,
never approximated).  Nothing here knows the ordering rules: items are produced
in the order of the text.'''
import re


class Unsupported(Exception):
    pass


# --------------------------------------------------------------- text helpers
def split_top(text, sep=","):
    '''Split at separators that are not inside parentheses.'''
    parts, depth, cur = [], 0, []
    for ch in text:
        if ch in "([":
            depth += 1
        elif ch in ")]":
            depth -= 1
        if ch == sep and depth == 0:
            parts.append("".join(cur).strip())
            cur = []
        else:
            cur.append(ch)
    tail = "".join(cur).strip()
    if tail or parts:
        parts.append(tail)
    return parts


def _balanced(text, start):
    '''text[start] == "(" -> index just after the matching ")".'''
    depth = 0
    for i in range(start, len(text)):
        if text[i] == "(":
            depth += 1
        elif text[i] == ")":
            depth -= 1
            if depth == 0:
                return i + 1
    raise Unsupported("unbalanced parentheses: " + text[:80])


_RE_TYPE = re.compile(r"^\s*(integer|real|logical|type|class|character)\b", re.I)


def parse_decls(text):
    '''name -> {ty, k, r, in, derived} for every declaration line of text.'''
    decls = {}
    for line in text.splitlines():
        m = _RE_TYPE.match(line)
        if not m:
            continue
        ty = m.group(1).lower()
        rest = line[m.end():].lstrip()
        spec = ""
        if rest.startswith("("):
            end = _balanced(rest, 0)
            spec = rest[1:end - 1].strip()
            rest = rest[end:].lstrip()
        if "::" in rest:
            attrs, ents = rest.split("::", 1)
        else:
            attrs, ents = "", rest
        kind, derived = "", ""
        if ty in ("type", "class"):
            derived = spec.lower()
        elif spec:
            kind = re.sub(r"^\s*kind\s*=\s*", "", spec, flags=re.I).strip().lower()
        intent, dim_rank = "na", None
        for att in split_top(attrs.strip().lstrip(",")):
            low = att.lower().replace(" ", "")
            if low.startswith("intent("):
                intent = low[7:-1]
            elif low.startswith("dimension("):
                dim_rank = len(split_top(att[att.index("(") + 1:att.rindex(")")]))
        for ent in split_top(ents):
            ent = re.split(r"=>|=", ent, 1)[0].strip()
            if not ent:
                continue
            mm = re.match(r"^(\w+)\s*(\((.*)\))?$", ent)
            if not mm:
                raise Unsupported("declaration entity: " + ent)
            rank = dim_rank or 0
            if mm.group(3) is not None:
                rank = len(split_top(mm.group(3)))
            name = mm.group(1).lower()
            if name not in decls:        # f2pygen: first declaration wins
                decls[name] = {"ty": ty, "k": kind, "r": rank, "in": intent,
                               "derived": derived}
    return decls


# members of the proxies of the bundled LFRic infrastructure
# (src/psyclone/tests/test_files/dynamo0p3/infrastructure/operator/*.f90)
PROXY_MEMBERS = {
    ("operator_proxy_type", "ncell_3d"): ("integer", "i_def", 0),
    ("operator_proxy_type", "local_stencil"): ("real", "r_def", 3),
    ("columnwise_operator_proxy_type", "ncell_2d"): ("integer", "i_def", 0),
    ("columnwise_operator_proxy_type", "nrow"): ("integer", "i_def", 0),
    ("columnwise_operator_proxy_type", "ncol"): ("integer", "i_def", 0),
    ("columnwise_operator_proxy_type", "bandwidth"): ("integer", "i_def", 0),
    ("columnwise_operator_proxy_type", "alpha"): ("integer", "i_def", 0),
    ("columnwise_operator_proxy_type", "beta"): ("integer", "i_def", 0),
    ("columnwise_operator_proxy_type", "gamma_m"): ("integer", "i_def", 0),
    ("columnwise_operator_proxy_type", "gamma_p"): ("integer", "i_def", 0),
    ("columnwise_operator_proxy_type", "columnwise_matrix"): ("real", "r_solver", 3),
    ("field_proxy_type", "data"): ("real", "r_def", 1),
    ("integer_field_proxy_type", "data"): ("integer", "i_def", 1),
}


def actual_type(expr, decls):
    '''(ty, kind, rank, intent) of an actual argument expression.'''
    expr = expr.strip()
    if "%" in expr:
        base, member = expr.split("%", 1)
        base = re.sub(r"\(.*\)$", "", base.strip()).lower()
        dec = decls.get(base)
        if dec is None or not dec["derived"]:
            raise Unsupported("member of undeclared object: " + expr)
        key = (dec["derived"], member.strip().lower())
        if key not in PROXY_MEMBERS:
            raise Unsupported("unknown infrastructure member: " + expr)
        ty, kind, rank = PROXY_MEMBERS[key]
        return ty, kind, rank, "na"
    m = re.match(r"^(\w+)\s*(\((.*)\))?$", expr)
    if not m:
        raise Unsupported("actual argument expression: " + expr)
    name = m.group(1).lower()
    dec = decls.get(name)
    if dec is None:
        return "undeclared", "", 0, "na"
    if dec["derived"]:
        raise Unsupported("derived-type actual argument: " + expr)
    rank = dec["r"]
    intent = dec["in"]
    if m.group(3) is not None:
        subs = split_top(m.group(3))
        if len(subs) != dec["r"]:
            raise Unsupported("subscript count of " + expr)
        rank = sum(1 for s in subs if ":" in s)
    return dec["ty"], dec["k"], rank, intent


# ------------------------------------------------------------- classification
REFEL_NAMES = {
    "normals_to_horiz_faces": "normals_to_horizontal_faces",
    "out_normals_to_horiz_faces": "outward_normals_to_horizontal_faces",
    "normals_to_vert_faces": "normals_to_vertical_faces",
    "out_normals_to_vert_faces": "outward_normals_to_vertical_faces",
    "normals_to_faces": "normals_to_faces",
    "out_normals_to_faces": "outward_normals_to_faces"}
SIMPLE = {"cell", "nlayers", "ncell_2d", "ncell_2d_no_halos", "nfaces_re_h",
          "nfaces_re_v", "nfaces_re", "adjacent_face"}
CMA_SCALARS = ("nrow", "ncol", "bandwidth", "alpha", "beta", "gamma_m", "gamma_p")
QR_ITEMS = ("np_xyz", "np_xy", "np_z", "nfaces", "nedges", "weights_xyz",
            "weights_xy", "weights_z")


class Namer:
    '''Maps the names PSyclone derives from the algorithm-layer names back to
    the metadata of ONE kernel.  For the call side `names` gives the names the
    harness chose for this kernel's actual arguments, directions and
    quadrature objects (c21_gen.names_for); the stub uses field_<i>, op_<i>,
    cma_op_<i>, qr_<shape>.'''

    def __init__(self, md, side, names=None):
        self.md = md
        self.side = side
        self.spaces = {}
        if side == "stub":
            argnames = [{"field": "field_", "op": "op_", "cma": "cma_op_",
                         "scalar": "scalar_"}[arg["t"]] + str(i)
                        for i, arg in enumerate(md["args"], 1)]
            self.dirs, self.qrs = {}, {}
        else:
            if names is None:
                from pv.c21_gen import names_for
                names = names_for(md)
            argnames = list(names["args"])
            self.dirs = {v: str(i) for i, v in names["dir"].items()}
            self.qrs = dict(names["qr"])
        self.argnames = argnames
        for arg in md["args"]:
            for fs in (arg["fs"], arg["fs2"]):
                if not fs:
                    continue
                m = re.match(r"^any_space_(\d+)$", fs)
                d = re.match(r"^any_discontinuous_space_(\d+)$", fs)
                if m or d:
                    pre = ("aspc" if m else "adspc") + (m or d).group(1) + "_"
                    for n in argnames:
                        self.spaces[pre + n] = fs
                else:
                    self.spaces[fs] = fs

    def space(self, text):
        if text not in self.spaces:
            raise Unsupported("function-space name " + text)
        return self.spaces[text]

    def shape(self, text):
        '''qr_xyoz (stub) / name of the quadrature object (call) -> shape.'''
        if self.side == "stub":
            m = re.match(r"^qr_(xyoz|face|edge)$", text)
            if m:
                return m.group(1)
        elif text in self.qrs:
            return self.qrs[text]
        raise Unsupported("quadrature name " + text)

    def call_role(self, name):
        '''Role of a call actual that is derived from one of this kernel's
        algorithm arguments, or None.'''
        if name in self.dirs:
            return "direction", self.dirs[name], "", ""
        for i, base in enumerate(self.argnames, 1):
            if not name.startswith(base):
                continue
            arg = self.md["args"][i - 1]
            rest = name[len(base):]
            idx = str(i)
            if arg["t"] == "scalar":
                if rest == "":
                    return "scalar", idx, "", ""
            elif arg["t"] == "field":
                m = re.match(r"^(?:_(\d+))?_data$", rest)
                if m:
                    return ("field", idx, arg["fs"],
                            "v" + m.group(1) if m.group(1) else "")
                m = re.match(r"^_(stencil_size|max_branch_length|"
                             r"stencil_dofmap)(?:_\d+)?$", rest)
                if m:
                    return m.group(1), idx, "", ""
            elif arg["t"] == "op":
                if rest == "_proxy%ncell_3d":
                    return "op_ncell_3d", idx, "", ""
                if rest == "_local_stencil":
                    return "op", idx, "", ""
            else:
                if rest == "_cma_matrix":
                    return "cma_op", idx, "", ""
                if rest.startswith("_") and rest[1:] in CMA_SCALARS:
                    return "cma_" + rest[1:], idx, "", ""
        return None


def classify(name, namer):
    '''(w, a, fs, x) of an argument name (stub dummy or the variable of a call
    actual, lower case, subscripts removed).'''
    side = namer.side
    if name in SIMPLE:
        return name, "0", "", ""
    if name in REFEL_NAMES:
        return "refel", "0", "", REFEL_NAMES[name]
    if side == "stub":
        pats = [
            (r"^field_(\d+)_stencil_size$", "stencil_size"),
            (r"^field_(\d+)_max_branch_length$", "max_branch_length"),
            (r"^field_(\d+)_stencil_dofmap$", "stencil_dofmap"),
            (r"^field_(\d+)_direction$", "direction"),
            (r"^op_(\d+)_ncell_3d$", "op_ncell_3d"),
            (r"^op_(\d+)$", "op"),
            (r"^cma_op_(\d+)$", "cma_op"),
            (r"^[ril]scalar_(\d+)$", "scalar")]
        for pat, what in pats:
            m = re.match(pat, name)
            if m:
                return what, m.group(1), "", ""
        m = re.match(r"^cma_op_(\d+)_(%s)$" % "|".join(CMA_SCALARS), name)
        if m:
            return "cma_" + m.group(2), m.group(1), "", ""
        m = re.match(r"^field_(\d+)_(\w+?)(?:_v(\d+))?$", name)
        if m and m.group(2) in namer.spaces:
            return ("field", m.group(1), namer.space(m.group(2)),
                    "v" + m.group(3) if m.group(3) else "")
        m = re.match(r"^field_(\d+)_(\w+)$", name)
        if m and m.group(2) in namer.spaces:
            return "field", m.group(1), namer.space(m.group(2)), ""
    else:
        role = namer.call_role(name)
        if role is not None:
            return role
        if re.match(r"^cell_map_\w+$", name):
            return "cell_map", "0", "", ""
        m = re.match(r"^ncpc_\w+_([xy])$", name)
        if m:
            return "ncell_f_per_c_" + m.group(1), "0", "", ""
        if re.match(r"^ncell_f\d+$", name):
            return "ncell_f", "0", "", ""
    for pre in ("cma_indirection_map", "cbanded_map", "undf", "ndf", "map"):
        if name.startswith(pre + "_"):
            return pre, "0", namer.space(name[len(pre) + 1:]), ""
    m = re.match(r"^(diff_basis|basis)_(\w+)$", name)
    if m:
        rest = m.group(2)
        if "_on_" in rest:
            fs, tgt = rest.split("_on_", 1)
            return m.group(1), "0", namer.space(fs), "on:" + namer.space(tgt)
        for cut in range(len(rest)):
            if rest[cut] == "_" and rest[:cut] in namer.spaces:
                try:
                    return (m.group(1), "0", namer.space(rest[:cut]),
                            namer.shape(rest[cut + 1:]))
                except Unsupported:
                    continue
        raise Unsupported("basis name " + name)
    for pre in QR_ITEMS:
        if name.startswith(pre + "_"):
            try:
                return pre, "0", "", namer.shape(name[len(pre) + 1:])
            except Unsupported:
                continue
    raise Unsupported("argument name " + name)


def _item(role, ty, kind, rank, intent):
    w, a, fs, x = role
    return {"w": w, "a": a, "fs": fs, "x": x, "ty": ty, "k": kind,
            "r": str(rank), "in": intent}


_RE_SUB = re.compile(r"^\s*SUBROUTINE\s+(\w+)\s*\((.*)\)\s*$", re.I | re.M)


def itemise_stub(text, md, code_name):
    '''Items of the stub subroutine <code_name> in the text gen_kernel_stub
    returned.'''
    m = None
    for m in _RE_SUB.finditer(text):
        if m.group(1).lower() == code_name.lower():
            break
    else:
        raise Unsupported("stub subroutine not found")
    dummies = [d.lower() for d in split_top(m.group(2)) if d]
    decls = parse_decls(text[m.end():])
    namer = Namer(md, "stub")
    items = []
    for name in dummies:
        role = classify(name, namer)
        dec = decls.get(name)
        if dec is None:
            items.append(_item(role, "undeclared", "", 0, "na"))
            continue
        if dec["derived"]:
            raise Unsupported("derived-type dummy " + name)
        items.append(_item(role, dec["ty"], dec["k"], dec["r"], dec["in"]))
    return items


def itemise_call(text, md, code_name, names=None):
    '''Items of the (single) CALL <code_name>(...) of the generated PSy layer,
    typed by the declarations of the invoke subroutine.'''
    calls = [l for l in text.splitlines()
             if re.match(r"^\s*CALL\s+%s\s*\(" % re.escape(code_name), l, re.I)]
    if len(calls) != 1:
        raise Unsupported(f"{len(calls)} kernel calls in the PSy layer")
    line = calls[0].strip()
    inner = line[line.index("(") + 1:line.rindex(")")]
    actuals = split_top(inner)
    m = re.search(r"^\s*SUBROUTINE\s+invoke_\w+\s*\(", text, re.I | re.M)
    if not m:
        raise Unsupported("invoke subroutine not found")
    decls = parse_decls(text[m.start():])
    namer = Namer(md, "call", names)
    items = []
    for expr in actuals:
        low = expr.lower().replace(" ", "")
        name = low if "%" in low else re.sub(r"\(.*\)$", "", low)
        role = classify(name, namer)
        ty, kind, rank, intent = actual_type(low, decls)
        items.append(_item(role, ty, kind, rank, intent))
    return items


# ------------------------------------------------- PSyIR argument list (call)
def _describe(expr):
    '''(ty, kind, rank) of a PSyIR kernel-call argument, from the datatype of
    the expression KernCallArgList built (symbol type, reduced by the
    subscripts of an ArrayReference).'''
    from psyclone.psyir.nodes import ArrayReference, Range
    from psyclone.psyir.symbols import (ArrayType, ScalarType,
                                        UnsupportedFortranType)
    dtype = expr.datatype
    if isinstance(dtype, UnsupportedFortranType):
        decl = parse_decls(dtype.declaration)
        if len(decl) != 1:
            raise Unsupported("PSyIR declaration " + dtype.declaration)
        dec = list(decl.values())[0]
        rank = dec["r"]
        if isinstance(expr, ArrayReference):
            if len(expr.indices) != dec["r"]:
                raise Unsupported("PSyIR subscripts of " + expr.name)
            rank = sum(1 for i in expr.indices if isinstance(i, Range))
        return dec["ty"], dec["k"], rank
    rank = 0
    if isinstance(dtype, ArrayType):
        rank = len(dtype.shape)
    if not isinstance(dtype, (ArrayType, ScalarType)):
        raise Unsupported("PSyIR datatype " + str(dtype)[:80])
    ty = {"integer": "integer", "real": "real",
          "boolean": "logical"}.get(dtype.intrinsic.name.lower())
    if ty is None:
        raise Unsupported("PSyIR intrinsic " + dtype.intrinsic.name)
    prec = dtype.precision
    kind = getattr(prec, "name", None)
    if kind is None or not isinstance(kind, str):
        raise Unsupported("PSyIR precision " + str(prec)[:60])
    return ty, kind.lower(), rank


def itemise_psyir(names, exprs, md, alg_names=None):
    '''Items of KernCallArgList: names = .arglist (texts), exprs =
    .psyir_arglist (the PSyIR expressions actually passed); roles from the
    names, type/kind/rank from the PSyIR expressions.'''
    if len(names) != len(exprs):
        raise Unsupported(f"arglist has {len(names)} names but "
                          f"{len(exprs)} PSyIR expressions")
    namer = Namer(md, "call", alg_names)
    items = []
    for text, expr in zip(names, exprs):
        low = text.lower().replace(" ", "")
        name = low if "%" in low else re.sub(r"\(.*\)$", "", low)
        role = classify(name, namer)
        ty, kind, rank = _describe(expr)
        items.append(_item(role, ty, kind, rank, "na"))
    return items
