'''C23 helper - itemiser of a generated LFRic PSy-layer subroutine into the
abstract schedule tree of spec/LFRicSched.tla.

Input: the Fortran text PSyclone generated for one invoke subroutine (the
product users compile) and the names of the kernels of the invoke in schedule
order.  Output: a list of nodes (the body of the invoke)

  {"k":"loop","t":"cells"|"colours"|"colour"|"dofs","x":"edge"|"halo"|"",
   "id":0,"body":[...]}
  {"k":"dir","t":"omp_parallel"|"omp_parallel_do"|"omp_do"|"acc_parallel"|
   "acc_kernels"|"acc_loop","x":""|"ind"|"seq"|"auto","id":0,"body":[...]}
  {"k":"kern","t":"","x":"","id":n,"body":[]}         n-th kernel call (1..)

Loop kinds are read from the text: `DO colour = .., ncolour` is a loop over
colours; `DO cell = .., last_(edge|halo)_cell_all_colours(colour[,d])` whose
kernel calls address cells through `cmap(colour,cell)` and which stands inside
a loop over colours is a loop over the cells of one colour; any other
`DO cell` loop is a loop over (all) cells; `DO df` is a loop over dofs.
Halo exchanges, set_dirty/set_clean calls and comments are not part of the
abstract schedule.  Anything the itemiser does not understand raises
Unsupported: the case is counted, never judged.
'''
import re


class Unsupported(Exception):
    pass


RE_BOUND = re.compile(r"^(loop\d+_(?:start|stop)) = (.*)$")
RE_DO = re.compile(r"^do (\w+) = (.+)$")
RE_CALLK = re.compile(r"^call ([a-z_][a-z0-9_]*)\((.*)\)$")
RE_BUILTIN = re.compile(r"^! built-in: (\w+)")
_PROXY = r"[a-z_][a-z0-9_]*_proxy(?:\(\d+\))?"
RE_HALO = [re.compile(p) for p in (
    r"^if \(" + _PROXY + r"%is_dirty\(depth=.*\)\) then$",
    r"^call " + _PROXY + r"%halo_exchange(_start|_finish)?\(depth=.*\)$",
    r"^call " + _PROXY + r"%set_dirty\(\)$",
    r"^call " + _PROXY + r"%set_clean\(.*\)$",
)]
RE_IGNORE = [re.compile(p) for p in (
    r"^\w+ = 0(\.0)?(_\w+)?$",                 # reduction variable initialised
    r"^global_sum%value = \w+$",
    r"^\w+ = global_sum%get_sum\(\)$",
    r"^deallocate ?\(.*\)$",
)]
MARKERS = ("! call kernels and communication routines", "! call our kernels")

# directive line -> (kind, has an end line)
DIRECTIVES = (
    (re.compile(r"^!\$omp parallel do\b"), "omp_parallel_do",
     re.compile(r"^!\$omp end parallel do$")),
    (re.compile(r"^!\$omp parallel\b"), "omp_parallel",
     re.compile(r"^!\$omp end parallel$")),
    (re.compile(r"^!\$omp do\b"), "omp_do", re.compile(r"^!\$omp end do$")),
    (re.compile(r"^!\$acc parallel\b"), "acc_parallel",
     re.compile(r"^!\$acc end parallel$")),
    (re.compile(r"^!\$acc kernels\b"), "acc_kernels",
     re.compile(r"^!\$acc end kernels$")),
    (re.compile(r"^!\$acc loop\b"), "acc_loop", None),
)


def _split_do(line):
    m = RE_DO.match(line)
    parts, depth, cur = [], 0, ""
    for ch in m.group(2):
        if ch == "(":
            depth += 1
        elif ch == ")":
            depth -= 1
        if ch == "," and depth == 0:
            parts.append(cur.strip())
            cur = ""
        else:
            cur += ch
    parts.append(cur.strip())
    if len(parts) not in (2, 3):
        raise Unsupported("loop header: " + line)
    return m.group(1), parts[0], parts[1], parts[2] if len(parts) == 3 else "1"


def _classify(var, hi):
    '''loop variable and (resolved) upper bound text -> (kind, x)'''
    t = hi.replace(" ", "")
    if var == "colour":
        if re.match(r"^ncolour(_\w+)?$", t):
            return "colours", ""
        raise Unsupported("bound of a loop over colours: " + hi)
    if var == "cell":
        if re.match(r"^last_edge_cell_all_colours(_\w+)?\(colour\)$", t):
            return "colour", "edge"
        if re.match(r"^last_halo_cell_all_colours(_\w+)?\(colour,\w+\)$", t):
            return "colour", "halo"
        if re.match(r"^mesh(_\w+)?%get_last_edge_cell\(\)$", t):
            return "cells", "edge"
        if re.match(r"^mesh(_\w+)?%get_last_halo_cell\(\w*\)$", t):
            return "cells", "halo"
        if re.match(r"^[a-z0-9_]+_proxy(\(\d+\))?%(vspace|fs_from|fs_to)"
                    r"%get_ncell\(\)$", t):
            return "cells", "edge"
        raise Unsupported("bound of a loop over cells: " + hi)
    if var == "df":
        if re.match(r"^[a-z0-9_]+_proxy(\(\d+\))?%vspace%get_last_dof_"
                    r"(owned|annexed)\(\)$", t) or re.match(r"^undf_\w+$", t):
            return "dofs", "edge"
        if re.match(r"^[a-z0-9_]+_proxy(\(\d+\))?%vspace%get_last_dof_halo"
                    r"\(\w*\)$", t):
            return "dofs", "halo"
        raise Unsupported("bound of a loop over dofs: " + hi)
    raise Unsupported("loop variable " + var)


def loop(kind, x, body):
    return {"k": "loop", "t": kind, "x": x, "id": 0, "body": body}


def directive(kind, x, body):
    return {"k": "dir", "t": kind, "x": x, "id": 0, "body": body}


def kern(idx):
    return {"k": "kern", "t": "", "x": "", "id": idx, "body": []}


def itemise(text, names):
    '''text: one generated subroutine; names: [(kernel name, is builtin)] in
    schedule order.  Returns the body (list of nodes) of the invoke.'''
    lines = []
    for raw in text.splitlines():
        s = raw.strip()
        if not s or s == "!":
            continue
        if s.endswith("&"):
            raise Unsupported("continuation line")
        lines.append(re.sub(r"\s+", " ", s).lower())
    start = None
    for i, s in enumerate(lines):
        if s in MARKERS:
            start = i
            break
    if start is None:
        raise Unsupported("no 'Call kernels' part")
    bounds = {}
    for s in lines[:start]:
        if s.startswith("!$") or RE_DO.match(s):
            raise Unsupported("directive or loop in the set-up part: " + s)
        m = RE_BOUND.match(s)
        if m:
            bounds[m.group(1)] = m.group(2)
    body = lines[start + 1:]
    if not body or not body[-1].startswith("end subroutine"):
        raise Unsupported("subroutine end not found")
    body = body[:-1]
    pos = [0]
    kidx = [0]

    def bound_text(t):
        t = t.strip()
        if re.match(r"^loop\d+_(start|stop)$", t):
            if t not in bounds:
                raise Unsupported("loop bound variable not set: " + t)
            return bounds[t]
        return t

    def next_kernel(name, builtin):
        if kidx[0] >= len(names):
            raise Unsupported("more kernel calls in the text than in the "
                              "schedule: " + name)
        kname, kbuiltin = names[kidx[0]]
        if kname.lower() != name or bool(kbuiltin) != builtin:
            raise Unsupported(f"kernel call '{name}' does not match schedule "
                              f"kernel '{kname}'")
        kidx[0] += 1
        return kidx[0]

    def parse_loop(stack):
        var, lo, hi, step = _split_do(body[pos[0]])
        if step.strip() != "1" or bound_text(lo) != "1":
            raise Unsupported("loop does not start at 1 with step 1: "
                              + body[pos[0]])
        kind, x = _classify(var, bound_text(hi))
        if kind == "colour" and "colours" not in stack:
            raise Unsupported("loop over one colour outside a loop over colours")
        if any(k in stack for k in ("cells", "colour", "dofs")):
            raise Unsupported("loop nested in a loop over cells or dofs")
        if kind == "colours" and "colours" in stack:
            raise Unsupported("nested loops over colours")
        pos[0] += 1
        inner = parse_block(stack + [kind], ("end do",))
        pos[0] += 1
        return loop(kind, x, inner)

    def parse_block(stack, enders, limit=None):
        '''statements up to (not including) a line matching one of enders
        (strings or compiled patterns); None = end of the subroutine.  With
        limit: stop after that many nodes.'''
        nodes = []
        while True:
            if limit is not None and len(nodes) >= limit:
                return nodes
            if pos[0] >= len(body):
                if enders is None:
                    return nodes
                raise Unsupported("unterminated block")
            s = body[pos[0]]
            if enders is not None and any(
                    (s == e) if isinstance(e, str) else e.match(s)
                    for e in enders):
                return nodes
            if s.startswith("!$acc enter data"):
                pos[0] += 1
                continue
            if s.startswith("!$"):
                for pat, kind, end in DIRECTIVES:
                    if pat.match(s):
                        break
                else:
                    raise Unsupported("directive: " + s)
                pos[0] += 1
                if kind == "acc_loop":
                    x = ("seq" if re.search(r"\bseq\b", s) else
                         "ind" if re.search(r"\bindependent\b", s) else "auto")
                    # the directive applies to the next statement: a loop,
                    # possibly under further loop directives
                    if pos[0] >= len(body) or not (
                            RE_DO.match(body[pos[0]])
                            or re.match(r"^!\$(omp (parallel )?do|acc loop)\b",
                                        body[pos[0]])):
                        raise Unsupported("acc loop not followed by a loop")
                    inner = parse_block(stack, ("end do",), limit=1)
                    if len(inner) != 1:
                        raise Unsupported("acc loop not followed by a loop")
                    nodes.append(directive(kind, x, inner))
                    continue
                inner = parse_block(stack, (end,))
                pos[0] += 1
                nodes.append(directive(kind, "", inner))
                continue
            mb = RE_BUILTIN.match(s)
            if mb:
                if not stack or stack[-1] != "dofs":
                    raise Unsupported("built-in outside a loop over dofs")
                nodes.append(kern(next_kernel(mb.group(1), True)))
                pos[0] += 1
                while (pos[0] < len(body) and body[pos[0]] != "end do"
                       and not body[pos[0]].startswith("!")):
                    if (re.match(r"^(do|if|end|call) ", body[pos[0]])
                            or "(df)" not in body[pos[0]]):
                        raise Unsupported("statement in a built-in: "
                                          + body[pos[0]])
                    pos[0] += 1
                continue
            if s.startswith("!"):
                pos[0] += 1
                continue
            if RE_DO.match(s):
                nodes.append(parse_loop(stack))
                continue
            if any(r.match(s) for r in RE_HALO):
                if s.startswith("if "):
                    if (pos[0] + 2 >= len(body)
                            or not RE_HALO[1].match(body[pos[0] + 1])
                            or body[pos[0] + 2] != "end if"):
                        raise Unsupported("guarded halo exchange shape: " + s)
                    pos[0] += 3
                else:
                    pos[0] += 1
                continue
            mk = RE_CALLK.match(s)
            if mk and "%" not in mk.group(1):
                idx = next_kernel(mk.group(1), False)
                args = mk.group(2).replace(" ", "")
                cmap = re.search(r"\(:,cmap(_\w+)?\(colour,cell\)\)", args)
                plain = re.search(r"\(:,cell\)", args)
                here = stack[-1] if stack else ""
                if here == "colour":
                    if not cmap or plain:
                        raise Unsupported("call in a loop over one colour "
                                          "does not use the colour map")
                elif here == "cells":
                    if cmap:
                        raise Unsupported("colour map used in a loop over "
                                          "all cells")
                elif here in ("dofs", ""):
                    if cmap or plain:
                        raise Unsupported("cell-indexed call outside a loop "
                                          "over cells")
                else:
                    raise Unsupported("kernel call directly in a loop over "
                                      "colours")
                nodes.append(kern(idx))
                pos[0] += 1
                continue
            if any(r.match(s) for r in RE_IGNORE):
                pos[0] += 1
                continue
            raise Unsupported("statement: " + s)

    nodes = parse_block([], None)
    if kidx[0] != len(names):
        raise Unsupported(f"{len(names) - kidx[0]} kernels of the schedule "
                          f"have no call in the text")
    return nodes
