'''Core of the /verif harness: environment, TLC runner, evidence writer,
known-finding matcher and the result protocol every check follows.

Exit codes of a check: 0 = property held on everything explored (known
findings printed), 1 = unlisted violation (VIOLATION line), 2 = machinery
failure.
'''
import hashlib
import json
import os
import re
import shutil
import subprocess
import sys
import tempfile
import time

VERIF = os.path.dirname(os.path.dirname(os.path.dirname(os.path.abspath(__file__))))
REPO = os.environ.get("PV_REPO", "/repo")
SPEC = os.path.join(VERIF, "spec")
# PV_EVID / PV_REPLAYS: scratch locations for mutant / demo runs, so that they do
# not overwrite the evidence of the real check
EVID = os.environ.get("PV_EVID") or os.path.join(VERIF, "evidence")
REPLAYS = os.environ.get("PV_REPLAYS") or os.path.join(VERIF, "replays")
FINDINGS_FILE = os.path.join(VERIF, "known_findings.json")
GUARD = "SVALAT_PSYCLONE_VERIF"
NCPU = min(16, os.cpu_count() or 1)


class MachineryError(Exception):
    '''Something in the verification machinery (not the property) failed.'''


def setup_psyclone_env():
    '''Make `import psyclone` resolve to the current working tree of REPO.'''
    os.environ["PSYCLONE_CONFIG"] = os.path.join(REPO, "config", "psyclone.cfg")
    os.environ.setdefault("PYTHONHASHSEED", "0")
    os.environ["PYTHONDONTWRITEBYTECODE"] = "1"
    os.environ[GUARD] = "1"
    sys.dont_write_bytecode = True
    src = os.path.join(REPO, "src")
    if src not in sys.path:
        sys.path.insert(0, src)
    pp = os.environ.get("PYTHONPATH", "")
    parts = [src, os.path.join(VERIF, "harness")] + [p for p in pp.split(":") if p]
    os.environ["PYTHONPATH"] = ":".join(dict.fromkeys(parts))


def seed():
    try:
        return int(os.environ.get("VERIF_SEED", "0"))
    except ValueError:
        return 0


def mktemp(prefix="pv-"):
    base = os.environ.get("PV_TMP") or tempfile.gettempdir()
    return tempfile.mkdtemp(prefix=prefix, dir=base)


def chash(obj):
    '''Stable short hash of a JSON-able case.'''
    return hashlib.sha1(json.dumps(obj, sort_keys=True, default=str)
                        .encode()).hexdigest()[:12]


# ---------------------------------------------------------------- TLC runner

_RE_STATES = re.compile(r"(\d+) states generated, (\d+) distinct states found")
_RE_DEPTH = re.compile(r"depth of the complete state graph search is (\d+)")
_RE_SIMSTATES = re.compile(r"(\d+) states checked")


class TLCResult:
    def __init__(self, rc, out, wall):
        self.rc = rc
        self.out = out
        self.wall = wall
        m = None
        for m in _RE_STATES.finditer(out):
            pass
        self.generated = int(m.group(1)) if m else 0
        self.distinct = int(m.group(2)) if m else 0
        m = _RE_DEPTH.search(out)
        self.depth = int(m.group(1)) if m else 0
        self.ok = ("Model checking completed. No error has been found." in out
                   or "Finished in" in out and rc == 0)
        self.invariant_violated = None
        m = re.search(r"Invariant (\S+) is violated", out)
        if m:
            self.invariant_violated = m.group(1)
        m = re.search(r"Action property (\S+) is violated", out)
        if m:
            self.invariant_violated = m.group(1)
        self.error = None
        if rc != 0 and not self.invariant_violated:
            tail = [l for l in out.splitlines() if l.startswith("Error")
                    or "Exception" in l or "error" in l.lower()]
            self.error = "\n".join(tail[:15]) or out[-2000:]

    def printed(self, prefix):
        '''Lines TLC printed with PrintT("<prefix> " \\o ToJson(x)) -> list of
        decoded JSON values.'''
        res = []
        pat = '"' + prefix + ' '
        for line in self.out.splitlines():
            if line.startswith(pat) and line.endswith('"'):
                body = line[len(pat):-1]
                body = body.replace('\\"', '"').replace('\\\\', '\\')
                try:
                    res.append(json.loads(body))
                except ValueError:
                    raise MachineryError("unparsable TLC line: " + line[:300])
        return res

    def coverage(self):
        '''Per-action counts from a `-coverage 1` run: {action: (distinct, total)}.'''
        cov = {}
        for m in re.finditer(r"<(\w+) line \d+, col \d+ to line \d+, col \d+ of "
                             r"module (\w+)>: (\d+):(\d+)", self.out):
            cov[m.group(1)] = (int(m.group(3)), int(m.group(4)))
        return cov


def run_tlc(spec, cfg, env=None, workers=None, timeout=3600, extra=(),
            simulate=None, depth=None, tlc_seed=None, coverage=False,
            check=True, deadlock=False, heap="6g"):
    '''Run TLC on spec (path relative to spec/ or absolute) with config cfg.'''
    spec_path = spec if os.path.isabs(spec) else os.path.join(SPEC, spec)
    cfg_path = cfg if os.path.isabs(cfg) else os.path.join(SPEC, cfg)
    meta = mktemp("pv-tlc-")
    workers = workers or NCPU
    cmd = ["timeout", str(int(timeout)), "java", "-XX:+UseParallelGC"]
    if heap:
        cmd.append("-Xmx" + heap)
    cmd += ["-cp", "/opt/veriftools/tla/tla2tools.jar:"
            "/opt/veriftools/tla/CommunityModules-deps.jar", "tlc2.TLC",
            "-workers", str(workers), "-metadir", meta, "-noGenerateSpecTE",
            "-config", cfg_path]
    if not deadlock:
        cmd.append("-deadlock")
    if simulate:
        cmd += ["-simulate", simulate]
    if depth:
        cmd += ["-depth", str(depth)]
    if tlc_seed is not None:
        cmd += ["-seed", str(tlc_seed)]
    if coverage:
        cmd += ["-coverage", "1"]
    cmd += list(extra)
    cmd.append(spec_path)
    e = dict(os.environ)
    e.pop("JAVA_TOOL_OPTIONS", None)
    if env:
        e.update({k: str(v) for k, v in env.items()})
    t0 = time.time()
    try:
        p = subprocess.run(cmd, env=e, cwd=os.path.dirname(spec_path),
                           stdout=subprocess.PIPE, stderr=subprocess.STDOUT,
                           text=True, errors="replace")
    finally:
        shutil.rmtree(meta, ignore_errors=True)
    res = TLCResult(p.returncode, p.stdout, time.time() - t0)
    if p.returncode == 124:
        raise MachineryError(f"TLC timed out after {timeout}s on {spec}")
    if check and res.error:
        raise MachineryError(f"TLC failed on {spec} ({cfg}): rc={p.returncode}\n"
                             + res.error)
    return res


# ------------------------------------------------------------- known findings

def load_findings(prop):
    '''Known findings of a property: entries of known_findings.json plus the
    per-property files findings.d/<prop>.json (a JSON list of entries
    {"property","id","what","match","witness"}).  Read-only at run time.'''
    res = []
    if os.path.exists(FINDINGS_FILE):
        with open(FINDINGS_FILE) as f:
            data = json.load(f)
        res += [x for x in data.get("findings", []) if x["property"] == prop]
    path = os.path.join(VERIF, "findings.d", prop + ".json")
    if os.path.exists(path):
        with open(path) as f:
            data = json.load(f)
        if isinstance(data, dict):
            data = data.get("findings", [])
        res += [x for x in data if x.get("property", prop) == prop]
    # an entry with a "fixed" key records a repaired defect ("fixed: property=<id>
    # <commit> <what failed>"): it suppresses nothing, so the violation is reported
    # again if it ever returns
    return [x for x in res if "fixed" not in x]


class Outcome:
    '''Collects what a check saw and turns it into the exit protocol.'''

    def __init__(self, prop, tier, level, matchers=None):
        self.prop = prop
        self.tier = tier
        self.level = level
        self.t0 = time.time()
        self.violations = []        # (case, clause, detail)
        self.known_hit = {}         # finding id -> count
        self.known_examples = {}
        self.coverage = {}
        self.assumptions = []
        self.findings = load_findings(prop)
        self.matchers = matchers or {}
        self.notes = []
        self._pin_cache = None
        self.pin_seen = {}

    # ---- pinned corpus (DESIGN 1.6): for a deterministic corpus the exact set of
    # cases each known finding explains is recorded in findings.d/<prop>.pins.json
    # per (tier, seed); a failing case that a matcher accepts but that is not in the
    # pinned set is reported, so a change that merely *extends* a known defect to
    # new inputs is not masked.  Pins are written only with PV_PIN=1 (development).
    @staticmethod
    def pin_key(case, clause):
        if isinstance(case, dict):
            flat = {k: v for k, v in case.items()
                    if isinstance(v, (str, int, bool, type(None)))}
        else:
            flat = {"case": str(case)}
        return chash([flat, clause])

    def _pins(self):
        if self._pin_cache is None:
            path = os.path.join(VERIF, "findings.d", self.prop + ".pins.json")
            data = {}
            if os.path.exists(path):
                with open(path) as f:
                    data = json.load(f)
            self._pin_cache = data.get(f"{self.tier}:{seed()}")
            if self._pin_cache is not None:
                self._pin_cache = {k: set(v) for k, v in self._pin_cache.items()}
        return self._pin_cache

    def classify(self, rec, clause, detail, slim, sdetail=None):
        '''Like violation() for checks whose matchers need the full case record `rec`
        (with "id") while only the slim record is stored: matcher loop + pinned corpus.'''
        store = {"case": slim, "clause": clause, "detail": sdetail if sdetail is not None else detail}
        for f in self.findings:
            m = self.matchers.get(f["match"])
            try:
                hit = bool(m and m(rec, clause, detail, f))
            except Exception:   # a matcher that cannot decide does not match
                hit = False
            if not hit:
                continue
            key = chash([rec.get("id"), clause])
            self.pin_seen.setdefault(f["id"], set()).add(key)
            pins = self._pins()
            if pins is not None and not os.environ.get("PV_PIN") and \
                    key not in pins.get(f["id"], ()):
                store["reason"] = ("new-case-in-pinned-corpus: matches known finding "
                                   + f["id"] + " but is not one of its pinned cases")
                self.violations.append(store)
                return None
            self.known_hit[f["id"]] = self.known_hit.get(f["id"], 0) + 1
            self.known_examples.setdefault(f["id"], store)
            return f["id"]
        self.violations.append(store)
        return None

    def violation(self, case, clause, detail=None):
        '''Report a failing case; matched against known findings.'''
        rec = {"case": case, "clause": clause, "detail": detail}
        for f in self.findings:
            m = self.matchers.get(f["match"])
            if m is None:
                continue
            try:
                hit = m(case, clause, detail, f)
            except Exception:   # a matcher that cannot decide does not match
                hit = False
            if hit:
                key = self.pin_key(case, clause)
                self.pin_seen.setdefault(f["id"], set()).add(key)
                pins = self._pins()
                if pins is not None and not os.environ.get("PV_PIN") and \
                        key not in pins.get(f["id"], ()):
                    rec["reason"] = ("new-case-in-pinned-corpus: matches known finding "
                                     + f["id"] + " but is not one of its pinned cases")
                    self.violations.append(rec)
                    return None
                self.known_hit[f["id"]] = self.known_hit.get(f["id"], 0) + 1
                self.known_examples.setdefault(f["id"], rec)
                return f["id"]
        self.violations.append(rec)
        return None

    def finish(self, coverage, assumptions=(), extra=None):
        os.makedirs(EVID, exist_ok=True)
        os.makedirs(REPLAYS, exist_ok=True)
        cov = dict(coverage)
        cov["known_findings_hit"] = dict(self.known_hit)
        ev = {"property_id": self.prop, "tier": self.tier, "seed": seed(),
              "level": self.level, "coverage": cov,
              "assumptions": list(assumptions),
              "wall_s": round(time.time() - self.t0, 2),
              "violations": len(self.violations)}
        if extra:
            ev.update(extra)
        lines = []
        for f in self.findings:
            if f["id"] in self.known_hit:
                lines.append(f"KNOWN-FINDING: property={self.prop} {f['id']}: "
                             f"{f['what']} ({self.known_hit[f['id']]} cases)")
        seen = set()
        for v in self.violations:
            h = chash(v)
            if h in seen:
                continue
            seen.add(h)
            if len(seen) > 25:
                continue
            path = os.path.join(REPLAYS, f"{self.prop}-{h}.json")
            with open(path, "w") as fp:
                json.dump({"property": self.prop, "tier": self.tier,
                           "seed": seed(), **v}, fp, indent=1, default=str)
            if True:
                lines.append(f"VIOLATION property={self.prop} replay={path} "
                             f"clause={v['clause']}")
        if len(seen) > 25:
            lines.append(f"... {len(seen) - 25} more violations "
                         f"(see evidence and {REPLAYS})")
        if os.environ.get("PV_PIN"):       # development: (re)write the pinned corpus
            path = os.path.join(VERIF, "findings.d", self.prop + ".pins.json")
            data = {}
            if os.path.exists(path):
                with open(path) as fp:
                    data = json.load(fp)
            data[f"{self.tier}:{seed()}"] = {k: sorted(v) for k, v in sorted(self.pin_seen.items())}
            with open(path, "w") as fp:
                json.dump(data, fp, indent=0, sort_keys=True)
        if os.environ.get("PV_DUMP"):      # development aid: all failing cases
            with open(os.environ["PV_DUMP"], "w") as fp:
                json.dump(self.violations, fp, default=str)
        ev["coverage"].setdefault("samples", [])
        if self.violations:
            ev["coverage"]["violating_samples"] = self.violations[:5]
        with open(os.path.join(EVID, f"{self.prop}.json"), "w") as fp:
            json.dump(ev, fp, indent=1, default=str)
        for l in lines:
            print(l)
        status = "FAIL" if self.violations else "ok"
        print(f"[{self.prop}] {status} tier={self.tier} "
              f"wall={ev['wall_s']}s " + " ".join(
                  f"{k}={v}" for k, v in cov.items()
                  if isinstance(v, (int, bool)) and k != "samples"))
        return 1 if self.violations else 0


def pool_map(fn, items, procs=None, chunksize=None):
    '''multiprocessing map with fork; fn must be a module-level function.'''
    import multiprocessing as mp
    procs = procs or NCPU
    if procs <= 1 or len(items) < 2:
        return [fn(x) for x in items]
    ctx = mp.get_context("fork")
    pool = ctx.Pool(procs)
    try:
        res = pool.map(fn, items, chunksize or max(1, len(items) // (procs * 8)))
        pool.close()            # (not terminate: workers flush coverage data, bin/covrun)
        pool.join()
        return res
    except BaseException:
        pool.terminate()
        raise
