'''C26 - a rejected transformation leaves the code unchanged.

TransTxn.tla (Begin / Commit / Refuse / Crash with nested attempts; Refuse
requires fp = fp0 in all three components text / syms / tree) is model-checked
at design level, and every attempt recorded from the real code is validated by
TLC as a behaviour of its actions (Trace_TransTxn.tla, binding B).  Two trace
sources: (a) a subset of the repository's own test-suite run under the
recorder plugin c26_pytest_recorder, (b) the generated driver c26_driver
(every constructible transformation x every node / short node range of five
(nine) programs x option dictionaries, run as scripts on the same tree).
'''
import json
import os
import shutil
import subprocess
import sys
import time

from pv import core

PROP = "C26"
CLAUSES = ("TextUnchanged", "SymbolsUnchanged", "TreeIdentityUnchanged")

TEST_DIRS_QUICK = ["psyir/transformations", "domain/lfric/transformations",
                   "domain/gocean/transformations", "nemo/transformations"]
TEST_DIRS_THOROUGH = TEST_DIRS_QUICK + [
    "domain/common/transformations", "psyad/transformations",
    "dynamo0p3_transformations_test.py", "gocean1p0_transformations_test.py",
    "psyir/nodes", "psyGen_test.py"]

# attempts per program in the quick tier (the plan is shuffled with the seed,
# so a prefix is an unbiased sample of trans x node x option)
QUICK_QUOTA = {"generic": 4000, "nemo": 4000, "bounds": 3000, "lfric-multikernel-dm": 3500,
               "lfric-builtin-nodm": 3500, "gocean-two-kernels": 3500}
CHUNK = 350


# ------------------------------------------------------------------ matchers

def _only(lines, ok):
    return all(ok(l) for l in lines if l != "...")


def _m_omp_reprod(case, clause, detail, finding):
    '''OMPLoopTrans.apply (and its LFRic/GOcean subclasses) declares th_idx /
    nthreads in the routine's table when options["reprod"] is true BEFORE it
    validates the target.'''
    if not case["trans"].endswith("OMPLoopTrans"):
        return False
    if "'reprod': True" not in case["opts"]:
        return False
    diff = detail or {}
    if "tree" in diff:
        return False
    names = ("th_idx", "nthreads", "omp_thread_index", "omp_num_threads")
    ok_syms = _only(diff.get("syms", []), lambda l: l.startswith("@@") or
                    (l.startswith("+") and any(n in l for n in names)) or
                    l.startswith(("-  TAGS ", "+  TAGS ")))
    ok_text = _only(diff.get("text", []), lambda l: l.startswith("@@") or
                    (l.startswith("+") and ("th_idx" in l or "nthreads" in l)))
    return bool(diff.get("syms")) and ok_syms and ok_text


def _m_verbose_comment(case, clause, detail, finding):
    '''ArrayAssignment2LoopsTrans with options["verbose"] attaches the reason of
    the refusal as a comment to the (otherwise untouched) assignment.'''
    if case["trans"] != "ArrayAssignment2LoopsTrans":
        return False
    if "'verbose': True" not in case["opts"]:
        return False
    diff = detail or {}
    if "syms" in diff:
        return False
    def tree_ok(l):
        head, _, change = l.partition(":  ")
        left, _, right = (" " + change).partition("==>")
        return ("Assignment#" in l and left.strip() == ""
                and right.strip().startswith("_preceding_comment="))
    ok_tree = _only(diff.get("tree", []), tree_ok)
    ok_text = _only(diff.get("text", []), lambda l: l.startswith("@@") or
                    l.lstrip("+").lstrip().startswith("!"))
    return bool(diff.get("tree")) and ok_tree and ok_text


def _m_omptask_collapse(case, clause, detail, finding):
    '''OMPTaskTrans does not validate options["collapse"]; the directive
    constructor refuses it after ParallelLoopTrans.apply detached the loop.'''
    if case["trans"] != "OMPTaskTrans" or "'collapse'" not in case["opts"]:
        return False
    if "Collapse attribute should not be set" not in (case["error"] or ""):
        return False
    diff = detail or {}
    return all(_only(diff.get(c, []), lambda l: l.startswith(("@@", "-")))
               for c in ("text", "syms", "tree")) and bool(diff.get("tree"))


def _m_kmi_same_name(case, clause, detail, finding):
    '''KernelModuleInlineTrans.apply prepares the kernel code (bringing the module-level
    imports of the kernel into scope: wildcard ContainerSymbols) BEFORE it finds that a
    different routine of the same name already exists and refuses.'''
    if case["trans"] != "KernelModuleInlineTrans":
        return False
    if "another, different, subroutine with the same name already exists" \
            not in (case["error"] or ""):
        return False
    diff = detail or {}
    if "tree" in diff or "text" in diff:
        return False
    return bool(diff.get("syms")) and _only(
        diff["syms"], lambda l: l.startswith("@@") or
        (l.startswith("+") and " ContainerSymbol#" in l))


MATCHERS = {"kernel-module-inline-imports-before-refusal": _m_kmi_same_name,
            "omptask-collapse-refused-after-detach": _m_omptask_collapse,
            "omp-reprod-symbols-before-validate": _m_omp_reprod,
            "verbose-refusal-comment": _m_verbose_comment}


# ------------------------------------------------------------- pytest source

def _tests_root(tmp):
    '''Directory holding src/psyclone/tests next to the psyclone under test.
    A scratch copy made without tests gets an overlay of symlinks.'''
    src = os.path.join(core.REPO, "src")
    if os.path.isdir(os.path.join(src, "psyclone", "tests")):
        return src
    ov = os.path.join(tmp, "overlay", "src", "psyclone")
    os.makedirs(ov)
    for name in os.listdir(os.path.join(src, "psyclone")):
        os.symlink(os.path.join(src, "psyclone", name), os.path.join(ov, name))
    os.symlink("/repo/src/psyclone/tests", os.path.join(ov, "tests"))
    return os.path.dirname(ov)


def _start_pytest(tmp, dirs, procs):
    src = _tests_root(tmp)
    tdir = os.path.join(tmp, "pytest-traces")
    cwd = os.path.join(tmp, "pytest-cwd")
    os.makedirs(tdir)
    os.makedirs(cwd)
    env = dict(os.environ)
    env.update({core.GUARD: "1", "C26_TRACE_DIR": tdir,
                "PYTHONDONTWRITEBYTECODE": "1",
                "PSYCLONE_CONFIG": os.path.join(core.REPO, "config", "psyclone.cfg"),
                "PYTHONPATH": ":".join([src, os.path.join(core.VERIF, "harness"),
                                        os.path.join(core.VERIF, "harness", "pv")])})
    paths = [os.path.join(src, "psyclone", "tests", d) for d in dirs]
    paths = [p for p in paths if os.path.exists(p)]
    cmd = [sys.executable, "-m", "pytest", "-p", "c26_pytest_recorder",
           "-p", "no:cacheprovider", "-q", "-n", str(procs), "--timeout=1800",
           "-o", "addopts="] + paths
    log = open(os.path.join(tmp, "pytest.log"), "w")
    p = subprocess.Popen(cmd, cwd=cwd, env=env, stdout=log,
                         stderr=subprocess.STDOUT)
    return p, tdir, log


def _collect_pytest(proc, tdir, log, tmp, timeout):
    try:
        proc.wait(timeout=timeout)
    except subprocess.TimeoutExpired:
        proc.kill()
        raise core.MachineryError("C26: the test-suite subset did not finish "
                                  f"in {timeout}s")
    log.close()
    with open(os.path.join(tmp, "pytest.log")) as f:
        tail = f.read()[-3000:]
    summary = [l for l in tail.splitlines() if " passed" in l or " failed" in l
               or " error" in l]
    dumps = []
    for name in sorted(os.listdir(tdir)):
        with open(os.path.join(tdir, name)) as f:
            dumps.append(json.load(f))
    if not dumps:
        raise core.MachineryError("C26: the recorder plugin wrote no trace:\n"
                                  + tail[-1500:])
    return dumps, (summary[-1].strip("= ") if summary else "?"), proc.returncode


# ------------------------------------------------------------- driver source

def _fast():
    '''C26_FAST=k (binding demonstrations only): 1/k of the quick driver quota
    and only the first test directory.'''
    try:
        return max(1, int(os.environ.get("C26_FAST", "1")))
    except ValueError:
        return 1


def _driver_jobs(tier):
    from pv import c26_driver
    progs = c26_driver.QUICK_PROGRAMS if tier == "quick" \
        else list(c26_driver.PROGRAMS)
    if os.environ.get("C26_PROGRAMS"):      # binding demonstrations only
        progs = [p for p in progs if p in os.environ["C26_PROGRAMS"].split(",")]
    jobs, planned = [], {}
    for prog in progs:
        attempts, nnodes, names = c26_driver.plan(prog, tier)
        total = len(attempts)
        if tier == "quick":
            quota = QUICK_QUOTA.get(prog, 4000)
            if not os.environ.get("C26_PROGRAMS"):
                quota //= _fast()
            attempts = attempts[:quota]
        planned[prog] = {"nodes": nnodes, "transformations": len(names),
                         "planned": total, "run": len(attempts)}
        for k in range(0, len(attempts), CHUNK):
            jobs.append((prog, k // CHUNK, attempts[k:k + CHUNK], 4,
                         8 if tier == "quick" else 1))
        # the same documented-option attempts once more, each on a FRESH tree (scripts
        # reach most of them only after earlier commits have already changed the target)
        if prog in ("generic", "nemo"):
            fresh = [a for a in attempts if a[1][0] == "node" and a[2] is not None
                     and a[2] != {"force": True}][:1500 if tier == "quick" else None]
            planned[prog]["fresh_tree_attempts"] = len(fresh)
            for k in range(0, len(fresh), CHUNK):
                jobs.append((prog, 10000 + k // CHUNK, fresh[k:k + CHUNK], 0,
                             8 if tier == "quick" else 1))
        if prog == "bounds":
            # small program: every transformation on every node of a FRESH tree
            allatt = c26_driver.plan(prog, "thorough")[0]
            fresh = [a for a in allatt if a[1][0] == "node" and a[2] is None]
            planned[prog]["fresh_tree_attempts"] = len(fresh)
            for k in range(0, len(fresh), CHUNK):
                jobs.append((prog, 10000 + k // CHUNK, fresh[k:k + CHUNK], 0,
                             8 if tier == "quick" else 1))
    # long jobs first
    jobs.sort(key=lambda j: (-len(j[2]), j[0], j[1]))
    return jobs, planned


def _run_job(job):
    from pv import c26_driver
    cwd = core.mktemp("pv-c26-cwd-")
    old = os.getcwd()
    os.chdir(cwd)                 # some transformations write kernels / drivers
    try:
        return c26_driver.run_chunk(job)
    finally:
        os.chdir(old)
        shutil.rmtree(cwd, ignore_errors=True)


# ------------------------------------------------------------ TLC validation

def _validate(out, source, dumps, tmp, cov, workers):
    '''All sessions of one source -> one TLC run over Trace_TransTxn.'''
    sessions, meta = [], {}
    for d in dumps:
        for s in d["sessions"]:
            if not s["lines"]:
                continue
            sid = len(sessions) + 1
            sessions.append({"id": sid, "closed": bool(s["closed"]),
                             "lines": s["lines"]})
            meta[sid] = s
    nlines = sum(len(s["lines"]) for s in sessions)
    stats = {"ok": 0, "refused": 0, "crash": 0, "commits_changing_fp": 0,
             "nested": 0}
    py_bad = set()
    for s in sessions:
        open_ = {}
        for l in s["lines"]:
            if l[0] == "B":
                open_[l[1]] = (l[3:6], len(open_))
            else:
                pre, depth = open_.pop(l[1], (None, 0))
                stats[l[2]] += 1
                stats["nested"] += 1 if depth else 0
                if l[2] == "ok" and l[3:6] != ["", "", ""] and l[3:6] != pre:
                    stats["commits_changing_fp"] += 1
                if l[2] == "refused" and l[3:6] != pre:
                    py_bad.add((s["id"], l[1]))
    corrupt = os.environ.get("C26_CORRUPT")
    if corrupt and source == corrupt.split(":")[0]:
        # binding demonstration: flip one recorded field of one refused line
        field = {"text": 3, "syms": 4, "tree": 5}[corrupt.split(":")[1]]
        done = False
        for s in sessions:
            for l in s["lines"]:
                if l[0] == "E" and l[2] == "refused" and not done \
                        and s["id"] >= len(sessions) // 2:
                    l[field] = "corrupted"
                    py_bad.add((s["id"], l[1]))
                    done = True
    path = os.path.join(tmp, f"trace-{source}.json")
    with open(path, "w") as f:
        json.dump({"sessions": sessions}, f, separators=(",", ":"))
    if sessions:
        res = core.run_tlc("Trace_TransTxn.tla", "Trace_TransTxn.cfg",
                           env={"PV_CASES": path}, workers=workers, timeout=3000)
        expect = nlines + len(sessions)
        if res.distinct != expect:
            raise core.MachineryError(
                f"C26 trace validation ({source}) did not consume every line: "
                f"{res.distinct} states, expected {expect}")
        verdicts = res.printed("VERDICT")
        cov["states"] += res.distinct
        cov["transitions"] += res.generated
    else:
        verdicts = []
    tlc_bad = set()
    first_bad = {}
    for v in verdicts:
        if v["v"] in CLAUSES:
            first_bad[v["sid"]] = min(v["seq"], first_bad.get(v["sid"], v["seq"]))
    for v in verdicts:
        s = meta[v["sid"]]
        info = s["meta"].get(str(v["seq"]), {})
        if v["v"] not in CLAUSES:
            # a discontinuity right after a rejected refusal is its consequence
            # (the next attempt starts from the state the refusal should have
            # left); anything else is a malformed trace
            if v["v"] == "Discontinuity" and first_bad.get(v["sid"], v["seq"]) < v["seq"]:
                continue
            raise core.MachineryError(
                f"C26 trace ({source}) is not well-formed: {v} in {s['sid']}")
        tlc_bad.add((v["sid"], v["seq"]))
        case = {"source": source, "session": s["sid"],
                "trans": info.get("trans", v["w"].get("trans")),
                "applied_class": info.get("cls"), "depth": info.get("depth"),
                "target": info.get("target"), "opts": info.get("opts"),
                "error": info.get("msg")}
        out.violation(case, v["v"], info.get("diff"))
    if tlc_bad != py_bad:
        raise core.MachineryError(
            f"C26 ({source}): TLC rejected {len(tlc_bad)} refused events, the "
            f"recorder saw {len(py_bad)} with a changed fingerprint")
    cov["traces_validated_against_impl"] += len(sessions)
    return stats, len(sessions), nlines, meta


def _sample(meta, want):
    res = []
    for sid in sorted(meta):
        for k, m in meta[sid]["meta"].items():
            if m.get("outcome") == want:
                res.append({"session": meta[sid]["sid"], "trans": m["trans"],
                            "target": m["target"], "opts": m["opts"],
                            "outcome": m["outcome"],
                            "error": (m.get("msg") or "")[:160]})
                break
        if len(res) >= 2:
            break
    return res


def run(tier):
    core.setup_psyclone_env()
    out = core.Outcome(PROP, tier, "model_checking", matchers=MATCHERS)
    cov = {"states": 0, "transitions": 0, "traces_validated_against_impl": 0,
           "samples": [], "exhaustive": False, "divergences": 0,
           "unsupported": 0}
    t0 = time.time()
    tmp = core.mktemp("pv-c26-")
    try:
        # test-suite subset under the recorder, in the background
        dirs = TEST_DIRS_QUICK if tier == "quick" else TEST_DIRS_THOROUGH
        if _fast() > 1:
            dirs = dirs[:1]
        nproc = max(2, core.NCPU // 2)
        proc, tdir, log = _start_pytest(tmp, dirs, nproc)
        try:
            # 1. design level
            cfg = "TransTxn_quick.cfg" if tier == "quick" else "TransTxn_thorough.cfg"
            res = core.run_tlc("TransTxn.tla", cfg, check=False, workers=4,
                               coverage=(tier != "quick"))
            if res.invariant_violated or res.error:
                raise core.MachineryError(
                    "TransTxn.tla does not satisfy its own properties: "
                    + str(res.invariant_violated or res.error))
            cov["model_states"] = res.distinct
            cov["states"] += res.distinct
            cov["transitions"] += res.generated
            bad = core.run_tlc("TransTxn.tla", "TransTxn_undisciplined.cfg",
                               check=False, workers=2)
            if not bad.invariant_violated:
                raise core.MachineryError(
                    "TransTxn.tla: the undisciplined model (refusal after an "
                    "edit) is not rejected - the invariants are vacuous")
            cov["undisciplined_model_rejected_by"] = bad.invariant_violated
            # 2. generated driver
            jobs, planned = _driver_jobs(tier)
            dumps = core.pool_map(_run_job, jobs, procs=core.NCPU - nproc,
                                  chunksize=1)
        except BaseException:
            proc.kill()
            raise
        cov["driver_s"] = round(time.time() - t0, 1)
        unstable = [u for d in dumps for u in d["stats"]["fp_unstable"]]
        if unstable:
            raise core.MachineryError(
                "C26: the fingerprint of an unchanged tree is not stable: "
                + json.dumps(unstable[0])[:1500])
        dstats, nsess, nlines, dmeta = _validate(out, "driver", dumps, tmp, cov,
                                                 core.NCPU - nproc)
        dcounts = {}
        crash_types = {}
        for d in dumps:
            for k, v in d["counts"].items():
                dcounts[k] = dcounts.get(k, 0) + v
            for k, v in d["crash_types"].items():
                crash_types[k] = crash_types.get(k, 0) + v
        cov["driver"] = {"programs": planned, "sessions": nsess,
                         "attempts": sum(d["stats"]["attempts"] for d in dumps),
                         "events": dstats, "crash_types": crash_types,
                         "text_written": dcounts.get("text_written", 0),
                         "text_inferred_unchanged": dcounts.get("text_inferred", 0),
                         "writer_flaky": dcounts.get("writer_flaky", 0),
                         "fp_stability_rechecks":
                             sum(d["stats"]["fp_recheck"] for d in dumps)}
        # 3. the test-suite traces
        pdumps, summary, prc = _collect_pytest(proc, tdir, log, tmp,
                                               900 if tier == "quick" else 3000)
        cov["pytest_s"] = round(time.time() - t0, 1)
        pstats, psess, plines, pmeta = _validate(out, "pytest", pdumps, tmp, cov,
                                                 core.NCPU)
        pcrash = {}
        for d in pdumps:
            for k, v in d["crash_types"].items():
                pcrash[k] = pcrash.get(k, 0) + v
        cov["pytest"] = {"dirs": dirs, "result": summary, "exit": prc,
                         "tests_with_attempts": psess, "events": pstats,
                         "crash_types": pcrash,
                         "wrapped_classes": max(d.get("installed", 0) for d in pdumps)}
        if pstats["refused"] == 0 or dstats["refused"] == 0:
            raise core.MachineryError("C26: a trace source saw no refusal")
    finally:
        shutil.rmtree(tmp, ignore_errors=True)
    refusals = dstats["refused"] + pstats["refused"]
    cov["refusals_checked"] = refusals
    cov["crashes_counted_not_judged"] = dstats["crash"] + pstats["crash"]
    cov["commits"] = dstats["ok"] + pstats["ok"]
    cov["evaluations"] = refusals + cov["crashes_counted_not_judged"] + cov["commits"]
    cov["distinct_nontrivial"] = refusals
    cov["rule"] = ("one evaluation = one recorded apply() call (Begin + "
                   "Commit|Refuse|Crash validated by TLC); non-trivial = it ended "
                   "in a TransformationError, so Refuse's fp'=fp0 was decided")
    cov["samples"] = _sample(dmeta, "refused") + _sample(pmeta, "refused") \
        + _sample(dmeta, "ok")[:1]
    return out.finish(cov, assumptions=[
        "fp.text is FortranWriter's output for the root; LFRic/GOcean PSy-layer "
        "trees have no text component (the writer lowers a copy that shares the "
        "Invoke object and kernel files with the original) - they are judged on "
        "the symbol and tree dumps",
        "LFRic: symbols *added* to a table during a refused attempt and the "
        "start/stop children of LFRicLoop (re-created by every read of "
        "start_expr/stop_expr) are lazily created infrastructure, not state",
        "quick tier: the text of an attempt whose tree and symbol dumps are "
        "unchanged is written for every 8th attempt only (thorough: always)",
        "not state: fparser links, back pointers, ContainerSymbol._reference, "
        "a kernel schedule that did not exist before the attempt, the lowering "
        "scratch lists of DynamicOMPTaskDirective",
        "crash = any exception type other than TransformationError: counted, "
        "not judged"])
