'''C19: minimal reproducers of the known findings against the unchanged tree.

Run:  PYTHONPATH=/verif/harness /venv/bin/python -m pv.c19_repro {offset|sign|zerotrip|alias}

Each prints the tangent-linear code, the adjoint PSyAD generates, and the two
numbers that differ when both are executed by hand (plain Python, exact).
'''
import sys

HEAD = '''subroutine k(a, s, t, p, n, m)
  integer, intent(in) :: n, m
  real, intent(in) :: p
  real, intent(inout) :: s, t
  real, intent(inout) :: a(0:8)
  integer :: i
'''


def _adjoint(body, active):
    from psyclone.psyad.tl2ad import generate_adjoint_str
    ad, _ = generate_adjoint_str(HEAD + body + "end subroutine k\n", active)
    return ad


def offset():
    '''loop-offset-compound-start:  do i = 1+m, n, 3  ->  the reversed loop
    starts at  n - MOD(n - 1 + m, 3)  instead of  n - MOD(n - (1 + m), 3).
    (With step 2 the two offsets differ only in sign cases, because +m and -m
    have the same parity; step 3 shows it directly.)  n = 7, m = 1: the tl
    loop visits i = 2, 5; the adjoint visits 6, 3.'''
    body = "  do i = 1+m, n, 3\n    a(i) = a(i) + p*a(i-1)\n  end do\n"
    ad = _adjoint(body, ["a"])
    print(body + ad)
    n, m = 7, 1
    tl_iters = list(range(1 + m, n + 1, 3))
    written = n - _fmod(n - 1 + m, 3)
    meant = n - _fmod(n - (1 + m), 3)
    print(f"n={n} m={m}: tl visits {tl_iters}; adjoint starts at {written} "
          f"(visits {list(range(written, m, -3))}); correct start {meant}")
    return written != meant


def sign():
    '''increment-first-term-subtracted:  t = s - t/p  ->  adjoint  s = s + t ;
    t = t/p  (must be  t = -t/p).'''
    body = "  t = s - t/p\n"
    ad = _adjoint(body, ["s", "t"])
    print(body + ad)
    lines = [l.strip() for l in ad.splitlines()]
    return "t = t / p" in lines


def zerotrip():
    '''zero-trip-nonunit-step:  do i = 2, n, 2  with n = 1 has no trip; the
    adjoint  do i = n - MOD(n - 2, 2), 2, -2  runs i = 2 once, because
    MOD(-1, 2) = -1 (sign of the dividend) moves the start up to 2.'''
    body = "  do i = 2, n, 2\n    a(i) = a(i) + p*a(i-1)\n  end do\n"
    ad = _adjoint(body, ["a"])
    print(body + ad)
    n = 1
    start = n - _fmod(n - 2, 2)
    print(f"n={n}: tl loop 2..1 step 2 has zero trips; adjoint loop runs from {start} down to 2 "
          f"step -2: {list(range(start, 1, -2))}")
    return bool(list(range(start, 1, -2)))


def alias():
    '''runtime-aliased-index:  d(u,:) = p*d(v,:) + e(:)  is transformed as if
    u /= v; called with u = v the tl code scales row u by p (and adds e), the
    adjoint computes d(v,:) = d(v,:) + p*d(u,:), e = e + d(u,:) and then zeroes
    row u: the diagonal entry is 0 instead of p.'''
    from psyclone.psyad.tl2ad import generate_adjoint_str
    src = ("subroutine k(d, e, p, u, v)\n  integer, intent(in) :: u, v\n  real, intent(in) :: p\n"
           "  real, intent(inout) :: d(3,3), e(3)\n  d(u,:) = p*d(v,:) + e(:)\nend subroutine k\n")
    ad, _ = generate_adjoint_str(src, ["d", "e"])
    print(src + ad)
    lines = [l.strip() for l in ad.splitlines()]
    # by hand, u = v = 1, p = 2, input d(1,1) = 1: tl gives d(1,1) = 2
    d11, e1, p = 1.0, 0.0, 2.0
    for l in lines:            # execute the three adjoint statements for idx = 1, u = v
        if l.startswith("d(v,idx) ="):
            d11 = d11 + p * d11
        elif l.startswith("e(idx) ="):
            e1 = e1 + d11
        elif l.startswith("d(u,idx) = 0.0"):
            d11 = 0.0
    print(f"u=v=1, p=2: tl maps d(1,1)=1 to {p}; adjoint maps it to d(1,1)={d11}, e(1)={e1} "
          f"(transpose requires d(1,1)=2, e(1)=1)")
    return d11 != p


def _fmod(l, r):
    q = abs(l) // abs(r)
    q = q if (l < 0) == (r < 0) else -q
    return l - r * q


if __name__ == "__main__":
    from pv import core
    core.setup_psyclone_env()
    which = sys.argv[1] if len(sys.argv) > 1 else "offset"
    ok = {"offset": offset, "sign": sign, "zerotrip": zerotrip, "alias": alias}[which]()
    print("DEFECT REPRODUCED" if ok else "not reproduced")
    sys.exit(0 if ok else 1)
