'''C19: minimal reproducers of the known findings against the unchanged tree.

Run:  PYTHONPATH=/verif/harness /venv/bin/python -m pv.c19_repro {offset|sign|zerotrip}

Each prints the tangent-linear code, the adjoint PSyAD generates, and the two
numbers that differ when both are executed by hand (plain Python, exact).
'''
import sys

HEAD = '''subroutine k(a, s, t, p, n, m)
  integer, intent(in) :: n, m
  real, intent(in) :: p
  real, intent(inout) :: s, t
  real, intent(inout) :: a(0:8)
  integer :: i
'''


def _adjoint(body, active):
    from psyclone.psyad.tl2ad import generate_adjoint_str
    ad, _ = generate_adjoint_str(HEAD + body + "end subroutine k\n", active)
    return ad


def offset():
    '''loop-offset-compound-start:  do i = 1+m, n, 2  ->  the reversed loop
    starts at  n - MOD(n - 1 + m, 2)  instead of  n - MOD(n - (1 + m), 2).
    n = 6, m = 2: the tl loop visits i = 3, 5; the adjoint visits 5, 3 only if
    it starts at 5, but n - MOD(6 - 1 + 2, 2) = 5 ... take n = 7, m = 2:
    tl visits 3, 5, 7; written start = 7 - MOD(8, 2) = 7 (ok); take n = 6,
    m = 1: tl visits 2, 4, 6; written start = 6 - MOD(6, 2) = 6 (ok); n = 5,
    m = 1: tl visits 2, 4; written start = 5 - MOD(5 - 1 + 1, 2) = 4 (ok) ...
    the parity of +m and -m agree for step 2, so use step 3:'''
    body = "  do i = 1+m, n, 3\n    a(i) = a(i) + p*a(i-1)\n  end do\n"
    ad = _adjoint(body, ["a"])
    print(body + ad)
    n, m = 7, 1
    tl_iters = list(range(1 + m, n + 1, 3))
    written = n - _fmod(n - 1 + m, 3)
    meant = n - _fmod(n - (1 + m), 3)
    print(f"n={n} m={m}: tl visits {tl_iters}; adjoint starts at {written} "
          f"(visits {list(range(written, m, -3))}); correct start {meant}")
    return written != meant


def sign():
    '''increment-first-term-subtracted:  t = s - t/p  ->  adjoint  s = s + t ;
    t = t/p  (must be  t = -t/p).'''
    body = "  t = s - t/p\n"
    ad = _adjoint(body, ["s", "t"])
    print(body + ad)
    lines = [l.strip() for l in ad.splitlines()]
    return "t = t / p" in lines


def zerotrip():
    '''zero-trip loop with a step > 1 (see findings.d/C19.json if listed).'''
    body = "  do i = 2, n, 2\n    a(i) = a(i) + p*a(i-1)\n  end do\n"
    ad = _adjoint(body, ["a"])
    print(body + ad)
    n = 1
    start = n - _fmod(n - 2, 2)
    print(f"n={n}: tl loop 2..1 step 2 has zero trips; adjoint loop runs from {start} down to 2 "
          f"step -2: {list(range(start, 1, -2))}")
    return bool(list(range(start, 1, -2)))


def _fmod(l, r):
    q = abs(l) // abs(r)
    q = q if (l < 0) == (r < 0) else -q
    return l - r * q


if __name__ == "__main__":
    from pv import core
    core.setup_psyclone_env()
    which = sys.argv[1] if len(sys.argv) > 1 else "offset"
    ok = {"offset": offset, "sign": sign, "zerotrip": zerotrip}[which]()
    print("DEFECT REPRODUCED" if ok else "not reproduced")
    sys.exit(0 if ok else 1)
