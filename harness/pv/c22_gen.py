'''C22 helper - drives the real PSyclone: generates distributed-memory LFRic PSy
layers for the repository's test algorithm files under transformation
histories, itemises the generated Fortran (c22_item) and projects every invoke
onto each of its field components (one TLC case per component).'''
import hashlib
import json
import os
import random
import re

from pv import core
from pv.c22_item import Unsupported, itemise

# continuity (in the horizontal) of the function spaces, from the table in
# doc/user_guide/dynamo0p3.rst "Supported Function Spaces".  any_space_n and
# any_w2 are *treated* as continuous by PSyclone but the field actually passed
# may be either; wchi is discontinuous except at order 0.
CONTINUOUS = {"w0", "w1", "w2", "w2h", "w2trace", "w2htrace"}
DISCONTINUOUS = {"w2broken", "w2v", "w2vtrace", "w3", "wtheta"}


def space_class(name):
    name = name.lower()
    if name in CONTINUOUS:
        return "c"
    if name in DISCONTINUOUS or name.startswith("any_discontinuous_space_"):
        return "d"
    if name.startswith("any_space_") or name in ("any_w2", "wchi"):
        return "u"
    raise Unsupported("function space " + name)


ACCESS = {"READ": "read", "WRITE": "write", "READWRITE": "readwrite",
          "INC": "inc", "READINC": "readinc"}


def test_dir():
    '''The algorithm files are inputs: a scratch copy of the repository made
    without its tests (PV_REPO) uses those of /repo.'''
    for root in (core.REPO, "/repo"):
        path = os.path.join(root, "src", "psyclone", "tests", "test_files",
                            "dynamo0p3")
        if os.path.isdir(path):
            return path
    raise core.MachineryError("LFRic test algorithm files not found")


def list_files():
    # algorithm files only: the kernel modules (*_mod.f90) live alongside
    return sorted(f for f in os.listdir(test_dir())
                  if f.endswith(".f90") and not f.endswith("_mod.f90"))


# ------------------------------------------------------------ schedule metadata
def kernel_metadata(schedule):
    '''The kernels of a schedule in order with the metadata of their field
    arguments.'''
    from psyclone.domain.lfric import LFRicKern
    from psyclone.domain.lfric.lfric_builtins import LFRicBuiltIn
    res = []
    for kern in schedule.walk((LFRicKern, LFRicBuiltIn)):
        builtin = isinstance(kern, LFRicBuiltIn)
        args = []
        modes = []
        for arg in kern.arguments.args:
            if arg.access.name in ("WRITE", "READWRITE", "INC", "READINC",
                                   "SUM") and not arg.is_scalar:
                modes.append(arg.access.name)
            if not arg.is_field:
                continue
            if arg.access.name not in ACCESS:
                raise Unsupported("field access " + arg.access.name)
            sten = None
            if arg.descriptor.stencil:
                ext = arg.descriptor.stencil.get("extent")
                if ext:
                    sten = {"t": "lit", "v": int(ext)}
                elif arg.stencil.extent_arg.is_literal():
                    sten = {"t": "lit", "v": int(arg.stencil.extent_arg.text)}
                else:
                    sten = {"t": "var",
                            "n": arg.stencil.extent_arg.varname.lower()}
            args.append({"p": arg.proxy_name.lower(), "vec": arg.vector_size,
                         "a": ACCESS[arg.access.name],
                         "fs": arg.function_space.orig_name.lower(),
                         "s": sten,
                         "m": 2 if (kern.is_intergrid and
                                    arg.mesh == "gh_fine") else 1})
        res.append({"name": kern.name, "builtin": builtin,
                    "domain": kern.iterates_over == "domain",
                    "over": kern.iterates_over,
                    "intergrid": bool(getattr(kern, "is_intergrid", False)),
                    # every argument the kernel modifies has gh_write access
                    "allw": bool(modes) and all(m == "WRITE" for m in modes),
                    "args": args})
    return res


# ------------------------------------------------------------------ histories
def apply_op(schedule, op):
    '''Apply one operation of the alphabet with the real transformation.
    Raises TransformationError (refusal) or IndexError (no such target).'''
    from psyclone.domain.lfric import LFRicLoop
    from psyclone.dynamo0p3 import (LFRicHaloExchange, LFRicHaloExchangeStart,
                                    LFRicHaloExchangeEnd)
    from psyclone.transformations import (
        Dynamo0p3RedundantComputationTrans, Dynamo0p3AsyncHaloExchangeTrans,
        Dynamo0p3ColourTrans, DynamoOMPParallelLoopTrans)
    kind = op[0]
    if kind == "async":
        hexs = [n for n in schedule.walk(LFRicHaloExchange)
                if not isinstance(n, (LFRicHaloExchangeStart,
                                      LFRicHaloExchangeEnd))]
        Dynamo0p3AsyncHaloExchangeTrans().apply(hexs[op[1]])
        return
    outer = [n for n in schedule.walk(LFRicLoop) if n.loop_type != "colour"]
    loop = outer[op[1]]
    inner = loop
    if loop.loop_type == "colours":
        inner = [n for n in loop.walk(LFRicLoop) if n.loop_type == "colour"][0]
    if kind == "rc":
        opts = {"depth": op[2]} if op[2] else {}
        Dynamo0p3RedundantComputationTrans().apply(inner, opts)
    elif kind == "col":
        Dynamo0p3ColourTrans().apply(loop)
    elif kind == "colomp":
        Dynamo0p3ColourTrans().apply(loop)
        # the colour loop created for this loop: it is the one inside the
        # 'colours' loop now standing at the original position
        outer2 = [n for n in schedule.walk(LFRicLoop) if n.loop_type != "colour"]
        tgt = [n for n in outer2[op[1]].walk(LFRicLoop)
               if n.loop_type == "colour"][0]
        DynamoOMPParallelLoopTrans().apply(tgt)
    elif kind == "omp":
        DynamoOMPParallelLoopTrans().apply(inner)
    else:
        raise ValueError(op)


def alphabet(nloops, nhex):
    ops = []
    for i in range(nloops):
        ops += [("rc", i, 1), ("rc", i, 2), ("rc", i, 0),
                ("col", i), ("colomp", i), ("omp", i)]
    for j in range(nhex):
        ops.append(("async", j))
    return ops


def histories(nloops, nhex, maxlen, nsample, rnd):
    '''All histories of length <= 1; of the longer ones (up to maxlen) a
    deterministic sample: up to 4*nsample pairs of redundant-computation steps
    on two different loops (they decide which exchanges exist and how deep)
    plus nsample of the others, per length.  nsample None = all.'''
    ops = alphabet(nloops, nhex)
    # one more halo-exchange index: redundant computation can add exchanges
    ops2 = ops + [("async", nhex)]
    res = [()] + [(o,) for o in ops]
    if maxlen < 2:
        return res
    prev = [(o,) for o in ops]
    for _ in range(2, maxlen + 1):
        cur = [h + (o,) for h in prev for o in ops2 if o != h[-1]]
        if nsample is not None:
            def rcrc(h):
                return (h[-1][0] == "rc" and h[-2][0] == "rc"
                        and h[-1][1] != h[-2][1])
            first = [h for h in cur if rcrc(h)]
            rest = [h for h in cur if not rcrc(h)]
            if len(first) > 4 * nsample:
                first = rnd.sample(first, 4 * nsample)
            if len(rest) > nsample:
                rest = rnd.sample(rest, nsample)
            cur = first + rest
        res += cur
        prev = cur
    return res


# ------------------------------------------------------------------ projection
def _subst(expr, names):
    t = expr["t"]
    if t == "var":
        if expr["n"] not in names:
            names[expr["n"]] = len(names) + 1
        return {"t": "var", "i": names[expr["n"]]}
    if t in ("add", "sub", "mul"):
        return {"t": t, "a": _subst(expr["a"], names), "b": _subst(expr["b"], names)}
    if t == "max":
        return {"t": "max", "xs": [_subst(x, names) for x in expr["xs"]]}
    return expr


def components(kernels):
    '''proxy component name -> set of space classes, over all uses.'''
    comps = {}
    for k in kernels:
        for a in k["args"]:
            names = ([a["p"]] if a["vec"] <= 1 else
                     [f"{a['p']}({i})" for i in range(1, a["vec"] + 1)])
            for n in names:
                comps.setdefault(n, set()).add(space_class(a["fs"]))
    return comps


def project(items, kernels, comp, classes, annexed):
    '''The steps of an invoke that concern one field component.'''
    if "c" in classes and "d" in classes:
        raise Unsupported("field used on continuous and discontinuous spaces")
    cont = "c" if "c" in classes else ("d" if "d" in classes else "u")
    base = comp.split("(")[0]
    names = {}
    steps = []
    for it in items:
        k = it["k"]
        if k in ("hex", "hexs", "hexf"):
            if it["f"] != comp:
                continue
            steps.append({"k": k, "g": _subst(it["g"], names) if it["g"] else
                          {"t": "none"}, "e": _subst(it["e"], names)})
        elif k == "dirty":
            if it["f"] == comp:
                steps.append({"k": "dirty"})
        elif k == "clean":
            if it["f"] == comp:
                steps.append({"k": "clean", "e": _subst(it["e"], names)})
        elif k == "loop":
            accs = []
            allw = True
            for ki in it["kerns"]:
                kern = kernels[ki]
                mine = [a for a in kern["args"] if a["p"] == base]
                if not mine:
                    continue
                if accs:
                    raise Unsupported("field accessed by two kernels of one loop")
                if kern["intergrid"] and it["d"]["t"] == "H":
                    raise Unsupported("inter-grid loop to the maximum depth")
                if kern["domain"] != (it["kind"] == "domain"):
                    raise Unsupported("domain kernel inside a loop")
                allw = kern["allw"]
                for a in mine:
                    accs.append({"a": a["a"],
                                 "s": _subst(a["s"], names) if a["s"] else
                                 {"t": "lit", "v": 0},
                                 "st": bool(a["s"]), "m": a["m"]})
            if not accs:
                continue
            if sum(1 for a in accs if a["a"] != "read") > 1:
                raise Unsupported("field modified through two arguments")
            if it["kind"] == "domain" and cont == "c":
                raise Unsupported("domain kernel with a continuous field")
            steps.append({"k": "loop", "kind": it["kind"], "ub": it["ub"],
                          "d": it["d"], "allw": allw, "acc": accs})
        else:
            raise Unsupported("item " + k)
    return {"cont": cont, "ann": bool(annexed), "nv": len(names),
            "steps": steps}


# --------------------------------------------------------------------- worker
_RE_SUB = re.compile(r"^\s*SUBROUTINE (\w+)\(", re.I | re.M)


def split_subroutines(text):
    res = {}
    marks = [(m.start(), m.group(1).lower()) for m in _RE_SUB.finditer(text)]
    for i, (start, name) in enumerate(marks):
        end = marks[i + 1][0] if i + 1 < len(marks) else len(text)
        chunk = text[start:end]
        m = re.search(r"^\s*END SUBROUTINE \w+\s*$", chunk, re.I | re.M)
        if m:
            chunk = chunk[:m.end()]
        res[name] = chunk
    return res


def work(job):
    '''job = (file, maxlen, nsample, seed, annexed settings).  Returns a dict
    with the projected cases of every (annexed setting, invoke, history,
    component).'''
    fname, maxlen, nsample, seed, settings = job
    core.setup_psyclone_env()
    from psyclone.parse.algorithm import parse
    from psyclone.psyGen import PSyFactory
    from psyclone.configuration import Config
    from psyclone.errors import GenerationError, InternalError
    from psyclone.psyir.transformations import TransformationError
    from psyclone.domain.lfric import LFRicLoop
    from psyclone.dynamo0p3 import LFRicHaloExchange
    out = {"file": fname, "cases": [], "layers": 0, "refused": 0,
           "generr": 0, "unsupported": [], "parse_error": None, "invokes": 0}
    Config.get().api_conf("lfric")._compute_annexed_dofs = False
    try:
        _, info = parse(os.path.join(test_dir(), fname), api="dynamo0.3")
        psy0 = PSyFactory("dynamo0.3", distributed_memory=True).create(info)
        ninv = len(psy0.invokes.invoke_list)
    except Exception as err:   # noqa  (negative test inputs of the repository)
        out["parse_error"] = type(err).__name__
        return out
    out["invokes"] = ninv
    for annexed in settings:
        Config.get().api_conf("lfric")._compute_annexed_dofs = annexed
        try:
            psy0 = PSyFactory("dynamo0.3", distributed_memory=True).create(info)
        except Exception as err:   # noqa
            out["parse_error"] = type(err).__name__
            continue
        for iidx in range(ninv):
            sched0 = psy0.invokes.invoke_list[iidx].schedule
            nloops = len([n for n in sched0.walk(LFRicLoop)])
            nhex = len(sched0.walk(LFRicHaloExchange))
            rnd = random.Random(int(hashlib.sha1(
                f"{fname}|{iidx}|{annexed}|{seed}".encode()).hexdigest()[:8], 16))
            for hist in histories(nloops, nhex, maxlen, nsample, rnd):
                origin = {"file": fname, "invoke": iidx, "annexed": annexed,
                          "history": [list(o) for o in hist]}
                try:
                    psy = PSyFactory("dynamo0.3",
                                     distributed_memory=True).create(info)
                    invoke = psy.invokes.invoke_list[iidx]
                    for op in hist:
                        apply_op(invoke.schedule, op)
                except (TransformationError, IndexError):
                    out["refused"] += 1
                    continue
                except (GenerationError, InternalError) as err:
                    out["refused"] += 1
                    continue
                try:
                    # the module as PSyclone writes it, restricted to the
                    # invoke under test (the other subroutines of the file
                    # are generated when their own histories are run)
                    psy.invokes.invoke_list = [invoke]
                    text = str(psy.gen)
                except Exception as err:    # noqa
                    # accepted, then refused (or crashed) at code generation:
                    # there is no product to judge
                    out["generr"] += 1
                    out.setdefault("generr_samples", []).append(
                        (origin, type(err).__name__ + ": " + str(err)[-300:]))
                    continue
                out["layers"] += 1
                origin["invoke_name"] = invoke.name
                try:
                    subs = split_subroutines(text)
                    if invoke.name.lower() not in subs:
                        raise Unsupported("subroutine not found")
                    kernels = kernel_metadata(invoke.schedule)
                    items = itemise(subs[invoke.name.lower()], kernels)
                    comps = components(kernels)
                    for f in (it["f"] for it in items if "f" in it):
                        if f not in comps:
                            raise Unsupported("halo call on unknown field " + f)
                    projected = []
                    for comp in sorted(comps):
                        pc = project(items, kernels, comp, comps[comp], annexed)
                        if pc["steps"]:
                            projected.append((comp, pc))
                except Unsupported as err:
                    out["unsupported"].append((origin, str(err)))
                    continue
                for comp, pc in projected:
                    out["cases"].append((dict(origin, field=comp),
                                         json.dumps(pc, sort_keys=True,
                                                    separators=(",", ":"))))
    Config.get().api_conf("lfric")._compute_annexed_dofs = False
    return out
