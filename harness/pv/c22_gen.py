'''C22 helper - drives the real PSyclone: generates distributed-memory LFRic PSy
layers for the repository's test algorithm files under transformation
histories, itemises the generated Fortran (c22_item) and projects every invoke
onto each of its field components (one TLC case per component).'''
import hashlib
import json
import os
import random
import re
import shutil

from pv import core
from pv.c22_item import Unsupported, itemise

# continuity (in the horizontal) of the function spaces, from the table in
# doc/user_guide/dynamo0p3.rst "Supported Function Spaces".  any_space_n and
# any_w2 are *treated* as continuous by PSyclone but the field actually passed
# may be either; wchi is discontinuous except at order 0.
CONTINUOUS = {"w0", "w1", "w2", "w2h", "w2trace", "w2htrace"}
DISCONTINUOUS = {"w2broken", "w2v", "w2vtrace", "w3", "wtheta"}


def space_class(name):
    name = name.lower()
    if name in CONTINUOUS:
        return "c"
    if name in DISCONTINUOUS or name.startswith("any_discontinuous_space_"):
        return "d"
    if name.startswith("any_space_") or name in ("any_w2", "wchi"):
        return "u"
    raise Unsupported("function space " + name)


ACCESS = {"READ": "read", "WRITE": "write", "READWRITE": "readwrite",
          "INC": "inc", "READINC": "readinc"}


def test_dir():
    '''The algorithm files are inputs: a scratch copy of the repository made
    without its tests (PV_REPO) uses those of /repo.'''
    for root in (core.REPO, "/repo"):
        path = os.path.join(root, "src", "psyclone", "tests", "test_files",
                            "dynamo0p3")
        if os.path.isdir(path):
            return path
    raise core.MachineryError("LFRic test algorithm files not found")


# Small generated algorithm files (kernels of the repository's test corpus): one
# field read through a stencil of VARIABLE extent and, in another loop of the
# same invoke, read plainly to a fixed level - so that one halo exchange has to
# serve MAX(extent + k, fixed depth), also after redundant computation.
_GEN_HEAD = '''program c22_gen
  use constants_mod,              only: r_def, i_def
  use field_mod,                  only: field_type
  use testkern_stencil_depth_mod, only: testkern_stencil_depth_type
  use testkern_stencil_mod,       only: testkern_stencil_type
  use testkern_mod,               only: testkern_type
  use testkern_w3_mod,            only: testkern_w3_type
  implicit none
  type(field_type) :: f1, f2, f3, f4, g1, g2, m1, m2, h0, h1
  real(r_def)      :: a
  integer(i_def)   :: e1, e2, e3
'''
GENERATED = {
    # stencil reads on owned cells (extent), then plain reads in a loop that
    # includes the level-1 halo (w2 field f3 and w3 field f4)
    "gen_c22_stencil_then_read.f90":
        "  call invoke( testkern_stencil_depth_type(f1, f2, e1, f3, e2, f4, e3), &\n"
        "               testkern_type(a, g1, f3, m1, f4) )\n",
    # the same two kernels in the other order
    "gen_c22_read_then_stencil.f90":
        "  call invoke( testkern_type(a, g1, f3, m1, f4), &\n"
        "               testkern_stencil_depth_type(f1, f2, e1, f3, e2, f4, e3) )\n",
    # stencil read in a loop including the level-1 halo (extent + 1), then a
    # plain read on owned cells (deeper after redundant computation)
    "gen_c22_halo_stencil_then_read.f90":
        "  call invoke( testkern_stencil_type(g1, f3, e2, m1, m2), &\n"
        "               testkern_w3_type(a, h0, h1, f3, f1) )\n",
    # stencil reads and plain reads both on owned cells
    "gen_c22_stencil_then_owned_read.f90":
        "  call invoke( testkern_stencil_depth_type(f1, f2, e1, f3, e2, f4, e3), &\n"
        "               testkern_w3_type(a, h0, f2, f3, g2) )\n",
}


# Generated KERNELS (metadata only matters for the PSy layer): kernels whose
# iteration space comes from an LMA operator they write - the loop then includes
# the level-1 halo whatever the operator's spaces - and that also modify / read
# fields on continuous and discontinuous spaces; and simple readers.
# argument = ("op", access, to, from) | ("f", access, space[, stencil])
GEN_KERNELS = {
    "c22k_op_w2w3_inc_w1":    [("op", "gh_write", "w2", "w3"),
                               ("f", "gh_inc", "w1")],
    "c22k_op_w3w3_inc_w0":    [("op", "gh_readwrite", "w3", "w3"),
                               ("f", "gh_inc", "w0"),
                               ("f", "gh_read", "w2", "cross")],
    "c22k_op_wthw1_rinc_w2":  [("op", "gh_write", "wtheta", "w1"),
                               ("f", "gh_readinc", "w2"),
                               ("f", "gh_readwrite", "w3")],
    "c22k_op_w0w0_write_w1":  [("op", "gh_write", "w0", "w0"),
                               ("f", "gh_write", "w1"),
                               ("f", "gh_read", "w3")],
    "c22k_op_w1wth_wr_wth":   [("op", "gh_write", "w1", "wtheta"),
                               ("f", "gh_write", "wtheta"),
                               ("f", "gh_read", "w1")],
    # operator only read: the loop space comes from the modified field
    "c22k_opread_rw_w3":      [("op", "gh_read", "w2", "w3"),
                               ("f", "gh_readwrite", "w3"),
                               ("f", "gh_read", "w2")],
    "c22k_opread_inc_w2":     [("op", "gh_read", "w2", "w3"),
                               ("f", "gh_inc", "w2"),
                               ("f", "gh_read", "w3")],
    # readers: over the level-1 halo (gh_inc w1) / over owned cells (w3)
    "c22k_rd_w0": [("f", "gh_inc", "w1"), ("f", "gh_read", "w0")],
    "c22k_rd_w1": [("f", "gh_inc", "w1"), ("f", "gh_read", "w1")],
    "c22k_rd_w2": [("f", "gh_inc", "w1"), ("f", "gh_read", "w2")],
    "c22k_rd_w3": [("f", "gh_inc", "w1"), ("f", "gh_read", "w3")],
    "c22k_rd_wth": [("f", "gh_inc", "w1"), ("f", "gh_read", "wtheta")],
    "c22k_ord_w1": [("f", "gh_readwrite", "w3"), ("f", "gh_read", "w1")],
    "c22k_ord_w2": [("f", "gh_readwrite", "w3"), ("f", "gh_read", "w2")],
    "c22k_srd_w3": [("f", "gh_readwrite", "w3"),
                    ("f", "gh_read", "w3", "cross")],
    "c22k_srd_wth": [("f", "gh_readwrite", "w3"),
                     ("f", "gh_read", "wtheta", "cross")],
}


def kernel_text(name):
    lines = []
    for arg in GEN_KERNELS[name]:
        if arg[0] == "op":
            lines.append(f"arg_type(gh_operator, gh_real, {arg[1]}, {arg[2]}, "
                         f"{arg[3]})")
        elif len(arg) > 3:
            lines.append(f"arg_type(gh_field, gh_real, {arg[1]}, {arg[2]}, "
                         f"stencil({arg[3]}))")
        else:
            lines.append(f"arg_type(gh_field, gh_real, {arg[1]}, {arg[2]})")
    meta = ", &\n             ".join(lines)
    return f'''module {name}_mod
  use argument_mod
  use fs_continuity_mod
  use kernel_mod
  use constants_mod
  implicit none
  type, extends(kernel_type) :: {name}_type
     type(arg_type), dimension({len(lines)}) :: meta_args = &
          (/ {meta} &
           /)
     integer :: operates_on = cell_column
   contains
     procedure, nopass :: code => {name}_code
  end type {name}_type
contains
  subroutine {name}_code()
  end subroutine {name}_code
end module {name}_mod
'''


# algorithm files over the generated kernels: list of (kernel, actual arguments)
GENERATED_OP = {
    # the operator's from-space is discontinuous, a continuous field is
    # incremented; read afterwards in the level-1 halo and on owned cells
    "gen_c22_op_inc_then_read.f90": [
        ("c22k_op_w2w3_inc_w1", "op1, f1"), ("c22k_rd_w1", "g1, f1"),
        ("c22k_ord_w1", "d1, f1")],
    "gen_c22_op_inc_w0_stencil.f90": [
        ("c22k_op_w3w3_inc_w0", "op1, f0, f2, e1"), ("c22k_rd_w0", "g1, f0"),
        ("c22k_rd_w2", "g2, f2")],
    "gen_c22_op_readinc_rw.f90": [
        ("c22k_op_wthw1_rinc_w2", "op1, f2, f3"), ("c22k_rd_w2", "g1, f2"),
        ("c22k_rd_w3", "g2, f3"), ("c22k_srd_w3", "d1, f3, e1")],
    "gen_c22_op_write_cont.f90": [
        ("c22k_op_w0w0_write_w1", "op1, f1, f3"), ("c22k_rd_w1", "g1, f1"),
        ("c22k_ord_w1", "d1, f1")],
    "gen_c22_op_write_disc.f90": [
        ("c22k_op_w1wth_wr_wth", "op1, ft, f1"), ("c22k_rd_wth", "g1, ft"),
        ("c22k_srd_wth", "d1, ft, e1")],
    "gen_c22_opread.f90": [
        ("c22k_opread_rw_w3", "op1, f3, f2"), ("c22k_rd_w3", "g1, f3"),
        ("c22k_opread_inc_w2", "op1, f2, f3"), ("c22k_ord_w2", "d1, f2")],
    # a built-in leaves the field's annexed dofs stale before the operator
    # kernel increments it
    "gen_c22_builtin_op_inc.f90": [
        ("setval_c", "f1, 0.0_r_def"), ("c22k_op_w2w3_inc_w1", "op1, f1"),
        ("c22k_rd_w1", "g1, f1")],
}


def generated_text(name):
    if name in GENERATED:
        return _GEN_HEAD + GENERATED[name] + "end program c22_gen\n"
    calls = GENERATED_OP[name]
    kerns = sorted({k for k, _ in calls if k in GEN_KERNELS})
    uses = "".join(f"  use {k}_mod, only: {k}_type\n" for k in kerns)
    body = ", &\n               ".join(
        (f"{k}_type({a})" if k in GEN_KERNELS else f"{k}({a})")
        for k, a in calls)
    return (f"program c22_gen_op\n  use constants_mod, only: r_def, i_def\n"
            f"  use field_mod,    only: field_type\n"
            f"  use operator_mod, only: operator_type\n{uses}"
            f"  implicit none\n"
            f"  type(field_type)    :: f0, f1, f2, f3, ft, g1, g2, d1\n"
            f"  type(operator_type) :: op1\n  integer(i_def) :: e1\n"
            f"  call invoke( {body} )\nend program c22_gen_op\n")


def generated_kernels(name):
    '''{file name: text} of the generated kernels an algorithm file uses.'''
    if name not in GENERATED_OP:
        return {}
    return {f"{k}_mod.f90": kernel_text(k)
            for k, _ in GENERATED_OP[name] if k in GEN_KERNELS}


def is_generated(name):
    return name in GENERATED or name in GENERATED_OP


def list_files():
    # algorithm files only: the kernel modules (*_mod.f90) live alongside
    return sorted(f for f in os.listdir(test_dir())
                  if f.endswith(".f90") and not f.endswith("_mod.f90")) \
        + sorted(GENERATED) + sorted(GENERATED_OP)


# ------------------------------------------------------------ schedule metadata
def kernel_metadata(schedule):
    '''The kernels of a schedule in order with the metadata of their field
    arguments.'''
    from psyclone.domain.lfric import LFRicKern
    from psyclone.domain.lfric.lfric_builtins import LFRicBuiltIn
    res = []
    for kern in schedule.walk((LFRicKern, LFRicBuiltIn)):
        builtin = isinstance(kern, LFRicBuiltIn)
        args = []
        modes = []
        for arg in kern.arguments.args:
            if arg.access.name in ("WRITE", "READWRITE", "INC", "READINC",
                                   "SUM") and not arg.is_scalar:
                modes.append(arg.access.name)
            if not arg.is_field:
                continue
            if arg.access.name not in ACCESS:
                raise Unsupported("field access " + arg.access.name)
            sten = None
            if arg.descriptor.stencil:
                ext = arg.descriptor.stencil.get("extent")
                if ext:
                    sten = {"t": "lit", "v": int(ext)}
                elif arg.stencil.extent_arg.is_literal():
                    sten = {"t": "lit", "v": int(arg.stencil.extent_arg.text)}
                else:
                    sten = {"t": "var",
                            "n": arg.stencil.extent_arg.varname.lower()}
            args.append({"p": arg.proxy_name.lower(), "vec": arg.vector_size,
                         "a": ACCESS[arg.access.name],
                         "fs": arg.function_space.orig_name.lower(),
                         "s": sten,
                         "m": 2 if (kern.is_intergrid and
                                    arg.mesh == "gh_fine") else 1})
        res.append({"name": kern.name, "builtin": builtin,
                    "domain": kern.iterates_over == "domain",
                    "over": kern.iterates_over,
                    "intergrid": bool(getattr(kern, "is_intergrid", False)),
                    # every argument the kernel modifies has gh_write access
                    "allw": bool(modes) and all(m == "WRITE" for m in modes),
                    "args": args})
    return res


# ------------------------------------------------------------------ histories
def apply_op(schedule, op):
    '''Apply one operation of the alphabet with the real transformation.
    Raises TransformationError (refusal) or IndexError (no such target).'''
    from psyclone.domain.lfric import LFRicLoop
    from psyclone.dynamo0p3 import (LFRicHaloExchange, LFRicHaloExchangeStart,
                                    LFRicHaloExchangeEnd)
    from psyclone.transformations import (
        Dynamo0p3RedundantComputationTrans, Dynamo0p3AsyncHaloExchangeTrans,
        Dynamo0p3ColourTrans, DynamoOMPParallelLoopTrans)
    kind = op[0]
    if kind == "async":
        hexs = [n for n in schedule.walk(LFRicHaloExchange)
                if not isinstance(n, (LFRicHaloExchangeStart,
                                      LFRicHaloExchangeEnd))]
        Dynamo0p3AsyncHaloExchangeTrans().apply(hexs[op[1]])
        return
    outer = [n for n in schedule.walk(LFRicLoop) if n.loop_type != "colour"]
    loop = outer[op[1]]
    inner = loop
    if loop.loop_type == "colours":
        inner = [n for n in loop.walk(LFRicLoop) if n.loop_type == "colour"][0]
    if kind == "rc":
        opts = {"depth": op[2]} if op[2] else {}
        Dynamo0p3RedundantComputationTrans().apply(inner, opts)
    elif kind == "col":
        Dynamo0p3ColourTrans().apply(loop)
    elif kind == "colomp":
        Dynamo0p3ColourTrans().apply(loop)
        # the colour loop created for this loop: it is the one inside the
        # 'colours' loop now standing at the original position
        outer2 = [n for n in schedule.walk(LFRicLoop) if n.loop_type != "colour"]
        tgt = [n for n in outer2[op[1]].walk(LFRicLoop)
               if n.loop_type == "colour"][0]
        DynamoOMPParallelLoopTrans().apply(tgt)
    elif kind == "omp":
        DynamoOMPParallelLoopTrans().apply(inner)
    else:
        raise ValueError(op)


def alphabet(nloops, nhex, lean=False):
    '''lean (quick tier): colouring only together with OpenMP (the halo calls
    of "col" and "colomp" are the same) and at most three asynchronous
    exchanges per invoke (first, middle, last).'''
    ops = []
    for i in range(nloops):
        ops += [("rc", i, 1), ("rc", i, 2), ("rc", i, 0)]
        if not lean:
            ops.append(("col", i))
        ops += [("colomp", i), ("omp", i)]
    hexes = list(range(nhex))
    if lean and nhex > 3:
        hexes = sorted({0, nhex // 2, nhex - 1})
    for j in hexes:
        ops.append(("async", j))
    return ops


def histories(nloops, nhex, maxlen, nsample, rnd, lean=False):
    '''All histories of length <= 1; of the longer ones (up to maxlen) a
    deterministic sample: up to 4*nsample pairs of redundant-computation steps
    on two different loops (they decide which exchanges exist and how deep)
    plus nsample of the others, per length.  nsample None = all.'''
    ops = alphabet(nloops, nhex, lean)
    # one more halo-exchange index: redundant computation can add exchanges
    ops2 = ops + [("async", nhex)]
    res = [()] + [(o,) for o in ops]
    if maxlen < 2:
        return res
    prev = [(o,) for o in ops]
    for _ in range(2, maxlen + 1):
        cur = [h + (o,) for h in prev for o in ops2 if o != h[-1]]
        if nsample is not None:
            def rcrc(h):
                return (h[-1][0] == "rc" and h[-2][0] == "rc"
                        and h[-1][1] != h[-2][1])
            first = [h for h in cur if rcrc(h)]
            rest = [h for h in cur if not rcrc(h)]
            # (18: every such pair of an invoke with two loops)
            if len(first) > max(4 * nsample, 18):
                first = rnd.sample(first, max(4 * nsample, 18))
            if len(rest) > nsample:
                rest = rnd.sample(rest, nsample)
            cur = first + rest
        res += cur
        prev = cur
    return res


# ------------------------------------------------------------------ projection
def _subst(expr, names):
    t = expr["t"]
    if t == "var":
        if expr["n"] not in names:
            names[expr["n"]] = len(names) + 1
        return {"t": "var", "i": names[expr["n"]]}
    if t in ("add", "sub", "mul"):
        return {"t": t, "a": _subst(expr["a"], names), "b": _subst(expr["b"], names)}
    if t == "max":
        return {"t": "max", "xs": [_subst(x, names) for x in expr["xs"]]}
    return expr


def components(kernels):
    '''proxy component name -> set of space classes, over all uses.'''
    comps = {}
    for k in kernels:
        for a in k["args"]:
            names = ([a["p"]] if a["vec"] <= 1 else
                     [f"{a['p']}({i})" for i in range(1, a["vec"] + 1)])
            for n in names:
                comps.setdefault(n, set()).add(space_class(a["fs"]))
    return comps


def project(items, kernels, comp, classes, annexed):
    '''The steps of an invoke that concern one field component.'''
    if "c" in classes and "d" in classes:
        raise Unsupported("field used on continuous and discontinuous spaces")
    cont = "c" if "c" in classes else ("d" if "d" in classes else "u")
    base = comp.split("(")[0]
    names = {}
    steps = []
    for it in items:
        k = it["k"]
        if k in ("hex", "hexs", "hexf"):
            if it["f"] != comp:
                continue
            steps.append({"k": k, "g": _subst(it["g"], names) if it["g"] else
                          {"t": "none"}, "e": _subst(it["e"], names)})
        elif k == "dirty":
            if it["f"] == comp:
                steps.append({"k": "dirty"})
        elif k == "clean":
            if it["f"] == comp:
                steps.append({"k": "clean", "e": _subst(it["e"], names)})
        elif k == "loop":
            accs = []
            allw = True
            for ki in it["kerns"]:
                kern = kernels[ki]
                mine = [a for a in kern["args"] if a["p"] == base]
                if not mine:
                    continue
                if accs:
                    raise Unsupported("field accessed by two kernels of one loop")
                if kern["intergrid"] and it["d"]["t"] == "H":
                    raise Unsupported("inter-grid loop to the maximum depth")
                if kern["domain"] != (it["kind"] == "domain"):
                    raise Unsupported("domain kernel inside a loop")
                allw = kern["allw"]
                for a in mine:
                    accs.append({"a": a["a"],
                                 "s": _subst(a["s"], names) if a["s"] else
                                 {"t": "lit", "v": 0},
                                 "st": bool(a["s"]), "m": a["m"]})
            if not accs:
                continue
            if sum(1 for a in accs if a["a"] != "read") > 1:
                raise Unsupported("field modified through two arguments")
            if it["kind"] == "domain" and cont == "c":
                raise Unsupported("domain kernel with a continuous field")
            steps.append({"k": "loop", "kind": it["kind"], "ub": it["ub"],
                          "d": it["d"], "allw": allw, "acc": accs})
        else:
            raise Unsupported("item " + k)
    return {"cont": cont, "ann": bool(annexed), "nv": len(names),
            "steps": steps}


# --------------------------------------------------------------------- worker
_RE_SUB = re.compile(r"^\s*SUBROUTINE (\w+)\(", re.I | re.M)


def split_subroutines(text):
    res = {}
    marks = [(m.start(), m.group(1).lower()) for m in _RE_SUB.finditer(text)]
    for i, (start, name) in enumerate(marks):
        end = marks[i + 1][0] if i + 1 < len(marks) else len(text)
        chunk = text[start:end]
        m = re.search(r"^\s*END SUBROUTINE \w+\s*$", chunk, re.I | re.M)
        if m:
            chunk = chunk[:m.end()]
        res[name] = chunk
    return res


def work(job):
    '''job = (file, maxlen, nsample, seed, annexed settings, lean).  Returns a dict
    with the projected cases of every (annexed setting, invoke, history,
    component).'''
    fname, maxlen, nsample, seed, settings, lean = job
    core.setup_psyclone_env()
    from psyclone.parse.algorithm import parse
    from psyclone.psyGen import PSyFactory
    from psyclone.configuration import Config
    from psyclone.errors import GenerationError, InternalError
    from psyclone.psyir.transformations import TransformationError
    from psyclone.domain.lfric import LFRicLoop
    from psyclone.dynamo0p3 import LFRicHaloExchange
    out = {"file": fname, "cases": [], "layers": 0, "refused": 0,
           "generr": 0, "unsupported": [], "parse_error": None, "invokes": 0}
    Config.get().api_conf("lfric")._compute_annexed_dofs = False
    try:
        if is_generated(fname):
            gdir = core.mktemp("pv-c22-alg-")
            try:
                with open(os.path.join(gdir, fname), "w") as fobj:
                    fobj.write(generated_text(fname))
                for kname, ktext in generated_kernels(fname).items():
                    with open(os.path.join(gdir, kname), "w") as fobj:
                        fobj.write(ktext)
                _, info = parse(os.path.join(gdir, fname), api="dynamo0.3",
                                kernel_paths=([gdir] if fname in GENERATED_OP
                                              else [test_dir()]))
            finally:
                shutil.rmtree(gdir, ignore_errors=True)
        else:
            _, info = parse(os.path.join(test_dir(), fname), api="dynamo0.3")
        psy0 = PSyFactory("dynamo0.3", distributed_memory=True).create(info)
        ninv = len(psy0.invokes.invoke_list)
    except Exception as err:   # noqa  (negative test inputs of the repository)
        out["parse_error"] = type(err).__name__
        return out
    out["invokes"] = ninv
    for annexed in settings:
        Config.get().api_conf("lfric")._compute_annexed_dofs = annexed
        try:
            psy0 = PSyFactory("dynamo0.3", distributed_memory=True).create(info)
        except Exception as err:   # noqa
            out["parse_error"] = type(err).__name__
            continue
        for iidx in range(ninv):
            sched0 = psy0.invokes.invoke_list[iidx].schedule
            nloops = len([n for n in sched0.walk(LFRicLoop)])
            nhex = len(sched0.walk(LFRicHaloExchange))
            rnd = random.Random(int(hashlib.sha1(
                f"{fname}|{iidx}|{annexed}|{seed}".encode()).hexdigest()[:8], 16))
            refused = set()      # refused prefixes (histories come shortest first)
            for hist in histories(nloops, nhex, maxlen, nsample, rnd, lean):
                origin = {"file": fname, "invoke": iidx, "annexed": annexed,
                          "history": [list(o) for o in hist]}
                if any(hist[:n] in refused for n in range(1, len(hist))):
                    out["refused"] += 1
                    continue
                done = 0
                try:
                    psy = PSyFactory("dynamo0.3",
                                     distributed_memory=True).create(info)
                    invoke = psy.invokes.invoke_list[iidx]
                    for op in hist:
                        apply_op(invoke.schedule, op)
                        done += 1
                except (TransformationError, IndexError, GenerationError,
                        InternalError):
                    refused.add(hist[:done + 1])
                    out["refused"] += 1
                    continue
                try:
                    # the module as PSyclone writes it, restricted to the
                    # invoke under test (the other subroutines of the file
                    # are generated when their own histories are run)
                    psy.invokes.invoke_list = [invoke]
                    text = str(psy.gen)
                except Exception as err:    # noqa
                    # accepted, then refused (or crashed) at code generation:
                    # there is no product to judge
                    out["generr"] += 1
                    out.setdefault("generr_samples", []).append(
                        (origin, type(err).__name__ + ": " + str(err)[-300:]))
                    continue
                out["layers"] += 1
                origin["invoke_name"] = invoke.name
                try:
                    subs = split_subroutines(text)
                    if invoke.name.lower() not in subs:
                        raise Unsupported("subroutine not found")
                    kernels = kernel_metadata(invoke.schedule)
                    items = itemise(subs[invoke.name.lower()], kernels)
                    comps = components(kernels)
                    for f in (it["f"] for it in items if "f" in it):
                        if f not in comps:
                            raise Unsupported("halo call on unknown field " + f)
                    projected = []
                    for comp in sorted(comps):
                        pc = project(items, kernels, comp, comps[comp], annexed)
                        if pc["steps"]:
                            projected.append((comp, pc))
                except Unsupported as err:
                    out["unsupported"].append((origin, str(err)))
                    continue
                for comp, pc in projected:
                    out["cases"].append((dict(origin, field=comp),
                                         json.dumps(pc, sort_keys=True,
                                                    separators=(",", ":"))))
    Config.get().api_conf("lfric")._compute_annexed_dofs = False
    return out
