'''C04 helper - sources of written program units:
 (i)   generated declaration shapes (parameters depending on parameters, kind
       parameters, bounds, initial values, derived types) + the C03 family;
 (ii)  histories of accepted transformations on the C05/C06/C07 families;
 (iii) generated LFRic / GOcean PSy layers.
Every source yields (origin, text A [, text B]) where A is what PSyclone wrote
and B is the same tree written after every renameable symbol got a unique
name (the identity tags for the NoCapture clause).'''
import itertools
import os
import random
import re
from collections import OrderedDict

from pv import core

# ------------------------------------------------------------ (i) declarations
_DECL_POOL = [
    # (declaration, names it needs)
    ("integer, parameter :: k = 4", ()),
    ("integer, parameter :: n = 2 * k", ("k",)),
    ("integer, parameter :: m = n + k", ("n", "k")),
    ("integer, parameter :: wp = kind(1.0d0)", ()),
    ("real(kind=wp), parameter :: pi = 3.14_wp", ("wp",)),
    ("real(kind=wp), parameter :: twopi = 2.0_wp * pi", ("wp", "pi")),
    ("real(kind=wp), dimension(n) :: arr", ("wp", "n")),
    ("real(kind=wp), dimension(k, m) :: mat", ("wp", "k", "m")),
    ("integer :: counter = m", ("m",)),
    ("real(kind=wp) :: scale = twopi", ("wp", "twopi")),
    ("character(len=k) :: label", ("k",)),
    ("integer, dimension(k), parameter :: idx = (/ 1, 2, 3, 4 /)", ("k",)),
    ("real, dimension(idx(2)) :: small", ("idx",)),
    ("real :: r_val", ()),
    ("integer, parameter :: r_native = kind(r_val)", ("r_val",)),
    ("real(kind=r_native) :: native_var", ("r_native",)),
    ("type :: pt\n  integer :: x\n  real, dimension(3) :: y\nend type pt", ()),
    ("type(pt) :: pv", ("pt",)),
    ("integer, parameter :: big = selected_int_kind(12)", ()),
    ("integer(kind=big) :: wide = 10_big", ("big",)),
    ("logical, parameter :: flag = k > 2", ("k",)),
    ("integer, parameter :: sz = size(idx)", ("idx",)),
]


def _closure(pick):
    need = list(pick)
    seen = []
    while need:
        i = need.pop()
        if i in seen:
            continue
        seen.append(i)
        for nm in _DECL_POOL[i][1]:
            for j, (d, _) in enumerate(_DECL_POOL):
                if re.search(r"::\s*" + nm + r"\b", d) or d.startswith("type :: " + nm):
                    need.append(j)
    return seen


def _legal_order(idxs, rnd):
    '''a random order in which everything is declared before it is used'''
    left = list(idxs)
    done, names = [], set()
    while left:
        ready = [i for i in left if all(n in names for n in _DECL_POOL[i][1])]
        i = rnd.choice(sorted(ready))
        left.remove(i)
        done.append(i)
        d = _DECL_POOL[i][0]
        m = re.search(r"::\s*(\w+)", d)
        names.add(m.group(1))
    return done


def decl_programs(count, seed):
    for idx in range(count):
        rnd = random.Random(seed * 6007 + idx * 7919 + 5)
        pick = rnd.sample(range(len(_DECL_POOL)), rnd.randint(2, 6))
        order = _legal_order(_closure(pick), rnd)
        decls = [l for i in order for l in _DECL_POOL[i][0].split("\n")]
        shape = idx % 3
        uses = "a(1) = 1.0\n"
        if shape == 0:      # module variables + a routine that uses them
            src = (f"module d{idx}_mod\n  implicit none\n" +
                   "".join("  " + d + "\n" for d in decls) +
                   "contains\n  subroutine s(a, nn)\n    integer, intent(in) :: nn\n"
                   "    real, dimension(nn), intent(inout) :: a\n    " + uses +
                   f"  end subroutine s\nend module d{idx}_mod\n")
        elif shape == 1:    # routine-local declarations
            src = ("subroutine s(a, nn)\n  integer, intent(in) :: nn\n"
                   "  real, dimension(nn), intent(inout) :: a\n" +
                   "".join("  " + d + "\n" for d in decls) + "  " + uses + "end subroutine s\n")
        else:               # program
            src = ("program p\n" + "".join("  " + d + "\n" for d in decls) +
                   "  real, dimension(4) :: a\n  " + uses + "end program p\n")
        yield {"family": "decls", "index": idx, "source": src}


# ------------------------------- (i') inner-scope names against module names
def clash_programs(count, seed):
    '''Modules whose routine has the same symbol name in two or three sibling
    inner scopes (the widx1 loop variable of a WHERE inside each of several DO
    loops; a 'tmp' added to each loop body through the API) while the module
    itself declares - and the routine references - variables called exactly
    like the first candidates for a renamed symbol (<name>_1, <name>_2).'''
    for idx in range(count):
        rnd = random.Random(seed * 8191 + idx * 131 + 3)
        nloops = rnd.choice([2, 2, 3])
        where = rnd.random() < 0.65
        api = (not where) or rnd.random() < 0.5
        mods = []
        if where:
            mods += rnd.choice([["widx1_1"], ["widx1_1", "widx1_2"], ["widx1_2"]])
        if api:
            mods += rnd.choice([["tmp_1"], ["tmp_1", "tmp_2"], ["tmp_2"]])
        arrays = ["a", "b", "c"][:nloops]
        src = [f"module c{idx}_mod", "  implicit none"]
        for k, nm in enumerate(mods):
            src.append(f"  integer :: {nm} = {k + 7}" if nm.startswith("widx")
                       else f"  real :: {nm} = {k + 1}.5")
        src += ["contains", f"  subroutine s({', '.join(arrays)}, n, total, x)",
                "    integer, intent(in) :: n"]
        src += [f"    real, dimension(10,n), intent(inout) :: {v}" for v in arrays]
        src += ["    integer, intent(out) :: total", "    real, intent(out) :: x",
                "    integer :: j"]
        for v in arrays:
            src.append("    do j = 1, n, 1")
            if where:
                src += [f"      where ({v}(:,j) > 0.0)", f"        {v}(:,j) = 0.0",
                        "      end where"]
            else:
                src.append(f"      {v}(1,j) = 0.0")
            src.append("    enddo")
        ints = [m for m in mods if m.startswith("widx")]
        reals = [m for m in mods if m.startswith("tmp")]
        src.append("    total = " + (" + ".join(ints) if ints else "0"))
        src.append("    x = " + (" + ".join(reals) if reals else "0.0"))
        src += ["  end subroutine s", f"end module c{idx}_mod"]
        yield {"family": "modclash", "index": idx, "source": "\n".join(src) + "\n",
               "api_step": api, "module_names": mods}


def sibling_symbols(psyir, name="tmp"):
    '''API step: every top-level loop body of every routine gets its own symbol
    of the given name (not visible from outside the body) and uses it.'''
    from psyclone.psyir.nodes import Loop, Assignment, Reference, Literal, Routine
    from psyclone.psyir.symbols import DataSymbol, REAL_TYPE
    n = 0
    for routine in psyir.walk(Routine):
        for lp in [c for c in routine.children if isinstance(c, Loop)]:
            table = lp.loop_body.symbol_table
            try:
                table.lookup(name)
                continue                    # visible from an outer scope: leave
            except KeyError:
                pass
            sym = DataSymbol(name, REAL_TYPE)
            table.add(sym)
            lp.loop_body.addchild(Assignment.create(Reference(sym),
                                                    Literal("1.5", REAL_TYPE)), 0)
            n += 1
    return n


# ------------------------------------------------------------- (ii) histories
def _omp_step(kind):
    '''final step of a history: a directive transformation on the first loop
    that accepts it (OpenMP parallel do / parallel + do) or OpenACC kernels
    around the routine body'''
    def fn(r):
        from psyclone.psyir.nodes import Loop
        from psyclone.psyir.transformations import TransformationError
        if kind == "acc":
            from psyclone.psyir.transformations import ACCKernelsTrans
            ACCKernelsTrans().apply(r.children[:])
            return
        from psyclone.transformations import (OMPLoopTrans, OMPParallelTrans,
                                              OMPParallelLoopTrans)
        err = TransformationError("no loop")
        for lp in r.walk(Loop):
            try:
                if kind == "omp":
                    OMPParallelLoopTrans().apply(lp)
                else:
                    OMPLoopTrans().validate(lp)
                    OMPLoopTrans().apply(lp)
                    OMPParallelTrans().apply(lp.parent.parent)
                return
            except TransformationError as exc:
                err = exc
        raise err
    return fn


def history_jobs(tier, seed):
    '''[(family module, pid, source, [labels])]: histories of length 1..3 over
    the applications the C05/C06/C07 checks define for each program.'''
    from pv import c05, c06, c07
    rnd = random.Random(seed * 31 + 7)
    jobs = []
    items5 = [it for fam in c05.FAMILIES for it in fam(tier)]
    items6 = c06.items(tier)
    items7 = c07.items(tier)
    quota = {"c05": (300, 300, 150), "c06": (200, 150, 60), "c07": (10**6, 0, 60)} \
        if tier == "quick" else {"c05": (10**6, 6000, 2000), "c06": (10**6, 3000, 800),
                                 "c07": (10**6, 0, 400)}
    for mod, items in (("c05", items5), ("c06", items6), ("c07", items7)):
        ones, twos, threes = [], [], []
        for pid, src in items:
            labels = [l for l, _ in _apps(mod, pid)]
            for a in labels:
                ones.append((mod, pid, src, [a]))
                for fin in ("omp", "acc", "ompsplit"):
                    threes.append((mod, pid, src, [a, "+" + fin]))
            for a, b in itertools.product(labels, labels):
                twos.append((mod, pid, src, [a, b]))
                threes.append((mod, pid, src, [a, b, "+omp"]))
        n1, n2, n3 = quota[mod]
        for lst, n in ((ones, n1), (twos, n2), (threes, n3)):
            if len(lst) > n:
                lst = [lst[i] for i in sorted(rnd.sample(range(len(lst)), n))]
            jobs += lst
    return jobs


def _apps(mod, pid):
    from pv import c05, c06, c07
    if mod == "c05":
        return c05.applications(pid.split("|")[0])
    if mod == "c06":
        return c06.apps(pid)
    return c07.apps(pid)


def apply_history(mod, pid, src, labels):
    '''-> (status, root PSyIR or reason)'''
    from pv import sem
    from psyclone.psyir.transformations import TransformationError
    psy = sem.parse(src)
    r = sem.routine_named(psy, "s")
    if mod == "c05":
        from pv import c05
        c05._literal_steps(r)
    table = dict(_apps(mod, pid))
    for lab in labels:
        fn = _omp_step(lab[1:]) if lab.startswith("+") else table[lab]
        try:
            fn(r)
        except TransformationError:
            return "refused", lab
        except (IndexError, KeyError, AttributeError, TypeError, ValueError) as err:
            # no such target after the previous step
            return "notarget", f"{lab}: {type(err).__name__}"
        except Exception as err:   # noqa  an internal error is not an acceptance
            return "crash", f"{lab}: {type(err).__name__}: {err}"[:200]
    return "accepted", psy


# -------------------------------------------------------- identity tags (B)
def tag_symbols(root):
    '''Give every renameable symbol of every scope below root a unique name
    (public SymbolTable.rename_symbol), keeping each table's order.  Returns
    the number of symbols renamed.'''
    from psyclone.psyir.nodes import ScopingNode
    from psyclone.psyir.symbols import ContainerSymbol, RoutineSymbol
    from psyclone.psyir.symbols import UnsupportedFortranType
    n = 0
    # names that occur in declarations kept as text stay as they are
    verbatim = set()
    for node in root.walk(ScopingNode):
        for sym in node.symbol_table.symbols:
            dt = getattr(sym, "datatype", None)
            if isinstance(dt, UnsupportedFortranType):
                verbatim.update(t.lower() for t in re.findall(r"[A-Za-z_]\w*", dt.declaration))
    for node in root.walk(ScopingNode):
        table = node.symbol_table
        order = list(table._symbols.values())       # pylint: disable=protected-access
        for sym in order:
            if isinstance(sym, (ContainerSymbol, RoutineSymbol)) or \
                    sym.name.lower() in verbatim:
                continue
            try:
                n += 1
                table.rename_symbol(sym, f"zq{n}x")
            except Exception:   # noqa  (argument, import, used in a code block...)
                n -= 1
        table._symbols = OrderedDict(            # pylint: disable=protected-access
            (table._normalize(s.name), s) for s in order)
    return n


_TOK = re.compile(r"[A-Za-z]\w*|\d+\.?\d*(?:[eEdD][-+]?\d+)?|\S")
_UNIT = re.compile(r"^\s*(?:(?:pure|elemental|impure|recursive)\s+)*"
                   r"(module|program|subroutine|function)\s+(\w+)", re.I)
_ENDUNIT = re.compile(r"^\s*end\s+(module|program|subroutine|function)\b", re.I)


def identity_pairs(text_a, text_b):
    '''{scope name: [[identity, name]]} or None if the texts do not align.'''
    la = [l for l in text_a.split("\n") if l.strip() and not l.lstrip().startswith("!")]
    lb = [l for l in text_b.split("\n") if l.strip() and not l.lstrip().startswith("!")]
    if len(la) != len(lb):
        return None
    res = {}
    stack = []
    for a, b in zip(la, lb):
        m = _UNIT.match(a)
        if _ENDUNIT.match(a):
            if stack:
                stack.pop()
            continue
        if m and not a.lower().lstrip().startswith("module procedure"):
            stack.append(m.group(2).lower())
            res.setdefault(stack[-1], set())
        ta, tb = _TOK.findall(a), _TOK.findall(b)
        if len(ta) != len(tb):
            return None
        prev = ""
        for x, y in zip(ta, tb):
            after_percent, prev = prev == "%", x
            if after_percent:           # a derived-type component, not a symbol
                continue
            if x == y:
                if x[0].isalpha() and re.fullmatch(r"zq\d+x", x, re.I):
                    return None
                if x[0].isalpha() and stack:
                    res[stack[-1]].add((y.lower(), x.lower()))
                continue
            if not re.fullmatch(r"zq\d+x", y):
                return None
            if stack:
                res[stack[-1]].add((y.lower(), x.lower()))
    return {k: sorted(map(list, v)) for k, v in res.items()}


# ------------------------------------------------------------ (iii) PSy layers
def psy_files(tier, seed):
    res = []
    for api, sub in (("dynamo0.3", "dynamo0p3"), ("gocean1.0", "gocean1p0")):
        for root in (core.REPO, "/repo"):
            d = os.path.join(root, "src", "psyclone", "tests", "test_files", sub)
            if os.path.isdir(d):
                break
        else:
            raise core.MachineryError("test algorithm files not found")
        fs = sorted(f for f in os.listdir(d) if f.endswith((".f90", ".F90", ".x90"))
                    and not f.endswith("_mod.f90") and not f.endswith("_mod.F90"))
        if tier == "quick" and api == "dynamo0.3":
            rnd = random.Random(seed + 11)
            fs = sorted(rnd.sample(fs, min(len(fs), 80)))
        res += [(api, os.path.join(d, f)) for f in fs]
    return res
