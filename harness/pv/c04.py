'''C04 - generated code declares every entity it uses, in a valid order.

Written program units come from (i) generated declaration shapes and the C03
program family after reading, (ii) histories (length <= 3) of accepted
transformations on the C05/C06/C07 families, (iii) generated LFRic and GOcean
PSy layers.  Each text is parsed by the third-party fparser2 parser (not by
PSyclone's frontend) into the Use / Declare / reference events of
spec/DeclOrder.tla; spec/Trace_DeclOrder.tla consumes the events one by one
and decides DeclaredOnce, DeclaredBeforeDependent, EveryReferenceResolves and
NoCapture per unit.  For (i) and (ii) the tree is written a second time after
every renameable symbol got a unique name: the token-wise alignment of the two
texts gives the identity of the symbol behind every name of the real text.'''
import contextlib
import io
import json
import os
import shutil

from pv import core
from pv import c04_events, c04_gen


def _write(node):
    from psyclone.psyir.backend.fortran import FortranWriter
    return FortranWriter()(node)


def _cases_from_text(cid, origin, text, text_b=None):
    '''-> list of result records (one per program unit of the text)'''
    try:
        units = c04_events.units(text)
    except c04_events.Unsupported as err:
        return [{"id": cid, "status": "unsupported", "why": str(err), "origin": origin}]
    except Exception as err:   # noqa  fparser2 cannot parse what was written
        return [{"id": cid, "status": "unparsed", "origin": origin, "text": text[:3000],
                 "why": f"{type(err).__name__}: {err}"[:300]}]
    pairs = c04_gen.identity_pairs(text, text_b) if text_b is not None else None
    out = []
    for k, scopes in enumerate(units):
        visible = {}
        for i, sc in enumerate(scopes):
            names = {e["n"] for e in sc["events"] if e["e"] == "decl"} | set(sc["dummies"])
            visible[i + 1] = names | (visible[sc["parent"]] if sc["parent"] else set())
        for i, sc in enumerate(scopes):
            sc["typed"] = bool(sc.pop("typed", False))
            mine = (pairs or {}).get(sc["name"], []) if sc["kind"] != "module" else []
            sc["pairs"] = [p for p in mine
                           if p[0] != p[1] or p[1] in visible[i + 1]]
            sc["refs"] = [r for r in sc["refs"]]
        uid = f"{cid}#{scopes[0]['name']}" if len(units) > 1 else cid
        out.append({"id": uid, "status": "ok", "origin": origin, "text": text,
                    "aligned": pairs is not None,
                    "case": {"id": uid, "scopes": scopes}})
    return out


def _work_decl(origin):
    from pv import sem
    cid = f"{origin['family']}{origin['index']}"
    sink = io.StringIO()
    with contextlib.redirect_stdout(sink), contextlib.redirect_stderr(sink):
        try:
            psy = sem.parse(origin["source"])
            text = _write(psy)
        except Exception as err:   # noqa
            return [{"id": cid, "status": "rejected", "origin": origin,
                     "why": f"{type(err).__name__}: {err}"[:200]}]
        try:
            c04_gen.tag_symbols(psy)
            text_b = _write(psy)
        except Exception:   # noqa
            text_b = None
    return _cases_from_text(cid, origin, text, text_b)


def _work_clash(origin):
    from pv import sem
    cid = f"modclash{origin['index']}"
    sink = io.StringIO()
    with contextlib.redirect_stdout(sink), contextlib.redirect_stderr(sink):
        try:
            psy = sem.parse(origin["source"])
            if origin["api_step"] and not c04_gen.sibling_symbols(psy):
                raise core.MachineryError("API step added no symbol to " + cid)
            text = _write(psy)
        except core.MachineryError:
            raise
        except Exception as err:   # noqa
            return [{"id": cid, "status": "rejected", "origin": origin,
                     "why": f"{type(err).__name__}: {err}"[:200]}]
        try:
            c04_gen.tag_symbols(psy)
            text_b = _write(psy)
        except Exception:   # noqa
            text_b = None
    res = _cases_from_text(cid, origin, text, text_b)
    for r in res:
        if r["status"] == "ok" and not r["aligned"]:
            # this family exists for NoCapture: without identities it says nothing
            r["status"] = "unsupported"
            r["why"] = "texts do not align for identity pairs"
    return res


def _work_c03(job):
    from pv import c03_gen
    idx, seed, nested = job
    _, src, _ = c03_gen.make(idx, seed)
    origin = {"family": "c03nested" if nested else "c03prog", "index": idx, "source": src}
    if nested:
        from pv import sem
        cid = f"c03n{idx}"
        sink = io.StringIO()
        with contextlib.redirect_stdout(sink), contextlib.redirect_stderr(sink):
            try:
                psy = sem.parse(src)
                if not c03_gen.nested_scopes(psy, nested - 1):
                    return []
                text = _write(psy)
            except Exception as err:   # noqa
                return [{"id": cid, "status": "rejected", "origin": origin,
                         "why": f"{type(err).__name__}: {err}"[:200]}]
            try:
                c04_gen.tag_symbols(psy)
                text_b = _write(psy)
            except Exception:   # noqa
                text_b = None
        return _cases_from_text(cid, origin, text, text_b)
    return _work_decl(origin)


def _work_history(job):
    mod, pid, src, labels = job
    cid = f"{mod}:{pid}#{'>'.join(labels)}"
    origin = {"family": "history", "from": mod, "program": pid, "history": labels,
              "source": src}
    sink = io.StringIO()
    with contextlib.redirect_stdout(sink), contextlib.redirect_stderr(sink):
        status, psy = c04_gen.apply_history(mod, pid, src, labels)
        if status != "accepted":
            return [{"id": cid, "status": status, "why": psy, "origin": origin}]
        try:
            text = _write(psy)
        except Exception as err:   # noqa  accepted, then refused by the writer
            return [{"id": cid, "status": "writer_refused", "origin": origin,
                     "why": f"{type(err).__name__}: {err}"[:200]}]
        try:
            c04_gen.tag_symbols(psy)
            text_b = _write(psy)
        except Exception:   # noqa
            text_b = None
    return _cases_from_text(cid, origin, text, text_b)


def _work_psy(job):
    api, path = job
    cid = f"psy:{api}:{os.path.basename(path)}"
    out = []
    sink = io.StringIO()
    with contextlib.redirect_stdout(sink), contextlib.redirect_stderr(sink):
        from psyclone.parse.algorithm import parse
        from psyclone.psyGen import PSyFactory
        from psyclone.configuration import Config
        try:
            _, info = parse(path, api=api)
        except Exception as err:   # noqa  (negative test inputs of the repository)
            return [{"id": cid, "status": "rejected", "why": type(err).__name__,
                     "origin": {"family": "psy", "api": api, "file": path}}]
        for dm in ((False, True) if api == "dynamo0.3" else (False,)):
            origin = {"family": "psy", "api": api, "file": path, "dm": dm}
            try:
                Config.get().api = api
                text = str(PSyFactory(api, distributed_memory=dm).create(info).gen)
            except Exception as err:   # noqa
                out.append({"id": f"{cid}:dm{int(dm)}", "status": "rejected",
                            "why": type(err).__name__, "origin": origin})
                continue
            out += _cases_from_text(f"{cid}:dm{int(dm)}", origin, text)
    return out


# ------------------------------------------------------------ known findings
def m_constant_before_variable(case, clause, detail, finding):
    '''a constant whose value mentions a non-constant variable of the same
    scope (kind(r_val)) is written before that variable: constants come first'''
    return clause == "DeclaredBeforeDependent" and detail["w"].get("k") == "param" \
        and detail["w"].get("depkind") == "var" and not detail["w"].get("isdummy")


MATCHERS = {"constant-before-variable-it-inquires": m_constant_before_variable}


# ------------------------------------------------------------------- driver
def validate(cases, workers=None):
    tmp = core.mktemp("pv-c04-")
    verdicts, possibly, states, trans = [], [], 0, 0
    try:
        for lo in range(0, len(cases), 600):
            part = cases[lo:lo + 600]
            path = os.path.join(tmp, f"cases-{lo}.json")
            with open(path, "w") as f:
                json.dump(part, f, separators=(",", ":"))
            r = core.run_tlc("Trace_DeclOrder.tla", "Trace_DeclOrder.cfg",
                             env={"PV_CASES": path}, workers=workers, timeout=1500)
            os.unlink(path)
            states += r.distinct
            trans += r.generated
            expect = sum(sum(len(s["events"]) + 1 for s in c["scopes"]) + 1 for c in part)
            if r.distinct != expect:
                raise core.MachineryError(
                    f"C04 trace validation did not consume every trace: {r.distinct} "
                    f"states, expected {expect}")
            verdicts += r.printed("VERDICT")
            possibly += r.printed("POSSIBLY")
    finally:
        shutil.rmtree(tmp, ignore_errors=True)
    return verdicts, possibly, states, trans


def design_check(tier, cov):
    cfg = "DeclOrder_quick.cfg" if tier == "quick" else "DeclOrder_thorough.cfg"
    res = core.run_tlc("DeclOrder.tla", cfg, check=False, workers=min(4, core.NCPU))
    if res.invariant_violated or res.error:
        raise core.MachineryError("DeclOrder.tla does not satisfy its own invariants: "
                                  + str(res.invariant_violated or res.error))
    cov["states"] += res.distinct
    cov["transitions"] += res.generated
    cov["model_states"] = res.distinct
    res = core.run_tlc("DeclOrder.tla", "DeclOrder_shuffled.cfg", check=False, workers=2)
    if res.invariant_violated != "InvDeclaredBefore":
        raise core.MachineryError("vacuity check: a writer without dependency ordering "
                                  "must violate InvDeclaredBefore, got "
                                  f"{res.invariant_violated} {res.error}")


def _corrupt(ok, how):
    '''binding demonstration: corrupt the recorded trace of one unit
    (PV_C04_CORRUPT=drop removes the Declare event of a referenced name, =dup
    records one Declare twice, =swap exchanges a declaration with one it needs)'''
    for r in ok:
        for sc in r["case"]["scopes"]:
            evs = sc["events"]
            for i, ev in enumerate(evs):
                if ev["e"] != "decl" or ev["k"] == "proc":
                    continue
                if how == "drop" and ev["n"] in sc["refs"] and not any(
                        e["e"] == "use" and e["all"] for e in evs):
                    del evs[i]
                    return r["id"]
                if how == "dup":
                    evs.insert(i, dict(ev))
                    return r["id"]
                if how == "swap" and ev["deps"]:
                    for j in range(i):
                        if evs[j]["e"] == "decl" and evs[j]["n"] in ev["deps"] \
                                and evs[j]["k"] == "param":
                            evs[i], evs[j] = evs[j], evs[i]
                            return r["id"]
    raise core.MachineryError("nothing to corrupt")


def run(tier, only=None):
    core.setup_psyclone_env()
    only = only or os.environ.get("PV_C04_ONLY")
    out = core.Outcome("C04", tier, "model_checking", matchers=MATCHERS)
    cov = {"states": 0, "transitions": 0, "traces_validated_against_impl": 0,
           "samples": [], "exhaustive": False}
    design_check(tier, cov)
    seed = core.seed()
    results = []
    ndecl = 200 if tier == "quick" else 3000
    nc03 = 120 if tier == "quick" else 2500
    if only in (None, "decls"):
        results += [r for part in core.pool_map(
            _work_decl, list(c04_gen.decl_programs(ndecl, seed))) for r in part]
        jobs = [(i, seed, 0) for i in range(nc03)] + \
               [(i, seed, 1 + (i % 2)) for i in range(nc03)]
        results += [r for part in core.pool_map(_work_c03, jobs) for r in part]
        results += [r for part in core.pool_map(
            _work_clash, list(c04_gen.clash_programs(60 if tier == "quick" else 600, seed)))
            for r in part]
    if only in (None, "history"):
        results += [r for part in core.pool_map(
            _work_history, c04_gen.history_jobs(tier, seed)) for r in part]
    if only in (None, "psy"):
        results += [r for part in core.pool_map(
            _work_psy, c04_gen.psy_files(tier, seed), chunksize=2) for r in part]
    stat = {}
    for r in results:
        key = r["origin"]["family"] + ":" + r["status"]
        stat[key] = stat.get(key, 0) + 1
    ok = [r for r in results if r["status"] == "ok"]
    unsup = [r for r in results if r["status"] in ("unsupported", "unparsed")]
    if len(unsup) > 0.2 * max(1, len(ok) + len(unsup)):
        raise core.MachineryError(f"too many unsupported units: {stat} "
                                  f"{[u['why'] for u in unsup[:5]]}")
    by_id = {}
    for r in ok:
        if r["id"] in by_id:
            raise core.MachineryError("duplicate case id " + r["id"])
        by_id[r["id"]] = r
    if only is None:
        for fam in ("decls", "c03prog", "c03nested", "modclash", "history", "psy"):
            if not stat.get(fam + ":ok"):
                raise core.MachineryError(f"family {fam} produced no unit: {stat}")
    if os.environ.get("PV_C04_CORRUPT"):
        print("[C04] corrupted the trace of unit "
              + _corrupt(ok, os.environ["PV_C04_CORRUPT"]))
    verdicts, possibly, states, trans = validate([r["case"] for r in ok])
    cov["states"] += states
    cov["transitions"] += trans
    cov["traces_validated_against_impl"] = len(ok)
    for v in verdicts:
        r = by_id[v["id"]]
        slim = {k: val for k, val in r["origin"].items()}
        slim["id"] = v["id"]
        slim["written"] = r["text"][:6000]
        out.violation(slim, v["v"], {"scope": v["scope"], "name": v["n"], "w": v["w"]})
    fam_hist = [r for r in ok if r["origin"]["family"] == "history"]
    renamed = sum(1 for r in ok for sc in r["case"]["scopes"]
                  if any(p[0] != p[1] for p in sc["pairs"]))
    cov.update({
        "evaluations": len(results), "distinct_nontrivial": len(ok),
        "rule": ("one case = one program unit PSyclone wrote (module with its routines, "
                 "program or lone subprogram); non-trivial = fparser2 parsed it and every "
                 "construct was classified"),
        "status_counts": stat,
        "events": sum(len(sc["events"]) for r in ok for sc in r["case"]["scopes"]),
        "references": sum(len(sc["refs"]) for r in ok for sc in r["case"]["scopes"]),
        "scopes_with_identity_pairs": renamed,
        "units_not_aligned_for_nocapture": sum(
            1 for r in ok if r["origin"]["family"] != "psy" and not r["aligned"]),
        "possibly_imported_scopes": len(possibly),
        "histories_by_length": {str(n): sum(1 for r in fam_hist
                                            if len(r["origin"]["history"]) == n)
                                for n in (1, 2, 3)},
        "unsupported": len(unsup),
        "unsupported_samples": [{"id": u["id"], "why": u["why"]} for u in unsup[:6]],
        "internal_errors": [{"id": r["id"], "why": r["why"]} for r in results
                            if r["status"] in ("crash", "writer_refused")][:10],
        "known_examples": out.known_examples,
        "samples": [{"id": r["id"], "origin": {k: v for k, v in r["origin"].items()
                                                 if k != "source"},
                     "scopes": [[sc["name"], len(sc["events"]), len(sc["refs"])]
                                for sc in r["case"]["scopes"]]}
                    for r in ok[:: max(1, len(ok) // 4)][:4]]})
    return out.finish(cov, assumptions=[
        "event extraction (pv.c04_events over the fparser2 parse tree) is trusted and fails "
        "closed; calibrated against gfortran -fsyntax-only -fimplicit-none on self-contained units",
        "a use statement without only-list (in the scope or a host) makes otherwise unresolved "
        "names possibly imported: counted, not judged",
        "the target of a call statement needs no declaration (external subroutine)",
        "gfortran's actual acceptance is not decided; -fimplicit-none is modelled by "
        "EveryReferenceResolves",
        "NoCapture: identity of the symbol behind a name = the unique name it has in a second "
        "write of the same tree after SymbolTable.rename_symbol on every renameable symbol; "
        "PSy layers are not checked for NoCapture"])
