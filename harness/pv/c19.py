'''C19 - PSyAD adjoints are the exact transpose of the tangent-linear code.

Pipeline (binding B, artefact validation): every kernel of the generated
family (pv.c19_gen) x every choice of active variables is given to the REAL
psyclone.psyad.tl2ad.generate_adjoint_str.  A refusal (TangentLinearError,
VisitorError, NotImplementedError) is not checked.  On success the adjoint
*text* is read back with the Fortran reader, and both routines are exported
to pv-ast from the real PSyIR.  spec/SemAdjoint.tla (TLC) then computes, for
every passive valuation, the matrix A of the tangent-linear routine and the
matrix B of the adjoint column by column under spec/FortranSem.tla with exact
rationals and decides the clauses Transpose, PassiveUnchanged, NoNewUndefined.
'''
import itertools
import json
import os
import shutil

from pv import core, sem, c19_gen
from pv.export import Unsupported, merge_decls

# ------------------------------------------------------------ passive inputs
N_VALUES = [-1, 0, 1, 2, 3, 4, 5, 6, 7]
M_VALUES = [1, 2, 3]
# rows of real coefficients (p, q): non-units so that x/z and x*z differ
CP = c19_gen.IMPORT_MODULE + "::" + c19_gen.IMPORTED      # store name of the imported coefficient
REAL_ROWS = [{"p": [2, 1], "q": [3, 1], CP: [-3, 1]}, {"p": [-1, 2], "q": [3, 2], CP: [3, 2]}]
FIXED_REAL = {"s": [-3, 2], "t": [5, 2], "w": [1, 1]}      # candidates left passive
K_VALUES = [1, 2, 3]                                       # row / column selectors u, v
# contents of passive real arrays (non-zero: they may be divisors)
PATTERN = [[2, 1], [-1, 1], [1, 2], [1, 1], [-2, 1], [3, 2], [-1, 2], [3, 1], [-3, 2]]


def _rot(k):
    return PATTERN[k:] + PATTERN[:k]


PDATA = {"r": _rot(0), "a": _rot(2), "b": _rot(5), "d": _rot(3), "e": _rot(7),
         "c": [[1, 1], [2, 1], [-1, 2], [-1, 1], [3, 2], [1, 2], [-2, 1]]}


def valuations(dom, quick):
    '''Explicit list of passive valuations in the order of dom: every (n, m)
    (quick: m in 1..2, thorough: m in 1..3); the two coefficient rows alternate
    over the (n, m) grid (both rows when the kernel has no integer input).'''
    axes = []
    for nm in dom:
        if nm == "n":
            axes.append([("n", v) for v in N_VALUES])
        elif nm == "m":
            axes.append([("m", v) for v in (M_VALUES[:2] if quick else M_VALUES)])
        elif nm in ("u", "v"):
            axes.append([(nm, v) for v in K_VALUES])
    real = any(nm in ("p", "q", CP) for nm in dom)
    vals = []
    for k, combo in enumerate(itertools.product(*axes)):
        ints = dict(combo)
        if not real:
            rows = [REAL_ROWS[0]]
        elif axes:
            rows = [REAL_ROWS[k % 2]]
        else:
            rows = REAL_ROWS
        for row in rows:
            vals.append([ints[nm] if nm in ints else row[nm] if nm in row else FIXED_REAL[nm]
                         for nm in dom])
    return vals


# ------------------------------------- static independence of control/addresses
INQUIRY = ("LBOUND", "UBOUND", "SIZE")


def _names(e, acc):
    '''Names whose VALUE expression e reads.'''
    k = e.get("k")
    if k == "ref":
        acc.add(e["name"])
    elif k == "aref":
        acc.add(e["name"])
        for i in e["idx"]:
            _names(i, acc)
    elif k == "range":
        for x in ("lo", "hi", "st"):
            _names(e[x], acc)
    elif k == "un":
        _names(e["e"], acc)
    elif k == "bin":
        _names(e["l"], acc)
        _names(e["r"], acc)
    elif k == "icall":
        args = e["args"][1:] if e["name"] in INQUIRY else e["args"]
        for a in args:
            _names(a, acc)
        for a in e.get("named", {}).values():
            _names(a, acc)
    elif k in ("lit", "none"):
        pass
    else:
        raise KeyError(k)


def _addr(e, acc):
    '''Names read by the subscripts occurring in e.'''
    k = e.get("k")
    if k == "aref":
        for i in e["idx"]:
            _names(i, acc)
    elif k == "un":
        _addr(e["e"], acc)
    elif k == "bin":
        _addr(e["l"], acc)
        _addr(e["r"], acc)
    elif k == "icall":
        for a in e["args"]:
            _addr(a, acc)
        for a in e.get("named", {}).values():
            _addr(a, acc)
    elif k in ("ref", "lit", "none"):
        pass
    else:
        raise KeyError(k)


def control_names(stmts, acc=None):
    '''Names on which the control flow or the addressing of a program
    depends (loop bounds, conditions, subscripts); None if a statement kind
    is not analysed.'''
    acc = set() if acc is None else acc
    try:
        for s in stmts:
            if s["k"] == "assign":
                _addr(s["lhs"], acc)
                _addr(s["rhs"], acc)
            elif s["k"] == "loop":
                for x in ("lo", "hi", "st"):
                    _names(s[x], acc)
                if control_names(s["body"], acc) is None:
                    return None
            elif s["k"] == "if":
                _names(s["cond"], acc)
                if control_names(s["then"], acc) is None or \
                        control_names(s["else"], acc) is None:
                    return None
            elif s["k"] == "block":
                if control_names(s["body"], acc) is None:
                    return None
            else:
                return None
    except KeyError:
        return None
    return acc


# ------------------------------------------------------------------ building
# TypeError: ArrayMixin.same_range() on a single index (array-section statements
# with a scalar subscript) - PSyAD gives no adjoint, so it counts as a refusal
REFUSALS = ("TangentLinearError", "VisitorError", "NotImplementedError",
            "TransformationError", "TypeError")


TEXT_HOOK = None       # set by pv.c19_demo: corrupts the recorded adjoint text


def _adjoint(src, active):
    '''(status, adjoint text, harness status) from the real PSyAD.'''
    from psyclone.psyad.tl2ad import generate_adjoint_str
    try:
        ad, test = generate_adjoint_str(src, list(active), create_test=True)
        return "accepted", ad, "generated" if "program" in test.lower() else "empty"
    except Exception as err:   # noqa
        name = type(err).__name__
        first = (name, str(err))
    if name in REFUSALS:
        return "refused", first[1][:200], None
    # did the adjoint itself fail, or only the harness generation?
    try:
        ad, _ = generate_adjoint_str(src, list(active), create_test=False)
    except Exception as err:   # noqa
        if type(err).__name__ in REFUSALS:
            return "refused", str(err)[:200], None
        return "crash", f"{type(err).__name__}: {err}"[:300], None
    return "accepted", ad, f"harness-error {first[0]}: {first[1]}"[:300]


def _preprocessed(src, active):
    '''pv-ast body of the tangent-linear routine after PSyAD's own
    preprocess_trans (what AssignmentTrans sees) - used by the matchers only.'''
    from psyclone.psyad.transformations.preprocess import preprocess_trans
    try:
        psy = sem.parse(src)
        preprocess_trans(psy, list(active))
        return _exporter().routine(sem.routine_named(psy, "k"))["body"]
    except Exception:   # noqa
        return None


def _exporter():
    ex = sem.Exporter()
    ex.import_types = {c19_gen.IMPORTED: "r"}
    return ex


def subsets(names, tier):
    for k in range(1, len(names) + 1):
        for sub in itertools.combinations(names, k):
            yield sub


def _build(item):
    kid, body, tier = item
    src = c19_gen.source(body)
    used = c19_gen.used_vars(body)
    cands = [v for v in used if v in c19_gen.CANDIDATES]
    out = []
    try:
        psy = sem.parse(src)
        tl = _exporter().routine(sem.routine_named(psy, "k"))
    except Unsupported as err:
        return [{"id": kid, "status": "unsupported", "why": "tl: " + str(err)}]
    for active in subsets(cands, tier):
        cid = kid + "#" + "".join(active)
        status, text, harness = _adjoint(src, active)
        if status != "accepted":
            out.append({"id": cid, "status": status, "why": text})
            continue
        if TEXT_HOOK:
            text = TEXT_HOOK(text)      # corruption test (pv.c19_demo) only
        try:
            apsy = sem.parse(text)
            ad = _exporter().routine(sem.routine_named(apsy, "adj_k"))
            decls = merge_decls(tl["decls"], ad["decls"])
            if tl["subs"] or ad["subs"]:
                raise Unsupported("calls")
        except Unsupported as err:
            out.append({"id": cid, "status": "unsupported", "why": str(err), "after": text})
            continue
        except Exception as err:   # noqa - the written adjoint cannot be read back
            out.append({"id": cid, "status": "crash", "after": text,
                        "why": f"read-back: {type(err).__name__}: {err}"[:300]})
            continue
        # inputs: dummy arguments and the imported module variable
        args = [d["name"] for d in decls if d.get("arg") or d["name"] == CP]
        act = [v for v in args if v in active]
        pas = [v for v in args if v not in active]
        dom = [v for v in pas if not [d for d in decls if d["name"] == v][0]["dims"]]
        pdata = {"#none": [[1, 1]]}
        for d in decls:
            if d["name"] in pas and d["dims"] and d["ty"] == "r":
                pdata[d["name"]] = PDATA[d["name"]]
        if not act:
            out.append({"id": cid, "status": "unsupported", "why": "no active dummy argument",
                        "after": text})
            continue
        cn_tl, cn_ad = control_names(tl["body"]), control_names(ad["body"])
        full = cn_tl is None or cn_ad is None or bool((cn_tl | cn_ad) & set(active))
        case = {"id": cid, "decls": decls, "dom": dom, "vals": valuations(dom, tier == "quick"),
                "act": act, "pas": pas, "pdata": pdata, "full": full,
                "tl": tl["body"], "ad": ad["body"]}
        out.append({"id": cid, "status": "accepted", "case": case, "src": src, "after": text,
                    "active": list(active), "harness": harness,
                    "tlpre": _preprocessed(src, active)})
    return out


# ------------------------------------------------------------------- TLC part
class AdjResult:
    def __init__(self):
        self.states = 0
        self.transitions = 0
        self.fails = {}      # id -> [(clause, vid, witness)]
        self.skips = {}      # id -> {why: count}
        self.wall = 0.0


def _cost(case):
    n = 0
    for d in case["decls"]:
        if d["name"] in case["act"]:
            k = 1
            for lo, hi in d["dims"]:
                k *= hi - lo + 1
            n += k
    return len(case["vals"]) * (2 * n + 3)


def run_adjoint(cases, workers=None, budget=400000, timeout=3000, cfg="SemAdjoint.cfg"):
    '''Run the cases through SemAdjoint.tla in batches of about `budget`
    program executions.'''
    res = AdjResult()
    tmp = core.mktemp("pv-c19-")
    try:
        batches, cur, cost = [], [], 0
        for c in cases:
            cur.append(c)
            cost += _cost(c)
            if cost >= budget:
                batches.append(cur)
                cur, cost = [], 0
        if cur:
            batches.append(cur)
        for k, part in enumerate(batches):
            path = os.path.join(tmp, f"cases-{k}.json")
            with open(path, "w") as f:
                json.dump(part, f, separators=(",", ":"))
            r = core.run_tlc("SemAdjoint.tla", cfg, env={"PV_CASES": path},
                             workers=workers, timeout=timeout)
            os.unlink(path)
            res.states += r.distinct
            res.transitions += r.generated
            res.wall += r.wall
            ninit = sum(len(c["vals"]) for c in part)
            if r.distinct != 2 * ninit:
                raise core.MachineryError(
                    f"SemAdjoint: {r.distinct} distinct states for {ninit} (case, valuation) "
                    f"pairs (expected {2 * ninit})")
            for v in r.printed("VERDICT"):
                res.fails.setdefault(v["id"], []).append((v["v"], v["vid"], v["w"]))
            for v in r.printed("SKIP"):
                d = res.skips.setdefault(v["id"], {})
                key = v["v"] + ":" + v["why"]
                d[key] = d.get(key, 0) + 1
    finally:
        shutil.rmtree(tmp, ignore_errors=True)
    return res


# ------------------------------------------------------------ known findings
def _ival(e, env):
    '''Integer value of a pv-ast expression under env (Fortran semantics).'''
    k = e.get("k")
    if k == "lit" and e.get("t") == "int":
        return e["v"]
    if k == "ref":
        return env.get(e["name"])
    if k == "un" and e["op"] in "+-":
        v = _ival(e["e"], env)
        return None if v is None else (-v if e["op"] == "-" else v)
    if k == "bin" and e["op"] in ("+", "-", "*"):
        l, r = _ival(e["l"], env), _ival(e["r"], env)
        if l is None or r is None:
            return None
        return l + r if e["op"] == "+" else l - r if e["op"] == "-" else l * r
    if k == "icall" and e["name"] == "MOD" and len(e["args"]) == 2:
        l, r = _ival(e["args"][0], env), _ival(e["args"][1], env)
        if l is None or not r:
            return None
        return _fmod(l, r)
    return None


def _fmod(l, r):
    """Fortran MOD (sign of the dividend)"""
    q = abs(l) // abs(r)
    q = q if (l < 0) == (r < 0) else -q
    return l - r * q


def _loops(stmts):
    for s in stmts:
        if s["k"] == "loop":
            yield s
            yield from _loops(s["body"])
        elif s["k"] == "if":
            yield from _loops(s["then"])
            yield from _loops(s["else"])
        elif s["k"] == "block":
            yield from _loops(s["body"])


def _unit_step(e):
    v = _ival(e, {})
    return v in (1, -1)


def _additive(e):
    return e.get("k") == "bin" and e["op"] in ("+", "-")


def _env(case, vid):
    return {nm: v for nm, v in zip(case["dom"], case["vals"][vid - 1]) if isinstance(v, int)}


def _trip(lo, hi, st):
    if st == 0:
        return None
    q = abs(hi - lo + st) // abs(st)
    q = q if (hi - lo + st >= 0) == (st > 0) else -q
    return max(q, 0)


def _offset_loops(case):
    '''Pairs (tl loop, adjoint loop) for the adjoint loops whose start is
    written `stop - MOD(<text>, step)`: the tl loop it reverses has the same
    variable, tl.start == ad.stop and tl.stop == ad.start.l.'''
    res = []
    tls = list(_loops(case["tl"]))
    for lp in _loops(case["ad"]):
        st = lp["lo"]
        if st.get("k") == "bin" and st["op"] == "-" and st["r"].get("k") == "icall" \
                and st["r"]["name"] == "MOD" and len(st["r"]["args"]) == 2:
            for t in tls:
                if t["var"] == lp["var"] and t["lo"] == lp["hi"] and t["hi"] == st["l"]:
                    res.append((t, lp))
                    break
    return res


def _entries(stmts, env, target, out, budget):
    '''Environments (integer variables) with which the loop `target` of a
    program is entered: simulates the loops around it (both branches of IFs).'''
    for s in stmts:
        if budget[0] <= 0:
            return
        if s["k"] == "loop":
            if s is target:
                out.append(dict(env))
                continue
            if not any(l is target for l in _loops(s["body"])):
                continue
            lo, hi, st = (_ival(s[x], env) for x in ("lo", "hi", "st"))
            if None in (lo, hi, st) or st == 0:
                out.append(None)
                return
            for k in range(_trip(lo, hi, st)):
                budget[0] -= 1
                e2 = dict(env)
                e2[s["var"]] = lo + k * st
                _entries(s["body"], e2, target, out, budget)
        elif s["k"] == "if":
            _entries(s["then"], env, target, out, budget)
            _entries(s["else"], env, target, out, budget)
        elif s["k"] == "block":
            _entries(s["body"], env, target, out, budget)


def _pair_facts(case, vid):
    '''For the failing valuation vid: facts about every dynamic entry of a
    tl loop with a step other than +-1 that PSyAD reversed with an offset:
    (tl loop, step, written offset argument value, meant value, tl trip count,
    adjoint trip count).  None if something cannot be evaluated.'''
    env0 = _env(case, vid)
    facts = []
    for t, lp in _offset_loops(case):
        if _unit_step(t["st"]):
            continue
        written = lp["lo"]["r"]["args"][0]
        meant = {"k": "bin", "op": "-", "l": t["hi"], "r": t["lo"]}
        envs = []
        _entries(case["tl"], env0, t, envs, [2000])
        for env in envs:
            if env is None:
                return None
            lo, hi, st = (_ival(t[x], env) for x in ("lo", "hi", "st"))
            w, m = _ival(written, env), _ival(meant, env)
            if None in (lo, hi, st, w, m) or st == 0:
                return None
            ad_start = hi - _fmod(w, st)
            facts.append({"loop": t, "textual": written != meant, "st": st,
                          "w": _fmod(w, st), "m": _fmod(m, st),
                          "tl_trip": _trip(lo, hi, st), "ad_trip": _trip(ad_start, lo, -st)})
    return facts


def m_offset_compound_start(rec, clause, vd, finding):
    '''The tangent-linear code has a loop with a step other than +-1 whose
    START expression is a sum or difference (1+m, n-1, ...); loop_node() builds
    the offset as text "mod(<stop>-<start>,<step>)" without parentheses, so the
    adjoint loop starts at stop - MOD(stop - 1 + m, step).  Explains a failing
    valuation only if on that valuation the written offset differs from
    MOD(stop - (start), step) at some entry of such a loop.'''
    if clause not in ("Transpose", "NoNewUndefined"):
        return False
    facts = _pair_facts(rec["case"], vd["vid"])
    if not facts:
        return False
    return any(f["textual"] and _additive(f["loop"]["lo"]) and f["w"] != f["m"] for f in facts)


def m_zero_trip_nonunit_step(rec, clause, vd, finding):
    '''A tangent-linear loop with a step s, |s| > 1, has zero trips on the
    failing valuation with 0 < |start - stop| < |s| beyond the end; the
    reversed loop `do i = stop - MOD(stop - start, s), start, -s` then starts
    exactly at `start` and executes one iteration.  Explains a failing valuation
    only if at some entry of such a loop the tl trip count is 0 and the trip
    count of the reversed loop as written is positive.'''
    if clause not in ("Transpose", "NoNewUndefined"):
        return False
    facts = _pair_facts(rec["case"], vd["vid"])
    if not facts:
        return False
    return any(f["tl_trip"] == 0 and f["ad_trip"] > 0 for f in facts)


def _assignments(stmts):
    for s in stmts:
        if s["k"] == "assign":
            yield s
        elif s["k"] in ("loop", "block"):
            yield from _assignments(s["body"])
        elif s["k"] == "if":
            yield from _assignments(s["then"])
            yield from _assignments(s["else"])


def _terms(e, sign=1):
    '''(sign, term) of an expression split at binary + and - exactly as
    AssignmentTrans does (a unary minus stays inside its term).'''
    if e.get("k") == "bin" and e["op"] in ("+", "-"):
        yield from _terms(e["l"], sign)
        yield from _terms(e["r"], -sign if e["op"] == "-" else sign)
    else:
        yield sign, e


def _contains(e, target):
    if e == target:
        return True
    if isinstance(e, dict):
        return any(_contains(v, target) for v in e.values())
    if isinstance(e, list):
        return any(_contains(v, target) for v in e)
    return False


def m_increment_first_term_subtracted(rec, clause, vd, finding):
    '''The (preprocessed) tangent-linear code has an assignment to an active
    variable  X = ... - c*X ...  in which the FIRST term that contains the
    left-hand side itself is subtracted (binary minus).  AssignmentTrans.apply
    drops the operator of the first deferred increment term
    (`rhs, _ = deferred_inc.pop(0)`), so the adjoint has X = c*X (or nothing
    for c = 1) instead of X = -c*X.  Explains a failing valuation only if a
    wrong matrix entry lies in the row or column of such an X.'''
    if clause != "Transpose" or not rec.get("tlpre"):
        return False
    hits = set()
    for asg in _assignments(rec["tlpre"]):
        lhs = asg["lhs"]
        if lhs.get("name") not in rec["active"]:
            continue
        incs = [sg for sg, t in _terms(asg["rhs"]) if _contains(t, lhs)]
        if incs and incs[0] < 0:
            hits.add(lhs["name"])
    return bool(hits & set(vd["w"].get("names", [])))


def _arefs(e, name, acc):
    if isinstance(e, dict):
        if e.get("k") == "aref" and e.get("name") == name:
            acc.append(e)
        for v in e.values():
            _arefs(v, name, acc)
    elif isinstance(e, list):
        for v in e:
            _arefs(v, name, acc)
    return acc


def m_runtime_aliased_index(rec, clause, vd, finding):
    '''An assignment to an element/section of an active array X reads X on the
    right-hand side through a subscript that is a DIFFERENT expression but has
    the SAME value on the failing valuation (d(u,idx) = p*d(v,idx) + .. with
    u = v).  AssignmentTrans decides "increment or not" by symbolic equality
    only, so the adjoint is written for u /= v.  Explains a failing valuation
    only if every differing subscript pair of such a reference evaluates to
    equal integers on that valuation (loop variables must match textually).'''
    if clause != "Transpose" or not rec.get("tlpre"):
        return False
    env = _env(rec["case"], vd["vid"])
    for asg in _assignments(rec["tlpre"]):
        lhs = asg["lhs"]
        if lhs.get("k") != "aref" or lhs["name"] not in rec["active"]:
            continue
        if lhs["name"] not in vd["w"].get("names", []):
            continue
        for ref in _arefs(asg["rhs"], lhs["name"], []):
            if ref["idx"] == lhs["idx"] or len(ref["idx"]) != len(lhs["idx"]):
                continue
            same = True
            for x, y in zip(lhs["idx"], ref["idx"]):
                if x == y:
                    continue
                vx, vy = _ival(x, env), _ival(y, env)
                if vx is None or vy is None or vx != vy:
                    same = False
                    break
            if same:
                return True
    return False


MATCHERS = {"runtime-aliased-index": m_runtime_aliased_index,
            "increment-first-term-subtracted": m_increment_first_term_subtracted,
            "loop-offset-compound-start": m_offset_compound_start,
            "zero-trip-nonunit-step": m_zero_trip_nonunit_step}


# ------------------------------------------------------------------------ run
def _procs():
    '''PV_C19_PROCS limits the processes / TLC workers (development aid).'''
    try:
        return int(os.environ.get("PV_C19_PROCS", "0")) or None
    except ValueError:
        return None


def build(tier, procs=None):
    items = [(kid, body, tier) for kid, body in c19_gen.kernels(tier, core.seed())]
    flt = os.environ.get("PV_C19_FILTER")      # regex on the kernel id (binding demos)
    if flt:
        import re
        items = [it for it in items if re.search(flt, it[0])]
    return [r for part in core.pool_map(_build, items, procs=procs) for r in part]


def judge(out, results, res):
    accepted = [r for r in results if r["status"] == "accepted"]
    nontrivial = 0
    skipstat = {}
    failing = []
    for r in accepted:
        cid = r["id"]
        nval = len(r["case"]["vals"])
        sk = res.skips.get(cid, {})
        for k, v in sk.items():
            skipstat[k] = skipstat.get(k, 0) + v
        if nval - sum(sk.values()) > 0:
            nontrivial += 1
        fails = res.fails.get(cid, [])
        if not fails:
            continue
        failing.append(cid)
        slim = {"id": cid, "active": r["active"], "source": r["src"], "after": r["after"]}
        rec = {"id": cid, "case": r["case"], "active": r["active"], "tlpre": r.get("tlpre")}
        # every failing valuation is matched on its own: the first listed
        # finding that explains it, else it is a violation
        groups = {}
        for cl, vid, w in fails:
            vd = {"vid": vid, "w": w, "valuation": r["case"]["vals"][vid - 1]}
            hit = None
            for f in out.findings:
                m = MATCHERS.get(f["match"])
                try:
                    if m and m(rec, cl, vd, f):
                        hit = f["id"]
                        break
                except Exception:   # noqa - a matcher that cannot decide does not match
                    pass
            groups.setdefault((hit, cl), []).append(vd)
        for (hit, cl), vds in sorted(groups.items(), key=lambda kv: (str(kv[0][0]), kv[0][1])):
            detail = {"n_failing_valuations": len(vds), "n_valuations": nval,
                      "dom": r["case"]["dom"], "vids": [v["vid"] for v in vds][:20],
                      "witnesses": [{"valuation": v["valuation"], "w": v["w"]} for v in vds[:3]]}
            if hit:
                out.known_hit[hit] = out.known_hit.get(hit, 0) + 1
                out.known_examples.setdefault(hit, {"case": slim, "clause": cl, "detail": detail})
            else:
                out.violations.append({"case": slim, "clause": cl, "detail": detail})
    return accepted, nontrivial, skipstat, failing


def run(tier):
    core.setup_psyclone_env()
    out = core.Outcome("C19", tier, "model_checking", matchers=MATCHERS)
    results = build(tier, procs=_procs())
    stat = {}
    for r in results:
        stat[r["status"]] = stat.get(r["status"], 0) + 1
    accepted = [r for r in results if r["status"] == "accepted"]
    if not accepted:
        raise core.MachineryError(f"PSyAD accepted no kernel: {stat}")
    if stat.get("unsupported", 0) > 0.2 * max(1, len(accepted)):
        why = {}
        for r in results:
            if r["status"] == "unsupported":
                why[r["why"]] = why.get(r["why"], 0) + 1
        raise core.MachineryError(f"too many unsupported cases: {stat} {why}")
    res = run_adjoint([r["case"] for r in accepted], workers=_procs())
    accepted, nontrivial, skipstat, failing = judge(out, results, res)
    crashes = [r for r in results if r["status"] == "crash"]
    unsup = [r for r in results if r["status"] == "unsupported"]
    harness = {}
    for r in accepted:
        key = r["harness"].split(":")[0]
        harness[key] = harness.get(key, 0) + 1
    cov = {"states": res.states, "transitions": res.transitions,
           "traces_validated_against_impl": len(accepted),
           "evaluations": len(results), "distinct_nontrivial": nontrivial,
           "rule": ("one case = (generated tangent-linear kernel, set of active variables); "
                    "non-trivial = PSyAD produced an adjoint, it was read back and exported, and on "
                    "at least one passive valuation the tangent-linear code is defined, linear and "
                    "not the identity; one TLC state pair per (case, passive valuation), each "
                    "computing both matrices column by column"),
           "kernels": len({r["id"].split("#")[0] for r in results}),
           "status_counts": stat,
           "valuations": sum(len(r["case"]["vals"]) for r in accepted),
           "program_executions_upper_bound": sum(_cost(r["case"]) for r in accepted),
           "skipped_valuations": skipstat,
           "failing_cases": len(failing),
           "harness_generation": harness,
           "harness_errors": [{"id": r["id"], "why": r["harness"]} for r in accepted
                              if r["harness"].startswith("harness-error")][:5],
           "internal_errors": [{"id": c["id"], "why": c["why"]} for c in crashes[:10]],
           "unsupported_samples": [{"id": c["id"], "why": c["why"]} for c in unsup[:5]],
           "known_examples": out.known_examples,
           "tlc_wall_s": round(res.wall, 1),
           "samples": [{"id": r["id"], "active": r["active"], "source": r["src"],
                        "after": r["after"]}
                       for r in accepted[:: max(1, len(accepted) // 4)][:4]],
           "exhaustive": False}
    return out.finish(cov, assumptions=[
        "reals are exact rationals: the inner-product identity <Ax,y> = <x,A*y> for all x, y is "
        "equivalent to B = A^T on the flattened active dummy arguments, which is what TLC decides; "
        "floating-point rounding of the generated harness tolerance is outside the model",
        "the generated test harness (create_test=True) is generated for every accepted case and "
        "must not raise an internal error, but it is NOT interpreted: it needs random_number / the "
        "LFRic runtime (DESIGN 5 notes it calls random_number on integer arguments)",
        "passive inputs: n in -1..7, m in 1..3, (p,q) in {(2,3),(-1/2,3/2)}, fixed small non-zero "
        "contents of passive arrays; arrays a,b,r(0:8), c(0:3,0:2); array-section family: d(1:3,1:3), "
        "e(1:3), selectors u,v in 1..3, coefficient cp imported from another module (unresolved type, "
        "values -3, 3/2) or SUM of a passive section, so that the section statements reach "
        "AssignmentTrans in array notation; TypeError/TransformationError/NotImplementedError = refusal",
        "valuations on which the tangent-linear code is undefined (out of bounds, undefined read), "
        "changes a passive argument, or is not a homogeneous linear map of the chosen active "
        "variables (checked by TLC on x=0 and x=(1,2,3,..)) are discarded and counted",
        "local active variables are temporaries: the matrices range over active dummy arguments",
        "columns are computed for the active locations either program reads or writes (FortranSem "
        "access tracking on the zero input); the harness checks on the exported programs that no "
        "active name occurs in a subscript, loop bound or condition (else every location is a "
        "column), so both matrices are the identity elsewhere",
        "generic (api=None) PSyAD only; LFRic kernels and their harness are outside this check",
        "exporter pv.export and the Fortran reader/writer round trip of the adjoint text are trusted "
        "(fail closed: unsupported)"])
