'''C19 binding demonstration: corruption of the recorded artefact.

The adjoint text PSyAD produced for a few kernels that pass the check is
corrupted in one place (a sign flipped in one adjoint statement / one adjoint
statement deleted / the loop step sign flipped) before it is read back; TLC
must reject every corrupted case (clause Transpose).

Run:  PYTHONPATH=/verif/harness /venv/bin/python -m pv.c19_demo
'''
import re
import sys

from pv import core, c19, c19_gen

KERNELS = ["L|1,n,1|inc", "L|n,1,-1|both", "S|s1", "L|m,n,1|stencil"]


def flip_sign(text):
    '''first " + " of the first assignment of the adjoint body becomes " - "'''
    lines = text.splitlines()
    for k, l in enumerate(lines):
        if "::" not in l and re.search(r"=.* \+ ", l):
            lines[k] = l.replace(" + ", " - ", 1)
            break
    return "\n".join(lines) + "\n"


def drop_statement(text):
    '''the last assignment of the adjoint body is deleted'''
    lines = text.splitlines()
    idx = [k for k, l in enumerate(lines) if "::" not in l and re.match(r"\s+\w+(\(.*?\))? = ", l)]
    if idx:
        del lines[idx[-1]]
    return "\n".join(lines) + "\n"


def run():
    core.setup_psyclone_env()
    ks = dict(c19_gen.kernels("thorough"))
    items = [(k, ks[k], "quick") for k in KERNELS]
    ok = True
    for name, hook in [("unchanged", None), ("flip-sign", flip_sign),
                       ("drop-statement", drop_statement)]:
        c19.TEXT_HOOK = hook
        results = [r for it in items for r in c19._build(it)]
        c19.TEXT_HOOK = None
        acc = [r for r in results if r["status"] == "accepted"]
        res = c19.run_adjoint([r["case"] for r in acc], workers=4)
        bad = sorted(res.fails)
        print(f"{name}: {len(acc)} cases, rejected by TLC: {len(bad)} "
              f"{sorted({f[0] for v in res.fails.values() for f in v})}")
        if hook is None:
            ok = ok and not bad
        else:
            ok = ok and len(bad) == len(acc)
    print("corruption test", "PASSED" if ok else "FAILED")
    return 0 if ok else 1


if __name__ == "__main__":
    sys.exit(run())
