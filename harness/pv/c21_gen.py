'''C21 helper - turns an abstract LFRic kernel metadata record (enumerated by
TLC from LFRicArgOrder.tla) into real Fortran: a kernel module (metadata type +
dummy subroutine) and a one-kernel algorithm that declares default-precision
data (field_type, integer_field_type, operator_type, columnwise_operator_type,
r_def/i_def/l_def scalars).  Nothing here knows the argument ordering rules.'''

SHAPE_MD = {"xyoz": "gh_quadrature_xyoz", "face": "gh_quadrature_face",
            "edge": "gh_quadrature_edge", "evaluator": "gh_evaluator"}
QR_TYPE = {"xyoz": "quadrature_xyoz", "face": "quadrature_face",
           "edge": "quadrature_edge"}
DT_MD = {"real": "gh_real", "integer": "gh_integer", "logical": "gh_logical"}
SCALAR_DECL = {"real": "real(kind=r_def)", "integer": "integer(kind=i_def)",
               "logical": "logical(kind=l_def)"}


def arg_name(i, arg):
    '''Name of the algorithm-layer variable for metadata argument i (1-based).'''
    return {"scalar": "sc", "field": "f", "op": "op", "cma": "cm"}[arg["t"]] + str(i)


def kernel_names(md_id):
    base = f"c21k{md_id}"
    return base + "_mod", base + "_type", base + "_code"


def _arg_type(arg):
    t = arg["t"]
    if t == "scalar":
        return f"arg_type(gh_scalar, {DT_MD[arg['dt']]}, gh_{arg['acc']})"
    if t == "field":
        head = "gh_field" if arg["vec"] == 1 else f"gh_field*{arg['vec']}"
        txt = f"arg_type({head}, {DT_MD[arg['dt']]}, gh_{arg['acc']}, {arg['fs']}"
        if arg["st"] != "none":
            txt += f", stencil({arg['st']})"
        if arg["mesh"] != "none":
            txt += f", mesh_arg=gh_{arg['mesh']}"
        return txt + ")"
    head = "gh_operator" if t == "op" else "gh_columnwise_operator"
    return (f"arg_type({head}, {DT_MD[arg['dt']]}, gh_{arg['acc']}, "
            f"{arg['fs']}, {arg['fs2']})")


def kernel_text(md, md_id):
    mod, typ, code = kernel_names(md_id)
    lines = [f"module {mod}", "  use argument_mod", "  use fs_continuity_mod",
             "  use kernel_mod", "  use constants_mod", "  implicit none",
             f"  type, extends(kernel_type) :: {typ}"]
    n = len(md["args"])
    lines.append(f"    type(arg_type), dimension({n}) :: meta_args = (/ &")
    for i, arg in enumerate(md["args"]):
        lines.append("      " + _arg_type(arg) + (", &" if i + 1 < n else " &"))
    lines.append("      /)")
    if md["funcs"]:
        n = len(md["funcs"])
        lines.append(f"    type(func_type), dimension({n}) :: meta_funcs = (/ &")
        for i, fn in enumerate(md["funcs"]):
            ops = ", ".join({"basis": "gh_basis", "diff": "gh_diff_basis"}[o]
                            for o in fn["ops"])
            lines.append(f"      func_type({fn['fs']}, {ops})"
                         + (", &" if i + 1 < n else " &"))
        lines.append("      /)")
    if md["refel"]:
        n = len(md["refel"])
        lines.append(f"    type(reference_element_data_type), dimension({n}) :: "
                     "meta_reference_element = (/ &")
        for i, prop in enumerate(md["refel"]):
            lines.append(f"      reference_element_data_type({prop})"
                         + (", &" if i + 1 < n else " &"))
        lines.append("      /)")
    if md["mesh"]:
        n = len(md["mesh"])
        lines.append(f"    type(mesh_data_type), dimension({n}) :: meta_mesh = (/ &")
        for i, prop in enumerate(md["mesh"]):
            lines.append(f"      mesh_data_type({prop})"
                         + (", &" if i + 1 < n else " &"))
        lines.append("      /)")
    if md["shapes"]:
        if len(md["shapes"]) == 1:
            lines.append(f"    integer :: gh_shape = {SHAPE_MD[md['shapes'][0]]}")
        else:
            lines.append(f"    integer :: gh_shape({len(md['shapes'])}) = (/ "
                         + ", ".join(SHAPE_MD[s] for s in md["shapes"]) + " /)")
    if md["targets"]:
        lines.append(f"    integer :: gh_evaluator_targets({len(md['targets'])}) = (/ "
                     + ", ".join(md["targets"]) + " /)")
    lines.append(f"    integer :: operates_on = {md['on']}")
    lines += ["  contains", f"    procedure, nopass :: code => {code}",
              f"  end type {typ}", "contains", f"  subroutine {code}()",
              f"  end subroutine {code}", f"end module {mod}", ""]
    return "\n".join(lines)


def algorithm_text(md, md_id):
    '''One invoke of the kernel with default-precision data.  Algorithm
    arguments follow the user guide: data arguments in metadata order, a
    stencil extent right after its field, a direction right after the extent
    (XORY1D), quadrature objects last in gh_shape order.'''
    mod, typ, _ = kernel_names(md_id)
    decls = []
    actual = []
    uses = {"constants_mod": {"i_def", "r_def", "l_def"}}
    for i, arg in enumerate(md["args"], 1):
        name = arg_name(i, arg)
        if arg["t"] == "scalar":
            decls.append(f"{SCALAR_DECL[arg['dt']]} :: {name}")
            actual.append(name)
        elif arg["t"] == "field":
            ftype = "field_type" if arg["dt"] == "real" else "integer_field_type"
            uses.setdefault("field_mod" if arg["dt"] == "real"
                            else "integer_field_mod", set()).add(ftype)
            dim = "" if arg["vec"] == 1 else f"({arg['vec']})"
            decls.append(f"type({ftype}) :: {name}{dim}")
            actual.append(name)
            if arg["st"] != "none":
                decls.append(f"integer(kind=i_def) :: ex{i}")
                actual.append(f"ex{i}")
                if arg["st"] == "xory1d":
                    decls.append(f"integer(kind=i_def) :: dr{i}")
                    actual.append(f"dr{i}")
        elif arg["t"] == "op":
            uses.setdefault("operator_mod", set()).add("operator_type")
            decls.append(f"type(operator_type) :: {name}")
            actual.append(name)
        else:
            uses.setdefault("columnwise_operator_mod", set()).add(
                "columnwise_operator_type")
            decls.append(f"type(columnwise_operator_type) :: {name}")
            actual.append(name)
    for j, shape in enumerate(md["shapes"], 1):
        if shape == "evaluator":
            continue
        qtype = QR_TYPE[shape] + "_type"
        uses.setdefault(QR_TYPE[shape] + "_mod", set()).add(qtype)
        decls.append(f"type({qtype}) :: qr{j}")
        actual.append(f"qr{j}")
    lines = [f"program c21alg{md_id}"]
    for m in sorted(uses):
        lines.append(f"  use {m}, only: " + ", ".join(sorted(uses[m])))
    lines.append(f"  use {mod}, only: {typ}")
    lines.append("  implicit none")
    lines += ["  " + d for d in decls]
    lines.append(f"  call invoke({typ}(" + ", ".join(actual) + "))")
    lines.append(f"end program c21alg{md_id}")
    return "\n".join(lines) + "\n"
