'''C21 helper - turns an abstract LFRic kernel metadata record (enumerated by
TLC from LFRicArgOrder.tla) into real Fortran: a kernel module (metadata type +
dummy subroutine) and a one-kernel algorithm that declares default-precision
data (field_type, integer_field_type, operator_type, columnwise_operator_type,
r_def/i_def/l_def scalars).  Nothing here knows the argument ordering rules.'''

SHAPE_MD = {"xyoz": "gh_quadrature_xyoz", "face": "gh_quadrature_face",
            "edge": "gh_quadrature_edge", "evaluator": "gh_evaluator"}
QR_TYPE = {"xyoz": "quadrature_xyoz", "face": "quadrature_face",
           "edge": "quadrature_edge"}
DT_MD = {"real": "gh_real", "integer": "gh_integer", "logical": "gh_logical"}
SCALAR_DECL = {"real": "real(kind=r_def)", "integer": "integer(kind=i_def)",
               "logical": "logical(kind=l_def)"}


def arg_name(i, arg):
    '''Name of the algorithm-layer variable for metadata argument i (1-based).'''
    return {"scalar": "sc", "field": "f", "op": "op", "cma": "cm"}[arg["t"]] + str(i)


def kernel_names(md_id):
    base = f"c21k{md_id}"
    return base + "_mod", base + "_type", base + "_code"


def _arg_type(arg):
    t = arg["t"]
    if t == "scalar":
        return f"arg_type(gh_scalar, {DT_MD[arg['dt']]}, gh_{arg['acc']})"
    if t == "field":
        head = "gh_field" if arg["vec"] == 1 else f"gh_field*{arg['vec']}"
        txt = f"arg_type({head}, {DT_MD[arg['dt']]}, gh_{arg['acc']}, {arg['fs']}"
        if arg["st"] != "none":
            txt += f", stencil({arg['st']})"
        if arg["mesh"] != "none":
            txt += f", mesh_arg=gh_{arg['mesh']}"
        return txt + ")"
    head = "gh_operator" if t == "op" else "gh_columnwise_operator"
    return (f"arg_type({head}, {DT_MD[arg['dt']]}, gh_{arg['acc']}, "
            f"{arg['fs']}, {arg['fs2']})")


def kernel_text(md, md_id):
    mod, typ, code = kernel_names(md_id)
    lines = [f"module {mod}", "  use argument_mod", "  use fs_continuity_mod",
             "  use kernel_mod", "  use constants_mod", "  implicit none",
             f"  type, extends(kernel_type) :: {typ}"]
    n = len(md["args"])
    lines.append(f"    type(arg_type), dimension({n}) :: meta_args = (/ &")
    for i, arg in enumerate(md["args"]):
        lines.append("      " + _arg_type(arg) + (", &" if i + 1 < n else " &"))
    lines.append("      /)")
    if md["funcs"]:
        n = len(md["funcs"])
        lines.append(f"    type(func_type), dimension({n}) :: meta_funcs = (/ &")
        for i, fn in enumerate(md["funcs"]):
            ops = ", ".join({"basis": "gh_basis", "diff": "gh_diff_basis"}[o]
                            for o in fn["ops"])
            lines.append(f"      func_type({fn['fs']}, {ops})"
                         + (", &" if i + 1 < n else " &"))
        lines.append("      /)")
    if md["refel"]:
        n = len(md["refel"])
        lines.append(f"    type(reference_element_data_type), dimension({n}) :: "
                     "meta_reference_element = (/ &")
        for i, prop in enumerate(md["refel"]):
            lines.append(f"      reference_element_data_type({prop})"
                         + (", &" if i + 1 < n else " &"))
        lines.append("      /)")
    if md["mesh"]:
        n = len(md["mesh"])
        lines.append(f"    type(mesh_data_type), dimension({n}) :: meta_mesh = (/ &")
        for i, prop in enumerate(md["mesh"]):
            lines.append(f"      mesh_data_type({prop})"
                         + (", &" if i + 1 < n else " &"))
        lines.append("      /)")
    if md["shapes"]:
        if len(md["shapes"]) == 1:
            lines.append(f"    integer :: gh_shape = {SHAPE_MD[md['shapes'][0]]}")
        else:
            lines.append(f"    integer :: gh_shape({len(md['shapes'])}) = (/ "
                         + ", ".join(SHAPE_MD[s] for s in md["shapes"]) + " /)")
    if md["targets"]:
        lines.append(f"    integer :: gh_evaluator_targets({len(md['targets'])}) = (/ "
                     + ", ".join(md["targets"]) + " /)")
    lines.append(f"    integer :: operates_on = {md['on']}")
    lines += ["  contains", f"    procedure, nopass :: code => {code}",
              f"  end type {typ}", "contains", f"  subroutine {code}()",
              f"  end subroutine {code}", f"end module {mod}", ""]
    return "\n".join(lines)


PREFIX = {"scalar": "sc", "field": "f", "op": "op", "cma": "cm"}


def names_for(md, k=None, act=None, qsh=False):
    '''The algorithm-layer names used for one kernel call: its data arguments
    (args), stencil extents (ext) and directions (dir) by metadata position and
    its quadrature objects (qr: name -> shape).  For a kernel of a multi-kernel
    invoke k is its position in the invoke, act the identities of its actual
    arguments (equal identity = same variable in several kernels) and qsh says
    that quadrature objects are shared per shape.'''
    res = {"args": [], "ext": {}, "dir": {}, "qr": {}}
    for i, arg in enumerate(md["args"], 1):
        ident = str(i) if act is None else str(act[i - 1])
        tag = str(i) if k is None else f"{k}{i}"
        res["args"].append(PREFIX[arg["t"]] + ident)
        if arg["t"] == "field" and arg["st"] != "none":
            res["ext"][i] = "ex" + tag
            if arg["st"] == "xory1d":
                res["dir"][i] = "dr" + tag
    for j, shape in enumerate(md["shapes"], 1):
        if shape == "evaluator":
            continue
        if qsh:
            res["qr"]["qrs" + shape] = shape
        else:
            res["qr"]["qr" + (str(j) if k is None else f"{k}{j}")] = shape
    return res


def _declare(md, names, decls, uses):
    '''Declarations (name -> text) and actual argument list of one kernel.'''
    actual = []
    for i, arg in enumerate(md["args"], 1):
        name = names["args"][i - 1]
        actual.append(name)
        if arg["t"] == "scalar":
            decls[name] = f"{SCALAR_DECL[arg['dt']]} :: {name}"
        elif arg["t"] == "field":
            ftype = "field_type" if arg["dt"] == "real" else "integer_field_type"
            uses.setdefault("field_mod" if arg["dt"] == "real"
                            else "integer_field_mod", set()).add(ftype)
            dim = "" if arg["vec"] == 1 else f"({arg['vec']})"
            decls[name] = f"type({ftype}) :: {name}{dim}"
            if i in names["ext"]:
                decls[names["ext"][i]] = f"integer(kind=i_def) :: {names['ext'][i]}"
                actual.append(names["ext"][i])
            if i in names["dir"]:
                decls[names["dir"][i]] = f"integer(kind=i_def) :: {names['dir'][i]}"
                actual.append(names["dir"][i])
        elif arg["t"] == "op":
            uses.setdefault("operator_mod", set()).add("operator_type")
            decls[name] = f"type(operator_type) :: {name}"
        else:
            uses.setdefault("columnwise_operator_mod", set()).add(
                "columnwise_operator_type")
            decls[name] = f"type(columnwise_operator_type) :: {name}"
    for qname, shape in names["qr"].items():
        qtype = QR_TYPE[shape] + "_type"
        uses.setdefault(QR_TYPE[shape] + "_mod", set()).add(qtype)
        decls[qname] = f"type({qtype}) :: {qname}"
        actual.append(qname)
    return actual


def invoke_text(kernels, alg_id):
    '''One invoke of the kernels [(md, md_id, names)] in order, with
    default-precision data.  Algorithm arguments follow the user guide: data
    arguments in metadata order, a stencil extent right after its field, a
    direction right after the extent (XORY1D), quadrature objects last in
    gh_shape order.'''
    decls = {}
    uses = {"constants_mod": {"i_def", "r_def", "l_def"}}
    calls = []
    kuses = []
    for md, md_id, names in kernels:
        mod, typ, _ = kernel_names(md_id)
        actual = _declare(md, names, decls, uses)
        calls.append(f"{typ}(" + ", ".join(actual) + ")")
        kuses.append(f"  use {mod}, only: {typ}")
    lines = [f"program c21alg{alg_id}"]
    for m in sorted(uses):
        lines.append(f"  use {m}, only: " + ", ".join(sorted(uses[m])))
    lines += kuses
    lines.append("  implicit none")
    lines += ["  " + d for d in decls.values()]
    lines.append("  call invoke( &")
    for n, call in enumerate(calls):
        lines.append("    " + call + (", &" if n + 1 < len(calls) else " &"))
    lines.append("    )")
    lines.append(f"end program c21alg{alg_id}")
    return "\n".join(lines) + "\n"


def algorithm_text(md, md_id):
    '''One invoke of one kernel.'''
    return invoke_text([(md, md_id, names_for(md))], md_id)
