'''C08 - loops reported parallelisable have no loop-carried dependence.

A generated family of loops (subscript x statement grid, conditional and
unconditional scalar writes, reductions, nested loops, variables named like the
analysis' internal symbols) is read by PSyclone and
DependencyTools.can_loop_be_parallelised is asked about each loop under a
CPU-time alarm (clause Answers).  TLC executes the loop under FortranSem.tla
with per-iteration access tracking on every input (SemAccess.tla, mode
"bernstein"): verdict true => no two iterations conflict, except scalars every
iteration writes before reading.  Verdict false is never a violation.
'''
import itertools
import signal

from pv import core, sem
from pv.export import Unsupported

HEAD = '''subroutine s(a, b, c, idx, n, m, t, u, kout, flag)
  integer, intent(in) :: n
  integer, intent(in) :: m
  integer, intent(inout) :: kout
  real, intent(inout) :: t
  real, intent(inout) :: u
  logical, intent(in) :: flag
  real, dimension(0:9), intent(inout) :: a
  real, dimension(0:9), intent(inout) :: b
  real, dimension(0:5,0:5), intent(inout) :: c
  integer, dimension(1:4), intent(in) :: idx
  integer :: i
  integer :: j
  integer :: k
  real :: x
'''
TAIL = "end subroutine s\n"
DOM = [("n", [1, 2, 3, 4]), ("m", [1, 2]), ("kout", [7]), ("t", [[1, 2]]), ("u", [[3, 1]]),
       ("flag", [True, False])]
FILLS = [1, 2]
TIME_LIMIT = 60


def prog(body, extra_decl=()):
    return HEAD + "".join("  " + l + "\n" for l in extra_decl) + \
        "".join("  " + l + "\n" for l in body) + TAIL


SUBS = ["i", "i+1", "i-1", "2*i", "n-i+1", "i/2", "mod(i,2)", "idx(i)", "1", "m", "i+m",
        "2*i-1", "(i+1)/2", "5-i", "max(i,2)", "i*i/2", "kout-6"]


def items(tier):
    out = []
    lim = len(SUBS) if tier != "quick" else 13
    # one array, write subscript x read subscript
    for w, r in itertools.product(SUBS[:lim], SUBS[:lim]):
        out.append((f"wr|{w}|{r}", prog(["do i = 1, n", f"  a({w}) = a({r}) + 1.0", "end do"])))
    for w in SUBS:
        out.append((f"w|{w}", prog(["do i = 1, n", f"  a({w}) = b(i) + 1.0", "end do"])))
        out.append((f"ww|{w}", prog(["do i = 1, n", f"  a({w}) = b(i)", "  a(i) = 2.0", "end do"])))
    # scalars
    scal = [["x = b(i)", "a(i) = x"], ["a(i) = x", "x = b(i)"],
            ["if (b(i) > 1.0) x = b(i)", "a(i) = x"], ["if (flag) x = b(i)", "a(i) = x + u"],
            ["if (flag) then", "  x = b(i)", "  a(i) = x", "end if"],
            ["t = t + a(i)"], ["t = max(t, a(i))"], ["t = a(i)"], ["kout = kout + 1", "a(kout-7) = 1.0"],
            ["k = i + 1", "a(k) = b(i)"], ["k = k + 1", "a(k) = b(i)"], ["a(i) = t"],
            ["x = b(i)", "if (flag) x = x + 1.0", "a(i) = x"],
            ["if (flag) then", "  x = 1.0", "else", "  x = 2.0", "end if", "a(i) = x"],
            ["if (b(i) > 0.0) then", "  x = 1.0", "end if", "a(i) = x"],
            ["x = 0.0", "do j = 1, m", "  x = x + c(j,i)", "end do", "a(i) = x"],
            ["u = a(i) + u"], ["a(i) = b(i)", "t = 2.0"]]
    for k, b in enumerate(scal):
        out.append((f"sc|{k}|{';'.join(b)}",
                    prog(["x = 0.5", "k = 0", "do i = 1, n"] + ["  " + s for s in b] + ["end do"])))
    # nests: analyse outer and inner loop
    nests = ["c(i,j) = c(i,j) + 1.0", "c(i,j) = c(j,i)", "c(i,j) = c(i-1,j)", "c(i,j) = c(i,j-1)",
             "c(j,i) = c(j,i-1) + 1.0", "a(i) = a(i) + c(i,j)", "a(j) = a(j) + c(i,j)",
             "c(i,j) = a(i+j)", "a(i+j) = 1.0", "c(i,1) = c(i,j)", "c(i+1,j) = c(i,j+1)",
             "c(i,j) = c(i+1,j-1)", "a(i) = c(i,j) + a(j)", "c(idx(i),j) = 1.0", "c(i,idx(j)) = b(j)"]
    for b in nests:
        out.append((f"nest|{b}", prog(["do j = 1, m + 1", "  do i = 1, n", "    " + b, "  end do",
                                       "end do"])))
    # 2-D array, loop-invariant first subscript (incl. integer divisions that coincide)
    for b in ["c(n/2,i) = c((n+1)/2,i-1)", "c(m,i) = c(n,i-1)", "c(1,i) = c(2,i-1)", "c(n,i) = c(n+1,i-1)",
              "c(n/2,i) = c(n/2+1,i-1)", "c(m/2,i) = c((m-1)/2,i+1)", "c(i,n/2) = c(i-1,(n+1)/2)",
              "c(mod(n,2),i) = c(0,i-1)", "c(n-m,i) = c(0,i-1) + 1.0", "c(2*m,i) = c(m+m,i-1)",
              "c(1:3,i) = c(2:4,i-1) + 1.0", "c(1:3,i) = c(1:3,i) * 2.0", "c(0:2,i) = c(3:5,i-1)",
              "c(i,1:3) = c(i-1,2:4)", "c(1:2,i) = c(3:4,i+1)", "c(0:1,i) = c(1:2,i)",
              # one loop variable in several subscripts
              "c(i,i) = c(i,i-1)", "c(i,i) = c(i-1,i-1) + 1.0", "c(i,i+1) = c(i+1,i)", "c(i,i) = c(i,i) * 2.0",
              "c(i,i-1) = c(i-1,i)", "c(i,n-i) = c(i-1,n-i+1)", "c(i,2*i) = c(i,i)", "c(i/2,i) = c(i/2,i-1)"]:
        out.append((f"inv|{b}", prog(["do i = 1, n", "  " + b, "end do"])))
    # other bounds / steps
    for (lo, hi, st), b in itertools.product(
            [("2", "2*n", ", 2"), ("n", "1", ", -1"), ("0", "n", "")],
            ["a(i) = a(i-1)", "a(i) = a(i+1)", "a(i) = a(i-2) * 2.0", "a(i/2) = 1.0", "a(i) = a(i/2)",
             "a(i) = b(i)", "a(i+1) = a(i-1)"]):
        out.append((f"st|{lo},{hi}{st}|{b}", prog([f"do i = {lo}, {hi}{st}", "  " + b, "end do"])))
    # variables named like the analysis' internal symbols d_<var>, d1_<var>
    for names in [("d_i",), ("d_i", "d1_i"), ("d_j",)]:
        decl = [f"integer :: {nm}" for nm in names]
        out.append((f"dvar|{','.join(names)}",
                    prog([f"{names[0]} = 1", "do i = 1, n", f"  a(i + {names[0]}) = a(i) + 1.0", "end do"],
                         extra_decl=decl)))
        for b in (f"a(i) = a(i + {names[0]}) + 1.0", f"a(i) = a(i - {names[0]}) * 2.0",
                  f"a(i + {names[0]}) = a(i + 2*{names[0]})", f"a(i) = a({names[0]}) + b(i)"):
            out.append((f"dvar3|{','.join(names)}|{b}",
                        prog([f"{names[0]} = 1", "do i = 1, n", "  " + b, "end do"], extra_decl=decl)))
        out.append((f"dvar2|{','.join(names)}",
                    prog([f"{names[0]} = 1", "do j = 1, 2", "do i = 1, n",
                          f"  c(i + {names[0]}, j) = c(i, j) + 1.0", "end do", "end do"], extra_decl=decl)))
    return out


class _Timeout(Exception):
    pass


def _alarm(signum, frame):
    raise _Timeout()


def _mark(body, which, counter):
    '''mark the which-th loop (pre-order) of an exported body'''
    for s in body:
        if s["k"] == "loop":
            if counter[0] == which:
                s["mark"] = True
            counter[0] += 1
        for key in ("body", "then", "else"):
            if key in s:
                _mark(s[key], which, counter)


def _build(item):
    from psyclone.psyir.nodes import Loop
    from psyclone.psyir.tools import DependencyTools
    pid, src = item
    out = []
    try:
        psy = sem.parse(src)
        r = sem.routine_named(psy, "s")
        loops = r.walk(Loop)
    except Exception as err:   # noqa
        return [{"id": pid, "status": "unsupported", "why": f"parse: {err}"[:200]}]
    for li, loop in enumerate(loops):
        for opts in ({}, {"test_all_variables": True}):
            cid = f"{pid}#loop{li}" + ("+all" if opts else "")
            # CPU time of this process, not wall-clock time: a loaded machine must not
            # look like a non-terminating analysis
            signal.signal(signal.SIGPROF, _alarm)
            signal.setitimer(signal.ITIMER_PROF, TIME_LIMIT)
            try:
                dt = DependencyTools()
                verdict = bool(dt.can_loop_be_parallelised(loop, **opts))
                msgs = [str(m) for m in dt.get_all_messages()][:4]
            except _Timeout:
                out.append({"id": cid, "status": "timeout", "src": src})
                continue
            except Exception as err:   # noqa
                out.append({"id": cid, "status": "crash", "src": src,
                            "why": f"{type(err).__name__}: {err}"[:300]})
                continue
            finally:
                signal.setitimer(signal.ITIMER_PROF, 0)
            try:
                ex = sem.Exporter().routine(r)
            except Unsupported as err:
                out.append({"id": cid, "status": "unsupported", "why": str(err)})
                continue
            _mark(ex["body"], li, [0])
            for d in ex["decls"]:
                if d["name"] == "idx":      # a permutation and a non-injective map
                    d["data"] = [[2, 1, 4, 3], [1, 1, 2, 2]]
            names = {d["name"] for d in ex["decls"]}
            case = {"id": cid, "mode": "bernstein", "verdict": verdict,
                    "decls": ex["decls"], "dom": [[n, v] for n, v in DOM if n in names],
                    "fills": FILLS, "subs": {"#none": {"formals": [], "locals": [], "body": []}},
                    "body": ex["body"]}
            out.append({"id": cid, "status": "answered", "verdict": verdict, "msgs": msgs,
                        "case": case, "src": src, "loop": li})
    return out


# ------------------------------------------------------------ known findings
def _text(rec):
    return rec["src"].split("integer :: k\n  real :: x\n")[-1]


def m_truncating_division(rec, clause, detail, finding):
    '''a subscript with an integer division (i/2, (i+1)/2, i*i/2) is treated as
    exact rational arithmetic, so different iterations are believed to touch
    different elements'''
    # the division must apply to an expression of the analysed loop's variable i:
    # i/2, (i+1)/2, i*i/2 - not a loop-invariant n/2
    import re
    return clause == "Bernstein" and detail["var"] in ("a", "c") and bool(
        re.search(r"(\bi|\([^()]*\bi\b[^()]*\)|\bi\*i)/2", rec["id"]))


def m_conditional_scalar(rec, clause, detail, finding):
    '''a scalar that is written only conditionally (IF around the write) before
    being read is classed as private/parallelisable'''
    body = _text(rec)
    return clause == "Bernstein" and detail["var"] in ("x",) and "if (" in body


def m_hang_dvar(rec, clause, detail, finding):
    '''a variable named d_<loopvar> makes the distance computation spin forever'''
    return clause == "Answers" and rec["id"].startswith("dvar")


MATCHERS = {"truncating-division-subscript": m_truncating_division,
            "conditionally-written-scalar": m_conditional_scalar,
            "hang-on-d-var-name": m_hang_dvar}


def run(tier):
    core.setup_psyclone_env()
    out = core.Outcome("C08", tier, "model_checking", matchers=MATCHERS)
    its = items(tier)
    results = [r for part in core.pool_map(_build, its, chunksize=1) for r in part]
    stat = {}
    for r in results:
        stat[r["status"]] = stat.get(r["status"], 0) + 1
    if stat.get("unsupported", 0) > 0.2 * len(results):
        raise core.MachineryError(f"too many unsupported cases: {stat}")
    for r in results:
        if r["status"] == "timeout":
            out.violation({"id": r["id"], "src": r["src"]}, "Answers",
                          {"var": "", "limit_s": TIME_LIMIT})
    answered = [r for r in results if r["status"] == "answered"]
    res = sem.run_equiv([r["case"] for r in answered], spec="SemAccess.tla",
                        cfg="SemAccess.cfg")
    ntrue = sum(1 for r in answered if r["verdict"])
    for r in answered:
        fails = res.fails.get(r["id"], [])
        if not fails:
            continue
        w = fails[0][1]
        out.violation({"id": r["id"], "src": r["src"], "loop": r["loop"], "messages": r["msgs"]},
                      "Bernstein",
                      {"var": w["x"]["var"], "iterations": [w["x"]["p"], w["x"]["q"]],
                       "input": w["val"], "fill": w["fm"], "n_failing_inputs": len(fails)})
    cov = {"states": res.states, "transitions": res.transitions,
           "traces_validated_against_impl": len(answered),
           "evaluations": len(results), "distinct_nontrivial": ntrue,
           "rule": ("one case = (generated loop, analysis options); non-trivial = the analysis "
                    "answered 'parallelisable' (only then the Bernstein clause constrains it)"),
           "status_counts": stat, "verdict_true": ntrue, "verdict_false": len(answered) - ntrue,
           "discarded_ub_inputs": sum(res.discards.values()),
           "crashes": [{"id": r["id"], "why": r["why"]} for r in results
                       if r["status"] == "crash"][:10],
           "samples": [{"id": r["id"], "verdict": r["verdict"], "source": r["src"]}
                       for r in answered[:: max(1, len(answered) // 4)][:4]],
           "exhaustive": False}
    return out.finish(cov, assumptions=[
        "inputs: n in 1..4, m in 1..2, both values of flag, two array fills; index array idx takes "
        "the two fill patterns", "the analysis 'answers' = returns within %d s CPU" % TIME_LIMIT,
        "exporter pv.export trusted, fails closed"])
