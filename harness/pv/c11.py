'''C11 - variable access information covers every actual read and write.

For every statement of a family of generated routines VariablesAccessInfo is
asked for the signatures it reports read / written; the program is exported
with that statement wrapped in a `track` record and TLC executes it under
spec/FortranSem.tla on every input (SemAccess.tla, mode "stmt"): every variable
an execution of the statement actually reads must be reported read, every one
it writes must be reported written, and in the target's own access list the
reads come before the write.  Over-reporting is allowed.
'''
from pv import core, sem
from pv.export import Unsupported

HEAD = '''module mm
  type :: pt
    real :: x
    real, dimension(0:4) :: v
    integer :: k
  end type pt
contains
subroutine s(a, b, c, ia, n, m, t, u, kout, flag, p, q, cols)
  type(pt), intent(inout) :: p
  type(pt), intent(inout) :: q
  type(pt), dimension(3), intent(inout) :: cols
  integer, intent(inout) :: n
  integer, intent(inout) :: m
  integer, intent(inout) :: kout
  real, intent(inout) :: t
  real, intent(inout) :: u
  logical, intent(inout) :: flag
  real, dimension(0:9), intent(inout) :: a
  real, dimension(0:9), intent(inout) :: b
  real, dimension(0:5,0:5), intent(inout) :: c
  integer, dimension(1:4), intent(inout) :: ia
  integer :: i
  integer :: j
  integer :: k
  real :: x
'''
TAIL = '''end subroutine s
subroutine setout(y, p)
  real, intent(out) :: y
  integer, intent(in) :: p
  y = real(p)
end subroutine setout
subroutine incr(y)
  real, intent(inout) :: y
  y = y + 1.0
end subroutine incr
subroutine setidx(p, q)
  integer, intent(out) :: p
  integer, intent(in) :: q
  p = q + 1
end subroutine setidx
subroutine fill(v, p)
  real, dimension(0:9), intent(inout) :: v
  integer, intent(in) :: p
  v(p) = 0.0
end subroutine fill
subroutine readonly(y, r)
  real, intent(in) :: y
  real, intent(inout) :: r
  r = r + y
end subroutine readonly
subroutine noop(y)
  real, intent(inout) :: y
end subroutine noop
elemental subroutine esub(y, z)
  real, intent(out) :: y
  real, intent(in) :: z
  y = z * 2.0
end subroutine esub
pure subroutine psub(y, z)
  real, intent(inout) :: y
  real, intent(in) :: z
  y = y + z
end subroutine psub
end module mm
'''
DOM = [("n", [1, 2, 3]), ("m", [1, 2]), ("kout", [2]), ("t", [[1, 2]]), ("u", [[3, 1]]),
       ("flag", [True, False]), ("p%x", [[1, 2]]), ("q%x", [[5, 2]]), ("p%k", [1]), ("q%k", [2])]
FILLS_NOTE = "cols%k takes small values through fill 2 only where used as index"
FILLS = [1, 2]

BODIES = [
    ["x = 0.5", "a(n) = b(m) + x", "t = a(n) * u", "a(ia(1)) = b(ia(2))", "ia(n) = m + kout"],
    ["a(1:n) = b(1:n) + t", "b(n:n+2) = a(m:m+2)", "c(n,:) = c(:,m)", "t = sum(a(1:n))",
     "u = maxval(b(m:m+3)) + minval(a)", "kout = size(a) + n"],
    ["do i = 1, n", "  a(i) = a(i-1) + b(i)", "end do", "do i = m, n + 1", "  do j = 1, 2",
     "    c(i,j) = c(j,i) + a(i+j)", "  end do", "end do"],
    ["if (flag) then", "  t = 1.0", "else", "  u = 2.0", "end if", "if (t > u) a(n) = t",
     "if (a(n) > 3.0 .and. flag) then", "  kout = kout + 1", "end if"],
    ["call setout(t, n)", "call incr(u)", "call setidx(k, m)", "a(k) = 1.0", "call fill(a, n)",
     "call fill(b, kout)", "call readonly(t, u)", "call setout(a(n), m)", "call incr(a(m))",
     "call noop(u)", "call setout(c(n,m), kout)"],
    ["call esub(t, u)", "call esub(a(n), t)", "call psub(u, t)", "call psub(a(m), a(n))", "t = u"],
    ["call random_number(t)", "call random_number(a(1:n))", "call mvbits(n, 0, 2, kout, 1)",
     "call cpu_time(u)", "call system_clock(n, m)", "a(n) = t"],
    ["x = 1.0", "do while (x < 3.0)", "  x = x + t + 1.0", "  a(n) = x", "end do", "t = x"],
    ["k = n", "k = k + 1", "a(k) = a(k) + 1.0", "i = 2", "a(i) = real(i)", "n = n + m",
     "flag = .not. flag", "flag = n > m .or. flag"],
    ["t = abs(u) + max(t, u, 1.0)", "kout = mod(n, 2) + min(m, kout)", "t = sign(t, u)",
     "u = dot_product(a(1:3), b(1:3))", "t = real(n) + real(int(u))", "a(n) = merge(t, u, flag)"],
    ["do i = 1, n", "  if (b(i) > 20.0) then", "    x = b(i)", "  else", "    a(i) = 0.0", "  end if",
     "  t = t + x", "end do"],
    ["p%x = q%x + a(n)", "p%v(n) = q%v(m) * 2.0", "q%k = n", "a(q%k) = p%v(1)", "p%v(q%k) = p%v(q%k) + 1.0",
     "do i = 0, 4", "  q%v(i) = p%v(i) + p%x", "end do", "if (p%x > q%x) p%k = q%k", "call incr(p%x)",
     "call setout(q%v(n), p%k)", "p%v(:) = q%v(:) + t", "t = sum(p%v) + q%x"],
    ["cols(n)%x = cols(m)%x + 1.0", "cols(n)%v(m) = cols(m)%v(n) * 2.0", "call incr(cols(n)%x)",
     "call setout(cols(m)%v(kout), n)", "call setout(cols(kout)%x, m)", "call readonly(cols(n)%v(m), t)",
     "cols(ia(1))%k = n", "a(cols(m)%k) = cols(n)%v(1)", "call incr(cols(ia(2))%v(ia(1)))",
     "t = cols(1)%x + cols(2)%x + cols(3)%x"],
]


def items(tier):
    out = []
    for k, b in enumerate(BODIES):
        pre = ["x = 0.25", "k = 1"] if k not in (0, 6) else []
        out.append((f"body{k}", HEAD + "".join("  " + l + "\n" for l in pre + b) + TAIL))
    return out


def _names(var_info, types):
    from psyclone.core import AccessType
    res = []
    for sig in var_info.all_signatures:
        acc = var_info[sig].all_accesses
        if any(a.access_type in types for a in acc):
            res.append(str(sig).lower())
    return res


def _build(item):
    from psyclone.core import VariablesAccessInfo, AccessType
    from psyclone.psyir.nodes import Statement, Assignment
    pid, src = item
    out = []
    psy = sem.parse(src)
    r = sem.routine_named(psy, "s")
    stmts = [s for s in r.walk(Statement)]
    for k, st in enumerate(stmts):
        cid = f"{pid}#s{k}"
        text = st.debug_string().strip().split("\n")[0][:60]
        try:
            vai = VariablesAccessInfo(st)
        except Exception as err:   # noqa
            out.append({"id": cid, "status": "crash", "why": f"{type(err).__name__}: {err}"[:200]})
            continue
        rtypes = (AccessType.READ, AccessType.READWRITE, AccessType.INC, AccessType.READINC,
                  AccessType.UNKNOWN) if hasattr(AccessType, "UNKNOWN") else ()
        reads = [str(s).lower() for s in vai.all_signatures
                 if any(a.access_type not in (AccessType.WRITE,) and
                        a.access_type.name not in ("TYPE_INFO", "INQUIRY")
                        for a in vai[s].all_accesses)]
        writes = [str(s).lower() for s in vai.all_signatures
                  if any(a.access_type.name not in ("READ", "TYPE_INFO", "INQUIRY")
                         for a in vai[s].all_accesses)]
        target, seq = "", []
        if isinstance(st, Assignment) and hasattr(st.lhs, "symbol"):
            target = st.lhs.symbol.name.lower()
            for s in vai.all_signatures:
                if str(s).lower() == target:
                    seq = [[target, "W" if a.access_type == AccessType.WRITE else
                            ("R" if a.access_type == AccessType.READ else "RW")]
                           for a in vai[s].all_accesses]
        import os
        if os.environ.get("PV_C11_CORRUPT") == "drop-read" and reads:
            reads = reads[1:]          # binding demo: forget one reported read
        if os.environ.get("PV_C11_CORRUPT") == "drop-write" and writes:
            writes = writes[1:]
        try:
            ex = sem.Exporter()
            ex.track = st
            prog = ex.routine(r)
        except Unsupported as err:
            out.append({"id": cid, "status": "unsupported", "why": str(err)})
            continue
        for d in prog["decls"]:
            if d["name"] == "ia":
                d["data"] = [[2, 1, 4, 3], [1, 1, 2, 2]]
        names = {d["name"] for d in prog["decls"]}
        case = {"id": cid, "mode": "stmt", "decls": prog["decls"],
                "dom": [[n, v] for n, v in DOM if n in names], "fills": FILLS,
                "subs": prog["subs"] or {"#none": {"formals": [], "locals": [], "body": []}},
                "body": prog["body"], "reads": reads, "writes": writes,
                "target": target, "seq": seq}
        out.append({"id": cid, "status": "ok", "case": case, "stmt": text,
                    "reads": reads, "writes": writes})
    return out


def m_pure_subroutine(case, clause, detail, finding):
    '''Call.reference_accesses treats a call to a routine that is known to be PURE as
    read-only for all its arguments - right for pure functions, wrong for a pure
    SUBROUTINE, which may define its intent(out/inout) dummies'''
    import re
    m = re.match(r"call (\w+)\(", case["statement"].strip().lower())
    return clause == "MayWriteReported" and bool(m) and m.group(1) in PURE_SUBROUTINES


PURE_SUBROUTINES = {"psub"}
MATCHERS = {"pure-subroutine-arguments-read-only": m_pure_subroutine}


def run(tier):
    global DOM, FILLS
    if tier != "quick":        # thorough: larger input domain, all fills
        DOM = [("n", [0, 1, 2, 3, 4]), ("m", [1, 2, 3]), ("kout", [2, 3]), ("t", [[1, 2], [-3, 2]]),
               ("u", [[3, 1]]), ("flag", [True, False]), ("p%x", [[1, 2]]), ("q%x", [[5, 2]]),
               ("p%k", [1, 2]), ("q%k", [2])]
        FILLS = [1, 2, 3]          # 720 inputs per statement, ~100k evaluations
    core.setup_psyclone_env()
    out = core.Outcome("C11", tier, "model_checking", matchers=MATCHERS)
    results = [r for part in core.pool_map(_build, items(tier), chunksize=1) for r in part]
    stat = {}
    for r in results:
        stat[r["status"]] = stat.get(r["status"], 0) + 1
    if stat.get("unsupported", 0) > 0.2 * len(results):
        raise core.MachineryError(f"too many unsupported cases: {stat} " +
                                  str([r["why"] for r in results if r["status"] == "unsupported"][:5]))
    ok = [r for r in results if r["status"] == "ok"]
    res = sem.run_equiv([r["case"] for r in ok], spec="SemAccess.tla", cfg="SemAccess.cfg")
    reached = 0
    for r in ok:
        fails = res.fails.get(r["id"], [])
        ninp = sem.n_inputs(r["case"])
        if res.discards.get(r["id"], 0) < ninp:
            reached += 1
        for clause in sorted({f[0] for f in fails}):
            w = [f[1] for f in fails if f[0] == clause][0]
            out.violation({"id": r["id"], "statement": r["stmt"], "reported_reads": r["reads"],
                           "reported_writes": r["writes"]}, clause,
                          {"missing": w["x"], "input": w["val"], "fill": w["fm"]})
    cov = {"states": res.states, "transitions": res.transitions,
           "traces_validated_against_impl": len(ok), "evaluations": len(results),
           "distinct_nontrivial": reached,
           "rule": ("one case = one statement of a generated routine; non-trivial = the original "
                    "program is defined on at least one input of the domain"),
           "status_counts": stat, "unsupported_why": sorted({r["why"] for r in results
                                                       if r["status"] == "unsupported"}),
           "discarded_ub_inputs": sum(res.discards.values()),
           "samples": [{"id": r["id"], "statement": r["stmt"], "reads": r["reads"],
                        "writes": r["writes"]} for r in ok[:: max(1, len(ok) // 5)][:5]],
           "exhaustive": False}
    return out.finish(cov, assumptions=[
        "variables are compared by name (signature = variable name; no structure components in the family)",
        "intrinsic subroutines: the arguments the Fortran 2008 standard says are defined count as written",
        "callee routines are interpreted (by-reference association), so a written dummy is a written actual"])
