'''C02 - written expressions keep the operation order of the PSyIR tree.

FortranExpr.tla transcribes the F2008 expression grammar (levels, associativity)
as a recursive-descent Parse and, independently, as a level table driving a
reference minimal-parenthesis printer.
 1. design level: FortranExprMC.tla - for every tree up to a depth bound
    Parse(Unparse(t)) = t, the fully parenthesised text parses to t, every
    parenthesis pair of the reference printer is necessary (TLC, exhaustive).
 2. binding (code -> spec): every well-typed expression tree of the stated
    families is built from REAL PSyIR nodes, written by a fresh FortranWriter,
    tokenised, and TLC (ExprTrace.tla) decides Conforming / SameTree /
    ReaderAgrees for each written text.
'''
import gc
import json
import os
import shutil

from pv import core
from pv import c02_lib as L
from pv.c02_lib import bn, un, ref, lit, call, des, part

ARITH = ("+", "-", "*", "/", "**")
MULPOW = ("*", "/", "**")
PREC = {".eqv.": 0, ".neqv.": 0, ".or.": 1, ".and.": 2, ".not.": 3, "==": 4,
        "/=": 4, "<": 4, "<=": 4, ">": 4, ">=": 4, "//": 5, "+": 6, "-": 6,
        "*": 7, "/": 7, "**": 8}
REL = ("==", "/=", "<", "<=", ">", ">=")
NREF = "abcdefgh"
LREF = ["l" + c for c in "pqrstuvw"]


# ------------------------------------------------------------ input families
def enum_typed(depth, nleaves, lleaves, nun, nbin, lun, lbin, rel, want):
    '''All well-typed trees of depth <= depth; want in "N", "L", "NL".'''
    num = list(nleaves)
    log = list(lleaves)
    for _ in range(depth):
        nnum = list(nleaves) + [un(o, x) for o in nun for x in num] + \
            [bn(o, l, r) for o in nbin for l in num for r in num]
        nlog = list(lleaves) + [un(o, x) for o in lun for x in log] + \
            [bn(o, l, r) for o in lbin for l in log for r in log] + \
            [bn(o, l, r) for o in rel for l in num for r in num]
        num, log = nnum, nlog
    res = []
    if "N" in want:
        res += num
    if "L" in want:
        res += log
    return res


def relabel(t, cnt):
    '''Copy of t with the i-th numeric / logical reference leaf renamed by
    position (so that swapped operands cannot go unnoticed).'''
    k = t["k"]
    if k == "ref":
        if t["n"] == "a":
            cnt[0] += 1
            return ref(NREF[(cnt[0] - 1) % len(NREF)])
        if t["n"] == "lp":
            cnt[1] += 1
            return ref(LREF[(cnt[1] - 1) % len(LREF)])
        return t
    if k == "un":
        r = un(t["op"], relabel(t["x"], cnt))
        if t.get("sl"):
            r["sl"] = 1
        return r
    if k == "bin":
        l = relabel(t["l"], cnt)
        return bn(t["op"], l, relabel(t["r"], cnt))
    if k == "des":
        return {"k": "des", "parts": [
            {"n": p["n"], "ix": p["ix"], "args": [relabel(a, cnt) for a in p["args"]]}
            for p in t["parts"]]}
    return t


def slit(sign, ty, v, kd=""):
    '''A signed PSyIR Literal (its tree is un(sign, lit))'''
    t = un(sign, lit(ty, v, kd))
    t["sl"] = 1
    return t


def special_leaves():
    i1 = bn("+", ref("i"), lit("int", "1"))
    return [
        lit("int", "3"), lit("int", "3", "8"), lit("int", "2", "i_def"),
        lit("real", "1.5"), lit("real", "1.5e0", "d"), lit("real", "2.5e-3", "d"),
        lit("real", "1.5", "d"), lit("real", "1.0e3", "wp"), lit("real", "0.5", "8"),
        lit("real", "1.", ""), lit("real", "3e2", ""),
        slit("-", "int", "1"), slit("+", "int", "2"), slit("-", "real", "1.5"),
        slit("-", "real", "1.5e0", "d"), slit("-", "int", "4", "i_def"),
        call("xa", ref("i")), call("xa", i1), call("xa", un("-", ref("i"))),
        call("m2", ref("i"), bn("*", ref("j"), lit("int", "2"))),
        call("xa", call("ia", bn("-", ref("i"), lit("int", "1")))),
        des(part("st"), part("x")), des(part("st"), part("v", [i1])),
        des(part("sa", [ref("i")]), part("x")),
        des(part("sa", [i1]), part("sub"), part("y")),
        des(part("st"), part("subs", [ref("i")]), part("w", [bn("**", ref("j"),
                                                                lit("int", "2"))])),
        call("mod", ref("i"), un("-", ref("j"))), call("abs", un("-", ref("a"))),
        call("max", ref("a"), bn("*", un("-", ref("b")), ref("c")), lit("real", "0.0")),
        call("min", bn("**", bn("**", ref("a"), ref("b")), ref("c")), ref("d")),
        call("sqrt", bn("+", bn("**", ref("a"), lit("int", "2")),
                        bn("**", ref("b"), lit("int", "2")))),
        call("sign", ref("a"), un("-", lit("real", "1.0"))),
        call("fn", bn("-", ref("a"), bn("-", ref("b"), ref("c")))),
        call("exp", bn("/", un("-", ref("a")), lit("real", "2.0"))),
    ]


def special_family():
    '''Literals of every kind, array / structure accesses and calls in every
    operand position of the arithmetic operators (and under relational and
    logical operators).'''
    res = []
    b = ref("b")
    c = ref("c")
    for x in special_leaves():
        res.append(x)
        for o in ("-", "+"):
            res.append(un(o, x))
        for o in ARITH:
            res.append(bn(o, x, b))
            res.append(bn(o, b, x))
            res.append(bn(o, bn(o, x, b), c))
            res.append(bn(o, b, bn(o, x, c)))
            res.append(bn(o, un("-", x), b))
            res.append(bn(o, b, un("-", x)))
        res.append(bn("<", x, b))
        res.append(bn(">=", b, x))
        res.append(un(".not.", bn("==", x, b)))
        res.append(bn(".and.", bn("<", b, x), ref("lp")))
    logs = [lit("logical", "true"), lit("logical", "false"), lit("logical", "true", "4"),
            ref("lp"), bn("==", ref("c1"), lit("char", "x")),
            bn("/=", lit("char", "it's"), ref("c2")),
            bn("==", ref("c1"), lit("char", "y", "1"))]
    for x in logs:
        res.append(x)
        res.append(un(".not.", x))
        for o in (".and.", ".or.", ".eqv.", ".neqv."):
            res.append(bn(o, x, ref("lq")))
            res.append(bn(o, ref("lq"), x))
            res.append(bn(o, un(".not.", x), ref("lq")))
            res.append(bn(o, ref("lq"), un(".not.", x)))
    return res


def families(tier):
    a = [ref("a")]
    a2 = [ref("a"), lit("int", "2")]
    lp = [ref("lp")]
    lp2 = [ref("lp"), lit("logical", "true")]
    lops = (".and.", ".or.", ".eqv.", ".neqv.")
    fams = [
        ("d2-all-operators", 2, True,
         enum_typed(2, a2, lp2, ("+", "-"), ARITH, (".not.",), lops, REL, "NL")),
        ("d3-minus-mul-pow-sub", 3, True,
         enum_typed(3, a, [], ("-",), ("-", "*", "**"), (), (), (), "N")),
        ("d3-plus-minus-div-add", 3, True,
         enum_typed(3, a, [], ("+", "-"), ("/", "+"), (), (), (), "N")),
        ("d3-logical", 3, True,
         enum_typed(3, a, lp, ("-",), ("+",), (".not.",), (".and.", ".eqv."),
                    ("<",), "L")),
        ("literals-designators-calls", 0, False, special_family()),
    ]
    if tier != "quick":
        import random
        sd = core.seed()
        allarith = enum_typed(3, a, [], ("+", "-"), ARITH, (), (), (), "N")
        t3 = enum_typed(3, a, [], ("-",), ("*", "**", "-"), (), (), (), "N")
        rnd = random.Random(1009 * sd + 17)
        d4 = []
        for _ in range(40000):       # depth-4 trees: random top node over all depth-3 trees
            o = rnd.choice(("u-", "*", "**", "-"))
            d4.append(un("-", rnd.choice(t3)) if o == "u-"
                      else bn(o, rnd.choice(t3), rnd.choice(t3)))
        fams += [
            # every 5th of the 568 520 trees (offset by the seed)
            ("d3-all-arithmetic-1in5", 3, True, allarith[sd % 5::5]),
            ("d3-logical-wide", 3, True,
             enum_typed(3, a, lp, ("-",), ("*",), (".not.",), (".and.", ".or.", ".neqv."),
                        ("==", "<="), "L")),
            ("d4-sampled-minus-mul-pow-sub", 4, True, d4),
        ]
    return fams


# ------------------------------------------------- driving the implementation
def _one(gt):
    '''Write one tree with the real FortranWriter and read it back.'''
    from psyclone.psyir.backend.fortran import FortranWriter
    from psyclone.psyir.frontend.fortran import FortranReader
    from psyclone.psyir.nodes import Assignment, Reference
    ctx = L.ctx()
    if "reader" not in ctx:
        ctx["reader"] = FortranReader()
    expr = L.build(gt)
    tree = L.abstract(expr)                 # projection of the real nodes
    assign = Assignment.create(Reference(ctx["syms"]["x1"]), expr)
    text = FortranWriter()(assign)
    text = text.strip()
    if not text.startswith("x1 = ") or "\n" in text:
        raise core.MachineryError("unexpected writer output: " + repr(text))
    text = text[5:]
    toks = L.tokenize(text)
    rd, rt, peq = 0, {"k": "none"}, False
    try:
        back = ctx["reader"].psyir_from_expression(text, ctx["tab"])
    except (ValueError, NotImplementedError, SyntaxError):
        back = None
    if back is not None:
        peq = bool(back == expr)
        try:
            bt = L.abstract(back)
        except L.Unsupported as err:
            bt = {"k": "other", "what": str(err)}
        if bt == tree:
            rd = 1
        else:
            rd, rt = 2, bt
    return {"tree": tree, "toks": toks, "rd": rd, "rt": rt, "text": text,
            "peq": peq}


_FAMS = {}


def fam_trees(tier):
    '''{family: (max depth, [generator trees])}, leaves relabelled; cached per
    process (a deterministic function of the tier).'''
    if tier not in _FAMS:
        res = {}
        only = [f for f in os.environ.get("PV_C02_ONLY", "").split(",") if f]
        for fam, depth, label, trees in families(tier):
            if only and fam not in only:        # development / demo aid
                continue
            stride = int(os.environ.get("PV_C02_STRIDE", "1"))   # development aid
            if stride > 1:
                trees = trees[::stride]
            if label:
                trees = [relabel(t, [0, 0]) for t in trees]
            res[fam] = (depth, trees)
        _FAMS[tier] = res
    return _FAMS[tier]


def _work(job):
    tier, fam, lo, hi = job
    trees = fam_trees(tier)[fam][1]
    out = []
    for i in range(lo, hi):
        rec = _one(trees[i])
        rec["family"] = fam
        rec["idx"] = i
        out.append(rec)
    return out


def _warm():
    '''Import PSyclone and build the symbol context once, before forking.'''
    from psyclone.psyir.frontend.fortran import FortranReader
    ctx = L.ctx()
    if "reader" not in ctx:
        ctx["reader"] = FortranReader()
    _one(bn("+", ref("a"), lit("int", "1")))


def drive(tier, sizes, procs):
    '''Write and re-read every tree of every family (process pool; the workers
    enumerate the families themselves).'''
    _warm()
    jobs = []
    for fam, n in sizes.items():
        step = 500
        jobs += [(tier, fam, lo, min(lo + step, n)) for lo in range(0, n, step)]
    res = core.pool_map(_work, jobs, procs=procs, chunksize=1)
    return [rec for part_ in res for rec in part_]


# ----------------------------------------------------------- known findings
def _has_sl(gt):
    return any(n.get("sl") for n, _, _ in L.walk(gt))


def _rewrite(t, rules, gt):
    return _rw(t, rules, gt, None, None)[0]


def _rw(t, rules, gt, parent, slot):
    '''What the writer's text denotes if (only) the listed defect rules are at
    work.  Returns (tree, loose): loose = the tree is sign(X) and that sign is
    written bare at the very start of this subtree's unparenthesised text, so
    Fortran applies it to the whole enclosing add-operand.  gt = generator tree
    (carries the signed-literal marks), walked in parallel.'''
    k = t["k"]
    if k == "lit":
        # (the generator tree has the literal's value as given to PSyIR)
        if "double-literal-without-exponent" in rules and t["ty"] == "real" \
                and t["kd"] == "d" and "e" not in gt["v"]:
            return lit("real", t["v"], ""), False
        return t, False
    if k == "un":
        x, _ = _rw(t["x"], rules, gt["x"], t, "x")
        return un(t["op"], x), bool(gt.get("sl")
                                    and "signed-literal-as-operand" in rules)
    if k == "des":
        return {"k": "des", "parts": [
            {"n": p["n"], "ix": p["ix"],
             "args": [_rw(a, rules, gp["args"][i], None, None)[0]
                      for i, a in enumerate(p["args"])]}
            for p, gp in zip(t["parts"], gt["parts"])]}, False
    if k != "bin":
        return t, False
    op = t["op"]

    def left_loose(lraw, lgt, l, inherited, pop, pparent, pslot):
        # is the sign at the head of the left operand of `pop` written bare?
        if lraw["k"] == "un":
            if lgt.get("sl"):
                return inherited
            if lraw["op"] not in ("+", "-"):
                return False
            # the writer's own exception: -x heading a tighter right operand
            guarded = (lraw["op"] == "-" and pparent is not None
                       and pparent["k"] == "bin" and pslot == "r"
                       and PREC[pop] > PREC[pparent["op"]])
            if pop in ("*", "/"):
                return "unary-sign-left-of-mul" in rules and not guarded
            if pop == "**":
                return lraw["op"] == "+" and "unary-plus-left-of-pow" in rules
            return False
        if lraw["k"] == "bin" and inherited:
            if lraw["op"] == "**" and pop == "**":     # parenthesised unless that defect
                return "pow-left-nested" in rules
            return PREC[lraw["op"]] >= PREC[pop]       # else parenthesised
        return False

    if op == "**" and t["l"]["k"] == "bin" and t["l"]["op"] == "**" \
            and "pow-left-nested" in rules:
        # ((x1**x2)**...)**xn written x1 ** x2 ** ... ** xn
        chain, gchain, node, gnode = [], [], t, gt
        while node["k"] == "bin" and node["op"] == "**":
            chain.append(node["r"])
            gchain.append(gnode["r"])
            last, glast = node, gnode
            node, gnode = node["l"], gnode["l"]
        x1, l1 = _rw(node, rules, gnode, last, "l")
        l1 = left_loose(node, gnode, x1, l1, "**", None, None)
        ops = [_rw(c, rules, g, None, "r")[0] for c, g in zip(chain, gchain)]
        ops.reverse()                                   # x2 .. xn
        head = x1["x"] if l1 else x1
        nest = ops[-1]
        for o in reversed(ops[:-1]):
            nest = bn("**", o, nest)
        nest = bn("**", head, nest)
        if l1:
            return un(x1["op"], nest), True
        return nest, False
    l, ll = _rw(t["l"], rules, gt["l"], t, "l")
    r, _ = _rw(t["r"], rules, gt["r"], t, "r")
    ll = left_loose(t["l"], gt["l"], l, ll, op, parent, slot)
    if ll and op == "**" and t["l"]["k"] == "un" and not gt["l"].get("sl"):
        # +X ** r with X = p*q, p/q or p**q written bare: ** takes X's last primary
        return un(l["op"], _attach_pow(l["x"], t["l"]["x"], r)), True
    if ll and op in MULPOW:
        return un(l["op"], bn(op, l["x"], r)), True
    return bn(op, l, r), False


def _attach_pow(x, xraw, r):
    '''Tree denoted by the text `X ** r` when X (rewritten x, original xraw) is
    written without parentheses.'''
    if x["k"] == "bin" and xraw["k"] == "bin" and x["op"] == xraw["op"]:
        if x["op"] in ("*", "/"):
            last, lraw = x["r"], xraw["r"]
            if last["k"] == "bin" and lraw["k"] == "bin" and last["op"] == "**" \
                    and lraw["op"] == "**":
                return bn(x["op"], x["l"], bn("**", last["l"], bn("**", last["r"], r)))
            return bn(x["op"], x["l"], bn("**", last, r))
        if x["op"] == "**":
            return bn("**", x["l"], bn("**", x["r"], r))
    return bn("**", x, r)


RULES = ("unary-sign-left-of-mul", "pow-left-nested", "unary-plus-left-of-pow",
         "signed-literal-as-operand", "double-literal-without-exponent")


def _shapes(gt):
    '''Which defect shapes occur in the (generator) tree.'''
    found = set()
    for n, parent, slot in L.walk(gt):
        if n["k"] == "lit" and n["ty"] == "real" and n["kd"] == "d" and "e" not in n["v"]:
            found.add("double-literal-without-exponent")
        if parent is None or parent["k"] not in ("bin", "un"):
            continue
        if n["k"] == "un" and n.get("sl"):
            # a signed literal anywhere but at the head of a level-2 expression
            if not (parent["k"] == "bin" and slot == "l" and parent["op"] in ("+", "-")
                    or parent["k"] == "bin" and PREC[parent["op"]] < PREC["+"]):
                found.add("signed-literal-as-operand")
            continue
        if parent["k"] != "bin":
            continue
        if n["k"] == "un" and n["op"] in ("+", "-") and slot == "l":
            if parent["op"] in ("*", "/"):
                found.add("unary-sign-left-of-mul")
            if parent["op"] == "**" and n["op"] == "+":
                found.add("unary-plus-left-of-pow")
        if n["k"] == "bin" and n["op"] == "**" and slot == "l" and parent["op"] == "**":
            found.add("pow-left-nested")
    return found


def _subsets(items):
    items = list(items)
    for mask in range(1, 1 << len(items)):
        yield [x for i, x in enumerate(items) if mask >> i & 1]


def explain(case, clause, detail):
    '''Set of known defect shapes that fully account for a failing case, or
    None.  SameTree: what TLC parsed from the text equals the tree rewritten by
    the defect rules of shapes present in the tree.  Conforming: TLC's parse
    error is at a sign that directly follows an operator, and the tree has a
    shape that puts an unparenthesised sign there.'''
    gt = case["gtree"]
    present = _shapes(gt)
    if not present:
        return None
    parsed = detail["parsed"]
    if clause == "SameTree":
        for sub in sorted(_subsets(sorted(present)), key=len):
            if _rewrite(case["tree"], set(sub), gt) == parsed:
                return set(sub)
        return None
    if clause == "Conforming":
        toks = case["toks"]
        at = parsed.get("at", 0)
        if not (2 <= at <= len(toks)):
            return None
        cur, prev = toks[at - 1], toks[at - 2]
        if not (cur[0] == "op" and cur[1] in ("+", "-") and prev[0] == "op"):
            return None
        # Which node wrote that sign?  Every unary +/- node (and signed literal)
        # writes exactly one sign token in prefix position, in text order.
        k = sum(1 for i in range(at) if _prefix_sign(toks, i))
        signs = [(n, par, slot) for n, par, slot in L.walk(gt)
                 if n["k"] == "un" and n["op"] in ("+", "-")]
        total = sum(1 for i in range(len(toks)) if _prefix_sign(toks, i))
        if total != len(signs) or not 1 <= k <= len(signs):
            return None
        node, par, slot = signs[k - 1]
        if node["op"] != cur[1]:
            return None
        if node.get("sl"):
            return {"signed-literal-as-operand"}
        if par is not None and par["k"] == "bin" and slot == "l":
            if par["op"] in ("*", "/"):
                return {"unary-sign-left-of-mul"}
            if par["op"] == "**" and node["op"] == "+":
                return {"unary-plus-left-of-pow"}
        return None
    return None


def _prefix_sign(toks, i):
    '''Is token i a + or - in prefix (unary) position?'''
    t = toks[i]
    return t[0] == "op" and t[1] in ("+", "-") and \
        (i == 0 or toks[i - 1][0] in ("op", "lp", "cm"))


def _mk_matcher(fid):
    def match(case, clause, detail, finding):
        shapes = explain(case, clause, detail)
        return bool(shapes) and sorted(shapes)[0] == fid
    return match


MATCHERS = {"c02-" + r: _mk_matcher(r) for r in RULES}


# -------------------------------------------------------------------- TLC
def validate(out, cov, cases, tmp, workers=None, batch=60000):
    '''Hand written expressions to TLC (ExprTrace.tla) in batches.'''
    for lo in range(0, len(cases), batch):
        chunk = cases[lo:lo + batch]
        path = os.path.join(tmp, f"c02-{lo}.json")
        with open(path, "w") as f:
            json.dump([{"id": c["id"], "tree": c["tree"], "toks": c["toks"],
                        "rd": c["rd"], "rt": c["rt"]} for c in chunk], f,
                      separators=(",", ":"))
        res = core.run_tlc("ExprTrace.tla", "ExprTrace.cfg", env={"PV_CASES": path},
                           workers=workers, timeout=3000)
        os.unlink(path)
        cov["states"] += res.distinct
        cov["transitions"] += res.generated
        if res.distinct != 2 * len(chunk):
            raise core.MachineryError(
                f"C02 trace validation did not consume every case: "
                f"{res.distinct} states, expected {2 * len(chunk)}")
        cov["traces_validated_against_impl"] += len(chunk)
        by_id = {c["id"]: c for c in chunk}
        cov["divergences"] += len(res.printed("DIVERGES"))
        for b in sorted(res.printed("VERDICT"), key=lambda v: v["id"]):
            c = by_id[b["id"]]
            fam = cov["families"][c["family"]]
            fam["failing"] += 1
            case = {"family": c["family"], "expr": L.show(c["tree"]),
                    "written": c["text"],
                    "tree": c["tree"], "gtree": c["gtree"], "toks": c["toks"],
                    "reader": {0: "refused", 1: "equal", 2: "different"}[c["rd"]],
                    "reader_tree": L.show(c["rt"]) if c["rd"] == 2 and
                    c["rt"]["k"] != "other" else None}
            for clause in b["v"]:
                detail = {"parsed": b["w"]["parsed"],
                          "parsed_text": L.show(b["w"]["parsed"])
                          if b["w"]["parsed"]["k"] != "err" else None}
                if clause in ("Conforming", "SameTree"):
                    shapes = explain(case, clause, detail)
                    if shapes and len(shapes) > 1:
                        # several known shapes in one expression: count each
                        for s in sorted(shapes)[1:]:
                            cov["co_occurring_shapes"][s] = \
                                cov["co_occurring_shapes"].get(s, 0) + 1
                out.violation(case, clause, detail)


def mc_configs(tier):
    cfgs = ["FortranExprMC_d2.cfg", "FortranExprMC_d3.cfg"]
    if tier != "quick":
        cfgs += ["FortranExprMC_d3b.cfg", "FortranExprMC_d2full.cfg",
                 "FortranExprMC_thorough.cfg", "FortranExprMC_thorough2.cfg"]
    return cfgs


def design_level(cfg, workers):
    '''Model-check FortranExpr itself; returns (distinct, generated).'''
    res = core.run_tlc("FortranExprMC.tla", cfg, check=False, workers=workers,
                       timeout=3000)
    if res.invariant_violated or res.error:
        raise core.MachineryError(
            f"FortranExpr.tla fails its own design-level check ({cfg}): "
            + str(res.invariant_violated or res.error))
    exp = [l for l in res.out.splitlines() if l.startswith('<<"EXPECTED"')]
    want = int(exp[0].split(",")[1].strip(" >")) if exp else -1
    if res.distinct != want:
        raise core.MachineryError(
            f"FortranExprMC ({cfg}) explored {res.distinct} states, expected {want}")
    return res.distinct, res.generated


def run(tier):
    from concurrent.futures import ThreadPoolExecutor
    core.setup_psyclone_env()
    out = core.Outcome("C02", tier, "model_checking", matchers=MATCHERS)
    cov = {"states": 0, "transitions": 0, "traces_validated_against_impl": 0,
           "samples": [], "exhaustive": True, "divergences": 0, "unsupported": 0,
           "co_occurring_shapes": {}, "families": {}, "model_states": 0}
    dev = int(os.environ.get("PV_WORKERS", "0"))      # development: fewer cores
    ncpu = dev or core.NCPU
    pool = ThreadPoolExecutor(2)
    tmp = core.mktemp("pv-c02-")
    gc.disable()
    try:
        fams = fam_trees(tier)
        cases = drive(tier, {f: len(v[1]) for f, v in fams.items()},
                      procs=ncpu)
        for n, c in enumerate(cases):
            c["id"] = n + 1
            c["gtree"] = fams[c["family"]][1][c["idx"]]
        for fam, (depth, trees) in fams.items():
            got = [c for c in cases if c["family"] == fam]
            cov["families"][fam] = {"cases": len(got), "failing": 0, "max_depth": depth}
            for c in (got[len(got) // 3], got[-1]):
                if len(cov["samples"]) < 8:
                    cov["samples"].append({"family": fam, "expr": L.show(c["tree"]),
                                           "written": c["text"],
                                           "reader": c["rd"]})
        # design level (TLC on the spec alone) runs beside the trace validation
        # (threads are started only after the process pool is gone)
        futs = [pool.submit(design_level, cfg, max(2, ncpu // 4))
                for cfg in mc_configs(tier)
                if not os.environ.get("PV_C02_ONLY")]
        validate(out, cov, cases, tmp, workers=max(2, ncpu // 2))
        for f in futs:
            dist, gen = f.result()
            cov["states"] += dist
            cov["transitions"] += gen
            cov["model_states"] += dist
    finally:
        gc.enable()
        pool.shutdown(wait=True)
        shutil.rmtree(tmp, ignore_errors=True)
    total = len(cases)
    nontrivial = sum(1 for c in cases if c["tree"]["k"] in ("un", "bin", "des"))
    peq_div = sum(1 for c in cases if c["rd"] == 1 and not c["peq"])
    refused = sum(1 for c in cases if c["rd"] == 0)
    if tier != "quick":
        cov["exhaustive"] = False      # the 1-in-5 and depth-4 families are samples
    if os.environ.get("PV_C02_ONLY") or os.environ.get("PV_C02_STRIDE"):
        cov["exhaustive"] = False
        cov["restricted_to"] = (os.environ.get("PV_C02_ONLY", "all families") + " stride "
                                + os.environ.get("PV_C02_STRIDE", "1"))
    cov["evaluations"] = total
    cov["distinct_nontrivial"] = nontrivial
    cov["reader_refused"] = refused
    cov["psyir_eq_false_but_projection_equal"] = peq_div
    for fid, rec in sorted(out.known_examples.items()):      # one witness per finding
        cov["samples"].append({"known_finding": fid, "clause": rec["clause"],
                               "expr": rec["case"]["expr"],
                               "written": rec["case"]["written"],
                               "denotes": rec["detail"].get("parsed_text")
                               or rec["detail"]["parsed"]})
    cov["rule"] = ("every well-typed tree of a family is one case (distinct by "
                   "construction); non-trivial = the tree has at least one operator, "
                   "call or subscripted/structure access; divergences = property "
                   "holds but the text differs from the reference printer's "
                   "(redundant parentheses)")
    return out.finish(cov, assumptions=[
        "tokenizer trusted: case folded, .EQ.-style and ==-style relational operators "
        "identified, d-exponent reported as kind",
        "a signed PSyIR Literal is the level-2 expression sign+literal",
        "real literal digits compared up to the spelling of the exponent (1.5e0 = 1.5)",
        "Precision.SINGLE and UNDEFINED denote the same (default) literal kind; "
        "relative precisions of INTEGER/LOGICAL literals are not enumerated",
        "array element, function reference and intrinsic call share one syntax "
        "(name + parenthesised list)",
        "no concatenation operator, array sections, named arguments, complex or "
        "BOZ literals (not constructible as PSyIR operations / outside the abstraction)"])
