'''C26 - generated driver: every constructible transformation x every node
(and short node ranges) of a few parsed programs x a few option dictionaries,
run as scripts (histories of several attempts on the same tree) under the
recorder of c26_recorder.  Deterministic in (tier, VERIF_SEED).'''
import contextlib
import inspect
import io
import os
import random
import re

from pv import core

GENERIC_SRC = '''\
module c26_mod
  implicit none
  integer, parameter :: n = 8
  real :: shared(n)
contains
  subroutine helper(x, k)
    real, intent(inout) :: x(n)
    integer, intent(in) :: k
    integer :: i
    do i = 1, n
      x(i) = x(i) + real(k)
    end do
  end subroutine helper

  subroutine work(a, b, c, m, s)
    real, intent(inout) :: a(n, n), b(n, n)
    real, intent(inout) :: c(n)
    integer, intent(in) :: m
    real, intent(out) :: s
    integer :: i, j, k
    real :: t, u(n), w(n, n)
    t = 0.0
    do j = 1, n
      do i = 1, n
        a(i, j) = b(i, j) + 1.0
      end do
    end do
    do j = 1, n, 2
      do i = 1, n, 8
        w(i, j) = a(i, j) * 2.0
      end do
    end do
    do j = 1, m
      do i = 2, n - 1
        t = max(a(i, j), b(i - 1, j))
        b(i, j) = abs(t) + sign(a(i, j), c(i))
      end do
    end do
    do i = 1, n
      c(i) = c(i) * 2.0
    end do
    do j = 1, n
      do i = 1, n
        call helper(c, i)
      end do
    end do
    do i = 1, n
      u(i) = c(i) + shared(i)
    end do
    if (m > 2) then
      c(:) = u(:) + 1.0
      call helper(c, m)
    else
      k = m + 1
      c(k) = min(t, 3.0)
    end if
    w = matmul(a, b)
    s = dot_product(c, u) + sum(w) + maxval(a)
    a(:, :) = a(:, :) * b(:, :)
    do i = 1, n
      k = i + 1
      if (c(i) < 0.0) then
        c(i) = 0.0
      end if
      u(i) = w(i, 1)
    end do
  end subroutine work
end module c26_mod
'''

NEMO_SRC = '''\
program tra_test
  implicit none
  integer, parameter :: jpi = 6, jpj = 6, jpk = 4
  integer :: ji, jj, jk
  real :: zwx(jpi, jpj, jpk), umask(jpi, jpj, jpk), ptr(jpi, jpj, jpk)
  real :: zsum, r
  zwx(:, :, :) = 0.0
  do jk = 1, jpk
    do jj = 1, jpj
      do ji = 1, jpi
        umask(ji, jj, jk) = ji * jj * jk / r
      end do
    end do
  end do
  do jk = 1, jpk - 1
    do jj = 2, jpj
      do ji = 2, jpi
        zwx(ji, jj, jk) = umask(ji, jj, jk) * (ptr(ji, jj, jk) - ptr(ji - 1, jj, jk))
      end do
    end do
    zwx(:, 1, jk) = 0.0
  end do
  ptr(:, :, :) = zwx(:, :, :) * 0.5
  zsum = sum(ptr)
  if (zsum > 0.0) then
    write(*, *) zsum
  end if
end program tra_test
'''

# loop bounds made of array inquiries, structure members and calls of a user
# function (transformations that rewrite bounds one after the other)
BOUNDS_SRC = '''\
module c26b_mod
  implicit none
  type :: grid_type
    integer :: first
    integer :: last
    integer :: stride
  end type grid_type
contains
  function nact(x) result(num)
    real, dimension(:), intent(in) :: x
    integer :: num
    num = size(x) / 2
  end function nact

  subroutine work2(a, b, grid)
    real, dimension(:), intent(inout) :: a
    real, dimension(:), intent(inout) :: b
    type(grid_type), intent(in) :: grid
    integer :: i
    do i = lbound(a, 1), ubound(a, 1)
      a(i) = 0.0
    end do
    do i = nact(a), ubound(a, 1)
      a(i) = 1.0
    end do
    do i = lbound(b, 1), nact(b)
      b(i) = 2.0
    end do
    do i = grid%first, grid%last, nact(b)
      b(i) = 3.0
    end do
    do i = 1, nact(b) + 1, grid%stride
      b(i) = 4.0
    end do
    do i = size(a), 1, -1 * nact(a)
      a(i) = b(i)
    end do
  end subroutine work2
end module c26b_mod
'''

TESTFILES = "src/psyclone/tests/test_files"

PROGRAMS = {
    # name: (kind, argument)
    "generic": ("fortran", GENERIC_SRC),
    "nemo": ("nemo", NEMO_SRC),
    "bounds": ("fortran", BOUNDS_SRC),
    "lfric-multikernel-dm": ("psykal", ("dynamo0.3", "dynamo0p3/4_multikernel_invokes.f90", True)),
    "lfric-builtin-nodm": ("psykal", ("dynamo0.3", "dynamo0p3/15.1.2_builtin_and_normal_kernel_invoke.f90", False)),
    "gocean-two-kernels": ("psykal", ("gocean1.0", "gocean1p0/single_invoke_two_kernels.f90", False)),
    # thorough only
    "lfric-stencil-dm": ("psykal", ("dynamo0.3", "dynamo0p3/19.1_single_stencil.f90", True)),
    "lfric-inc-dm": ("psykal", ("dynamo0.3", "dynamo0p3/1.2_multi_invoke.f90", True)),
    "gocean-three-dm": ("psykal", ("gocean1.0", "gocean1p0/single_invoke_three_kernels.f90", True)),
    "lfric-multikernel-nodm": ("psykal", ("dynamo0.3", "dynamo0p3/4_multikernel_invokes.f90", False)),
}
QUICK_PROGRAMS = ["generic", "nemo", "bounds", "lfric-multikernel-dm", "lfric-builtin-nodm",
                  "gocean-two-kernels"]


def build(prog):
    '''-> root node of a fresh tree for the program.'''
    kind, arg = PROGRAMS[prog]
    from psyclone.configuration import Config
    if kind == "fortran":
        from psyclone.psyir.frontend.fortran import FortranReader
        Config.get().api = "nemo"
        if prog not in _PRISTINE:
            _PRISTINE[prog] = FortranReader().psyir_from_source(arg)
        return _PRISTINE[prog].copy()
    if kind == "nemo":
        from psyclone.psyGen import PSyFactory
        from fparser.common.readfortran import FortranStringReader
        from fparser.two.parser import ParserFactory
        Config.get().api = "nemo"
        parser = ParserFactory().create(std="f2008")
        ast = parser(FortranStringReader(arg))
        psy = PSyFactory("nemo", distributed_memory=False).create(ast)
        _KEEP.append(psy)
        return psy.container if getattr(psy, "container", None) is not None \
            else psy.invokes.invoke_list[0].schedule.root
    api, fname, dm = arg
    from psyclone.parse.algorithm import parse
    from psyclone.psyGen import PSyFactory
    Config.get().api = api
    Config.get().distributed_memory = dm
    if prog not in _PRISTINE:
        # the parsed algorithm layer + kernel metadata (read-only input);
        # the PSy layer is created afresh for every renewal
        base = os.path.join(core.REPO, TESTFILES)
        if not os.path.isdir(base):        # scratch copy made without tests
            base = os.path.join("/repo", TESTFILES)
        _PRISTINE[prog] = parse(os.path.join(base, fname), api=api)[1]
    info = _PRISTINE[prog]
    psy = PSyFactory(api, distributed_memory=dm).create(info)
    _KEEP.append(psy)
    del _KEEP[:-4]
    return psy.invokes.invoke_list[0].schedule.root


_KEEP = []
_PRISTINE = {}


# ------------------------------------------------------------ transformations

def constructible():
    '''[(name, factory)] for every Transformation subclass that can be
    instantiated (with default arguments or the obvious ones).'''
    from pv import c26_recorder
    res = []
    for cls in c26_recorder.discover():
        if inspect.isabstract(cls):
            continue
        for args in ((), (["a", "t"],), ("metadata",)):
            try:
                cls(*args)
            except Exception:        # noqa
                continue
            res.append((cls.__name__, cls, args))
            break
    return res


_INTERESTING = ("Loop", "Schedule", "Routine", "Container", "Kern", "Call",
                "Assignment", "IfBlock", "Directive", "HaloExchange",
                "GlobalSum", "Intrinsic", "BuiltIn", "CodeBlock", "FileContainer")


def doc_options(cls):
    '''Option dictionaries read from the apply/validate docstrings
    (`:param ... options["name"]:` + `:type options["name"]: T`).'''
    names = {}
    for k in cls.__mro__:
        for meth in ("apply", "validate"):
            f = k.__dict__.get(meth)
            f = getattr(f, "__wrapped__", f)
            doc = getattr(f, "__doc__", None) or ""
            doc = re.sub(r"\\\n", " ", doc)
            doc = re.sub(r"\s+", " ", doc)
            for m in re.finditer(r':param (\w+ )?options\["([\w-]+)"\]:', doc):
                names.setdefault(m.group(2), (m.group(1) or "").strip())
            for m in re.finditer(r':type options\["([\w-]+)"\]: ([^:]+?)(?= :|$)', doc):
                names[m.group(1)] = m.group(2).strip()
    res = []
    for nm in sorted(names):
        typ = names[nm]
        if nm == "force":
            continue
        if "bool" in typ:
            res.append({nm: True})
            if nm not in ("node-type-check",):
                res.append({nm: False})
        elif "int" in typ:
            vals = {"collapse": (2, 3, "two"), "depth": (1, 2, -1),
                    "chunksize": (4, 0), "tilesize": (4, -2),
                    "number_of_layers": (20,), "element_order": (0,)}.get(nm, (2,))
            for v in vals:
                res.append({nm: v})
        elif "str" in typ:
            vals = {"position": ("before", "after", "middle"),
                    "cellshape": ("quadrilateral", "round"),
                    "prefix": ("extract", "bad prefix")}.get(nm, ("x",))
            for v in vals:
                res.append({nm: v})
    if "number_of_layers" in names:
        res.append({"number_of_layers": 20, "element_order": 0, "quadrature": True})
    if "collapse" in names and "force" in names:
        res.append({"collapse": 2, "force": True})
    return res


def _arity(cls):
    '''Number of node parameters of apply before `options`.'''
    f = getattr(cls.apply, "__wrapped__", cls.apply)
    try:
        pars = [p for p in list(inspect.signature(f).parameters.values())[1:]
                if p.kind in (p.POSITIONAL_ONLY, p.POSITIONAL_OR_KEYWORD)]
    except (TypeError, ValueError):
        return 1
    n = 0
    for p in pars:
        if p.name in ("options",):
            break
        if p.default is not inspect.Parameter.empty:
            break
        n += 1
    return max(1, min(n, 2))


def plan(prog, tier):
    '''Deterministic list of attempts (trans index, target code, option).'''
    root = build(prog)
    from psyclone.psyir.nodes import Node
    nodes = root.walk(Node)
    trans = constructible()
    rnd = random.Random(f"{core.seed()}/{prog}")
    attempts = []
    for ti, (name, cls, cargs) in enumerate(trans):
        extra = doc_options(cls)
        ar = _arity(cls)
        for ni, node in enumerate(nodes):
            cname = " ".join(c.__name__ for c in type(node).__mro__)
            interesting = any(k in cname for k in _INTERESTING)
            opts = [None, {"force": True}]
            if interesting:
                if tier == "quick" and len(extra) > 4:
                    opts += rnd.sample(extra, 4)
                else:
                    opts += extra
            for o in opts:
                if ar == 2:
                    attempts.append((ti, ("pair", ni, 1), o))
                    if interesting and o is None:
                        attempts.append((ti, ("pair", ni, 2), o))
                        attempts.append((ti, ("pairrev", ni, 1), o))
                else:
                    attempts.append((ti, ("node", ni), o))
            if ar == 1 and interesting and node.parent is not None:
                # short node ranges: this node and its next one / two siblings
                attempts.append((ti, ("range", ni, 2), None))
                attempts.append((ti, ("range", ni, 3), {"force": True}))
    rnd.shuffle(attempts)
    # stratified order: first every documented option of every transformation
    # on every loop (where most transformations get past the type check and
    # refuse late), then the rest - a prefix of the plan (quick tier) then
    # contains all of the former
    loops = set(i for i, n in enumerate(nodes)
                if any("Loop" in c.__name__ for c in type(n).__mro__))

    def late(a):
        return (a[1][0] == "node" and a[1][1] in loops and a[2] is not None
                and a[2] != {"force": True})
    attempts = [a for a in attempts if late(a)] + \
               [a for a in attempts if not late(a)]
    return attempts, len(nodes), [t[0] for t in trans]


def _target(root, code):
    from psyclone.psyir.nodes import Node
    nodes = root.walk(Node)
    node = nodes[code[1] % len(nodes)]
    if code[0] == "node":
        return (node,)
    if code[0] == "range":
        par = node.parent
        if par is None:
            return ([node],)
        pos = node.position
        return (par.children[pos:pos + code[2]],)
    # two node arguments: the node and a following sibling (or the next node)
    par = node.parent
    other = None
    if par is not None and node.position + code[2] < len(par.children):
        other = par.children[node.position + code[2]]
    if other is None:
        other = nodes[(code[1] + code[2]) % len(nodes)]
    if code[0] == "pairrev":
        return (other, node)
    return (node, other)


def run_chunk(job):
    '''One worker: a list of attempts executed as scripts on the same tree
    (tree renewed after `max_commits` accepted transformations or a crash).'''
    prog, chunk_no, attempts, max_commits, text_every = job
    from pv import c26_recorder
    rec = c26_recorder.Recorder()
    rec.auto_session = False
    rec.text_every = text_every
    rec.install()
    trans = constructible()
    sink = io.StringIO()
    stats = {"attempts": 0, "renewals": 0, "fp_recheck": 0, "fp_unstable": []}
    try:
        with contextlib.redirect_stdout(sink), contextlib.redirect_stderr(sink):
            root = None
            commits = 0
            nsess = 0
            for k, (ti, code, opt) in enumerate(attempts):
                if root is None:
                    root = build(prog)
                    commits = 0
                    nsess += 1
                    rec.begin_session(f"{prog}/{chunk_no}/{nsess}", closed=True)
                    stats["renewals"] += 1
                name, cls, cargs = trans[ti]
                try:
                    targs = _target(root, code)
                except Exception:      # noqa - target no longer exists
                    continue
                if k % 16 == 5:
                    # self-check: a fresh dump of the unchanged tree must equal
                    # the carried one (fingerprint stability)
                    cont = rec.continuity
                    if cont is not None and cont[1][0] is root:
                        from pv import c26_fp
                        again = rec._fp(cont[1], cont[0], False)
                        stats["fp_recheck"] += 1
                        if again.triple() != cont[2].triple():
                            stats["fp_unstable"].append(
                                {"prog": prog, "after": name,
                                 "diff": [c26_fp.diff_component(a, b) for a, b in
                                          zip(cont[2].raw or ("", "", ""), again.raw)]})
                t = cls(*cargs)
                o = None if opt is None else dict(opt)
                stats["attempts"] += 1
                try:
                    t.apply(*targs, o) if o is not None else t.apply(*targs)
                except BaseException as err:     # noqa
                    if isinstance(err, (KeyboardInterrupt, SystemExit)):
                        raise
                # a commit at depth 0 (nested ones are included in counts, so
                # compare with the last E line)
                last = rec.cur["lines"][-1] if rec.cur["lines"] else None
                if last and last[0] == "E" and last[2] == "ok":
                    commits += 1
                if (last and last[2] == "crash") or commits >= max_commits \
                        or root.root is not root:
                    rec.end_session()
                    root = None
                sink.seek(0)
                sink.truncate()
            rec.end_session()
    finally:
        rec.uninstall()
    d = rec.dump()
    d["stats"] = stats
    return d
