'''C19: the generated family of linear tangent-linear kernels (DESIGN 4, C19).

A kernel = one module with one subroutine `k`; explicit-shape arrays with
literal bounds; every declaration on its own line.  The variables:

  candidates for "active"   a(0:8) b(0:8) c(0:3,0:2)  s t   (dummy arguments)
                            w                              (local scalar)
  always passive            p q (real scalars)  r(0:8)  n m (integers)
  loop variables            i j

kernels(tier) yields (id, body lines); source(body) renders the module.
Deterministic: a function of the tier only.
'''
import itertools
import re

# name -> (type, dimension attribute or None, is dummy argument)
VARS = {
    "a": ("real", "0:8", True), "b": ("real", "0:8", True),
    "c": ("real", "0:3,0:2", True),
    "s": ("real", None, True), "t": ("real", None, True),
    "p": ("real", None, True), "q": ("real", None, True),
    "r": ("real", "0:8", True),
    "n": ("integer", None, True), "m": ("integer", None, True),
    "w": ("real", None, False),
    "i": ("integer", None, False), "j": ("integer", None, False),
}
ORDER = ["a", "b", "c", "s", "t", "p", "q", "r", "n", "m", "w", "i", "j"]
CANDIDATES = ["a", "b", "c", "s", "t", "w"]      # may be declared active
REAL_PASSIVE = ["p", "q", "r"]

_TOKEN = re.compile(r"[A-Za-z_][A-Za-z_0-9]*")
_KEYWORDS = {"do", "end", "if", "then", "else", "mod", "enddo", "endif", "real",
             "max", "min", "and", "or", "not"}


def used_vars(body):
    names = set()
    for line in body:
        for tok in _TOKEN.findall(line.lower()):
            if tok in VARS:
                names.add(tok)
            elif tok not in _KEYWORDS and not re.fullmatch(r"[de]\d*", tok):
                raise ValueError("unknown identifier %r in %r" % (tok, line))
    return [v for v in ORDER if v in names]


def source(body):
    '''Fortran module text of a kernel body (list of lines).'''
    used = used_vars(body)
    args = [v for v in used if VARS[v][2]]
    out = ["module k_mod", "contains", "subroutine k(%s)" % ", ".join(args)]
    for v in used:
        ty, dim, isarg = VARS[v]
        attr = ty
        if dim:
            attr += ", dimension(%s)" % dim
        if isarg:
            attr += ", intent(in)" if (ty == "integer" or v in REAL_PASSIVE) else ", intent(inout)"
        out.append("  %s :: %s" % (attr, v))
    out += ["  " + l for l in body]
    out += ["end subroutine k", "end module k_mod", ""]
    return "\n".join(out)


# ----------------------------------------------------------------- loop heads
POS_START = ["1", "m", "1+m", "2*m-1", "n-3"]
POS_STOP = ["n", "n-1", "2*n", "n+m", "6"]
NEG_START = ["n", "n-1", "2*n", "n+m", "7"]
NEG_STOP = ["1", "m", "1+m", "m-1+2"]


def loop_heads(tier):
    '''(start, stop, step) strings: every bound/step combination.'''
    heads = []
    for st in ("1", "2", "3"):
        for lo, hi in itertools.product(POS_START, POS_STOP):
            heads.append((lo, hi, st))
    for st in ("-1", "-2", "-3"):
        for lo, hi in itertools.product(NEG_START, NEG_STOP):
            heads.append((lo, hi, st))
    # steps that are not literals
    heads += [("1", "n", "m"), ("1+m", "n", "m"), ("n", "1", "-m"), ("n", "m+1", "-1*m"),
              ("1", "n", "m+1")]
    return heads


def head_text(h, var="i"):
    lo, hi, st = h
    return "do %s = %s, %s%s" % (var, lo, hi, "" if st == "1" else ", " + st)


# ----------------------------------------------------------------- loop bodies
# one-dimensional bodies over i (i in 1..7 keeps i-1, i+1 inside 0:8)
BODIES = {
    "inc":      ["a(i) = a(i) + p*b(i)"],
    "stencil":  ["a(i) = b(i+1) + b(i-1)"],
    "mix":      ["a(i) = p*a(i) + b(i)/q - s"],
    "reduce":   ["s = s + r(i)*a(i)"],
    "overwr":   ["a(i) = 0.0", "a(i) = b(i)"],
    "chain":    ["b(i) = a(i-1)", "a(i) = p*b(i) + a(i)"],
    "ifpas":    ["if (r(i) > 0.5) then", "  a(i) = a(i) + b(i)", "else",
                 "  a(i) = -b(i+1)", "end if"],
    "tmp":      ["w = p*b(i)", "a(i) = a(i) + w"],
    "recur":    ["a(i) = a(i-1) + r(i)*b(i)"],
    "fwd":      ["a(i+1) = a(i)*q - a(i+1)"],
    "expand":   ["a(i) = (a(i) + b(i))*p/q"],
    "neg":      ["a(i) = -a(i)", "b(i) = b(i) - 2.0*a(i)"],
    "both":     ["a(i) = a(i) + a(i-1)/p - q*a(i+1)"],
    "scal":     ["a(i) = a(i) + s", "t = t - r(i)*s"],
    "ifidx":    ["if (mod(i, 2) == 0) then", "  a(i) = a(i) + p*b(i-1)", "end if",
                 "b(i) = q*b(i)"],
    "swap":     ["w = a(i)", "a(i) = b(i)", "b(i) = w"],
}

# straight-line kernels (no loop)
STRAIGHT = {
    "s1": ["s = p*t", "t = t + q*s"],
    "s2": ["s = 0.0", "s = t"],
    "s3": ["s = s + t", "t = s - t/p"],
    "s4": ["a(1) = a(2) + s", "s = a(1)*p"],
    "s5": ["w = s + t", "s = p*w", "t = t - w"],
    "s6": ["if (p > 1.0) then", "  s = t", "else", "  t = s*q", "end if"],
    "s7": ["a(2) = a(1)", "a(1) = 0.0", "a(3) = a(3) + p*a(2) - a(1)/q"],
    "s8": ["s = -s", "t = -(s + t)*p"],
    "s9": ["a(m) = a(m) + p*a(m+1)", "a(m+1) = a(m) - a(m+1)"],
    "s10": ["s = 2.0*s + s/q - p*s"],
    "s11": ["s = t + p*s", "s = s*q", "t = 0.0"],
    "s12": ["if (n > 2) then", "  a(n) = a(n-1)*p", "end if", "a(0) = a(0) + a(1)"],
    "s13": ["a(1) = p*a(1) + a(2) - a(1)/q + 2.0*a(1)"],
    # array notation (preprocess turns it into loops)
    "v1": ["a(:) = a(:) + p*b(:)"],
    "v2": ["a(1:n) = b(1:n)*q - a(1:n)"],
    "v3": ["a = 0.0", "a = b"],
    "v4": ["a(1:7) = b(2:8) + b(0:6)"],
}

# nested loops: (id, lines)
NESTED = {
    "n2d":   ["do j = 1, 2", "  do i = 1, n", "    c(i,j) = c(i-1,j) + p*c(i,j-1)", "  end do", "end do"],
    "n2dst": ["do j = 2, 1, -1", "  do i = 0, n, 2", "    c(i,j) = c(i,j) + c(i+1,j-1)/q", "  end do", "end do"],
    "tri":   ["do j = 1, m+1", "  do i = j, n", "    a(i) = a(i) + p*b(i-j)", "  end do", "end do"],
    "tri2":  ["do j = 1, 3", "  do i = n, j, -2", "    a(i) = a(i-1) + r(j)*b(i)", "  end do", "end do"],
    "nred":  ["do j = 0, 2", "  s = s + c(0,j)", "  do i = 1, n, 2", "    c(i,j) = c(i,j)*p + s", "  end do", "end do"],
    "nif":   ["do j = 1, m", "  if (r(j) > 0.0) then", "    do i = 1, n-1", "      a(i) = a(i) + b(i+j)", "    end do", "  end if", "end do"],
    "nseq":  ["do i = 1, n", "  a(i) = a(i) + b(i)", "end do", "do i = n, 1, -1", "  b(i) = b(i) + p*a(i-1)", "end do"],
    "nst3":  ["do j = 1, 2", "  do i = m, n, 3", "    c(i,j) = c(i,j-1) - c(i,j)", "  end do", "end do"],
    "ncomp": ["do j = 1, 2", "  do i = 1+m, 2*n, 2", "    a(i) = a(i) + r(j)*b(i-1)", "  end do", "end do"],
    "pasin": ["do i = 1, n", "  w = 2.0*p", "  a(i) = a(i) + w*b(i)", "end do"],
}


# bodies with one active array: cheap carriers for the loop-head coverage
BODIES["recur1"] = ["a(i) = r(i)*a(i) + a(i-1)"]
HEAD_BODIES = ["both", "recur1", "stencil"]
# representative heads every body meets in the quick tier
QUICK_HEADS = [("1", "n", "1"), ("m", "2*n", "2"), ("1", "n-1", "3"), ("n", "1", "-1"),
               ("7", "m", "-2"), ("1+m", "n", "2")]


THOROUGH_BODIES = HEAD_BODIES + ["inc", "reduce", "chain", "ifpas", "tmp"]
THOROUGH_HEADS = QUICK_HEADS + [("1", "n", "2"), ("m", "n", "3"), ("2*m-1", "n+m", "2"),
                                ("n-3", "n", "1"), ("n", "m", "-3"), ("2*n", "1", "-2"),
                                ("n-1", "1+m", "-1"), ("n+m", "m-1+2", "-2"),
                                ("1", "n", "m"), ("n", "1", "-m")]


def _loop(h, nm):
    return ("L|%s,%s,%s|%s" % (h + (nm,)),
            [head_text(h)] + ["  " + l for l in BODIES[nm]] + ["end do"])


def kernels(tier):
    '''Yield (id, body lines).'''
    heads = loop_heads(tier)
    names = list(BODIES)
    seen = set()
    if tier == "quick":
        # every head with one cheap body (rotating); every body with six heads
        pairs = [(h, HEAD_BODIES[k % len(HEAD_BODIES)]) for k, h in enumerate(heads)]
        pairs += [(h, nm) for nm in names for h in QUICK_HEADS]
    else:
        # every head with eight bodies, every body with sixteen heads
        pairs = [(h, nm) for h in heads for nm in THOROUGH_BODIES]
        pairs += [(h, nm) for nm in names for h in THOROUGH_HEADS]
    for h, nm in pairs:
        if (h, nm) not in seen:
            seen.add((h, nm))
            yield _loop(h, nm)
    for nm, body in STRAIGHT.items():
        yield ("S|" + nm, list(body))
    for nm, body in NESTED.items():
        yield ("N|" + nm, list(body))
    # a loop between straight-line statements
    for h in [("1", "n", "1"), ("1+m", "n", "2"), ("n", "1", "-2"), ("m", "n-1", "3")]:
        yield ("M|%s,%s,%s" % h,
               ["s = s + a(0)", head_text(h), "  a(i) = a(i) + s*r(i)", "  b(i) = b(i) - a(i-1)",
                "end do", "a(8) = a(8)*p + s"])
