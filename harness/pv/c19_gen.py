'''C19: the generated family of linear tangent-linear kernels (DESIGN 4, C19).

A kernel = one module with one subroutine `k`; explicit-shape arrays with
literal bounds; every declaration on its own line.  The variables:

  candidates for "active"   a(0:8) b(0:8) c(0:3,0:2)  s t   (dummy arguments)
                            w                              (local scalar)
  always passive            p q (real scalars)  r(0:8)  n m (integers)
  loop variables            i j

kernels(tier) yields (id, body lines); source(body) renders the module.
Deterministic: a function of the tier only.
'''
import itertools
import re

# name -> (type, dimension attribute or None, is dummy argument)
VARS = {
    "a": ("real", "0:8", True), "b": ("real", "0:8", True),
    "c": ("real", "0:3,0:2", True),
    "s": ("real", None, True), "t": ("real", None, True),
    "p": ("real", None, True), "q": ("real", None, True),
    "r": ("real", "0:8", True),
    "n": ("integer", None, True), "m": ("integer", None, True),
    # array-section family: 2-D / 1-D active candidates, row/column selectors
    "d": ("real", "1:3,1:3", True), "e": ("real", "1:3", True),
    "u": ("integer", None, True), "v": ("integer", None, True),
    "w": ("real", None, False),
    "i": ("integer", None, False), "j": ("integer", None, False),
}
ORDER = ["a", "b", "c", "d", "e", "s", "t", "p", "q", "r", "n", "m", "u", "v", "w", "i", "j"]
CANDIDATES = ["a", "b", "c", "d", "e", "s", "t", "w"]      # may be declared active
# passive coefficient imported from another module: its type is unresolved, so
# PSyAD's pre-processing (ArrayAssignment2LoopsTrans) leaves an array-section
# assignment that uses it in array notation
IMPORTED = "cp"
IMPORT_MODULE = "phys_mod"
REAL_PASSIVE = ["p", "q", "r"]

_TOKEN = re.compile(r"[A-Za-z_][A-Za-z_0-9]*")
_KEYWORDS = {"do", "end", "if", "then", "else", "mod", "enddo", "endif", "real",
             "max", "min", "and", "or", "not", "sum", IMPORTED}


def used_vars(body):
    names = set()
    for line in body:
        for tok in _TOKEN.findall(line.lower()):
            if tok in VARS:
                names.add(tok)
            elif tok not in _KEYWORDS and not re.fullmatch(r"[de]\d*", tok):
                raise ValueError("unknown identifier %r in %r" % (tok, line))
    return [v for v in ORDER if v in names]


def uses_import(body):
    return any(IMPORTED in _TOKEN.findall(line.lower()) for line in body)


def source(body):
    '''Fortran module text of a kernel body (list of lines).'''
    used = used_vars(body)
    args = [v for v in used if VARS[v][2]]
    out = ["module k_mod", "contains", "subroutine k(%s)" % ", ".join(args)]
    if uses_import(body):
        out.append("  use %s, only: %s" % (IMPORT_MODULE, IMPORTED))
    for v in used:
        ty, dim, isarg = VARS[v]
        attr = ty
        if dim:
            attr += ", dimension(%s)" % dim
        if isarg:
            attr += ", intent(in)" if (ty == "integer" or v in REAL_PASSIVE) else ", intent(inout)"
        out.append("  %s :: %s" % (attr, v))
    out += ["  " + l for l in body]
    out += ["end subroutine k", "end module k_mod", ""]
    return "\n".join(out)


# ----------------------------------------------------------------- loop heads
POS_START = ["1", "m", "1+m", "2*m-1", "n-3"]
POS_STOP = ["n", "n-1", "2*n", "n+m", "6"]
NEG_START = ["n", "n-1", "2*n", "n+m", "7"]
NEG_STOP = ["1", "m", "1+m", "m-1+2"]


def loop_heads(tier):
    '''(start, stop, step) strings: every bound/step combination.'''
    heads = []
    for st in ("1", "2", "3"):
        for lo, hi in itertools.product(POS_START, POS_STOP):
            heads.append((lo, hi, st))
    for st in ("-1", "-2", "-3"):
        for lo, hi in itertools.product(NEG_START, NEG_STOP):
            heads.append((lo, hi, st))
    # steps that are not literals
    heads += [("1", "n", "m"), ("1+m", "n", "m"), ("n", "1", "-m"), ("n", "m+1", "-1*m"),
              ("1", "n", "m+1")]
    return heads


def head_text(h, var="i"):
    lo, hi, st = h
    return "do %s = %s, %s%s" % (var, lo, hi, "" if st == "1" else ", " + st)


# ----------------------------------------------------------------- loop bodies
# one-dimensional bodies over i (i in 1..7 keeps i-1, i+1 inside 0:8)
BODIES = {
    "inc":      ["a(i) = a(i) + p*b(i)"],
    "stencil":  ["a(i) = b(i+1) + b(i-1)"],
    "mix":      ["a(i) = p*a(i) + b(i)/q - s"],
    "reduce":   ["s = s + r(i)*a(i)"],
    "overwr":   ["a(i) = 0.0", "a(i) = b(i)"],
    "chain":    ["b(i) = a(i-1)", "a(i) = p*b(i) + a(i)"],
    "ifpas":    ["if (r(i) > 0.5) then", "  a(i) = a(i) + b(i)", "else",
                 "  a(i) = -b(i+1)", "end if"],
    "tmp":      ["w = p*b(i)", "a(i) = a(i) + w"],
    "recur":    ["a(i) = a(i-1) + r(i)*b(i)"],
    "fwd":      ["a(i+1) = a(i)*q - a(i+1)"],
    "expand":   ["a(i) = (a(i) + b(i))*p/q"],
    "neg":      ["a(i) = -a(i)", "b(i) = b(i) - 2.0*a(i)"],
    "both":     ["a(i) = a(i) + a(i-1)/p - q*a(i+1)"],
    "scal":     ["a(i) = a(i) + s", "t = t - r(i)*s"],
    "ifidx":    ["if (mod(i, 2) == 0) then", "  a(i) = a(i) + p*b(i-1)", "end if",
                 "b(i) = q*b(i)"],
    "swap":     ["w = a(i)", "a(i) = b(i)", "b(i) = w"],
}

# straight-line kernels (no loop)
STRAIGHT = {
    "s1": ["s = p*t", "t = t + q*s"],
    "s2": ["s = 0.0", "s = t"],
    "s3": ["s = s + t", "t = s - t/p"],
    "s4": ["a(1) = a(2) + s", "s = a(1)*p"],
    "s5": ["w = s + t", "s = p*w", "t = t - w"],
    "s6": ["if (p > 1.0) then", "  s = t", "else", "  t = s*q", "end if"],
    "s7": ["a(2) = a(1)", "a(1) = 0.0", "a(3) = a(3) + p*a(2) - a(1)/q"],
    "s8": ["s = -s", "t = -(s + t)*p"],
    "s9": ["a(m) = a(m) + p*a(m+1)", "a(m+1) = a(m) - a(m+1)"],
    "s10": ["s = 2.0*s + s/q - p*s"],
    "s11": ["s = t + p*s", "s = s*q", "t = 0.0"],
    "s12": ["if (n > 2) then", "  a(n) = a(n-1)*p", "end if", "a(0) = a(0) + a(1)"],
    "s13": ["a(1) = p*a(1) + a(2) - a(1)/q + 2.0*a(1)"],
    # array notation (preprocess turns it into loops)
    "v1": ["a(:) = a(:) + p*b(:)"],
    "v2": ["a(1:n) = b(1:n)*q - a(1:n)"],
    "v3": ["a = 0.0", "a = b"],
    "v4": ["a(1:7) = b(2:8) + b(0:6)"],
}

# nested loops: (id, lines)
NESTED = {
    "n2d":   ["do j = 1, 2", "  do i = 1, n", "    c(i,j) = c(i-1,j) + p*c(i,j-1)", "  end do", "end do"],
    "n2dst": ["do j = 2, 1, -1", "  do i = 0, n, 2", "    c(i,j) = c(i,j) + c(i+1,j-1)/q", "  end do", "end do"],
    "tri":   ["do j = 1, m+1", "  do i = j, n", "    a(i) = a(i) + p*b(i-j)", "  end do", "end do"],
    "tri2":  ["do j = 1, 3", "  do i = n, j, -2", "    a(i) = a(i-1) + r(j)*b(i)", "  end do", "end do"],
    "nred":  ["do j = 0, 2", "  s = s + c(0,j)", "  do i = 1, n, 2", "    c(i,j) = c(i,j)*p + s", "  end do", "end do"],
    "nif":   ["do j = 1, m", "  if (r(j) > 0.0) then", "    do i = 1, n-1", "      a(i) = a(i) + b(i+j)", "    end do", "  end if", "end do"],
    "nseq":  ["do i = 1, n", "  a(i) = a(i) + b(i)", "end do", "do i = n, 1, -1", "  b(i) = b(i) + p*a(i-1)", "end do"],
    "nst3":  ["do j = 1, 2", "  do i = m, n, 3", "    c(i,j) = c(i,j-1) - c(i,j)", "  end do", "end do"],
    "ncomp": ["do j = 1, 2", "  do i = 1+m, 2*n, 2", "    a(i) = a(i) + r(j)*b(i-1)", "  end do", "end do"],
    "pasin": ["do i = 1, n", "  w = 2.0*p", "  a(i) = a(i) + w*b(i)", "end do"],
}


# bodies with one active array: cheap carriers for the loop-head coverage
BODIES["recur1"] = ["a(i) = r(i)*a(i) + a(i-1)"]
HEAD_BODIES = ["both", "recur1", "stencil"]
# representative heads every body meets in the quick tier
QUICK_HEADS = [("1", "n", "1"), ("m", "2*n", "2"), ("1", "n-1", "3"), ("n", "1", "-1"),
               ("7", "m", "-2"), ("1+m", "n", "2")]


THOROUGH_BODIES = HEAD_BODIES + ["inc", "reduce", "chain", "ifpas", "tmp"]
THOROUGH_HEADS = QUICK_HEADS + [("1", "n", "2"), ("m", "n", "3"), ("2*m-1", "n+m", "2"),
                                ("n-3", "n", "1"), ("n", "m", "-3"), ("2*n", "1", "-2"),
                                ("n-1", "1+m", "-1"), ("n+m", "m-1+2", "-2"),
                                ("1", "n", "m"), ("n", "1", "-m")]


# ------------------------------------------------------- array-section family
# Assignments to array sections that survive PSyAD's pre-processing and reach
# AssignmentTrans in array notation: the right-hand side uses the imported
# coefficient cp (unresolved type) or a non-elemental intrinsic (SUM of a
# passive array) - ArrayAssignment2LoopsTrans refuses both.  2-D active array d
# with a section in one dimension and a scalar index (same / different /
# literal / loop variable) in the other; the left-hand array on the right-hand
# side or not; sections with different bounds; rows against columns.  Entries
# without cp / sum are the controls that pre-processing does turn into loops.
SECTIONS = {
    "x1":  ["e(:) = cp*e(:)"],
    "x2":  ["d(u,:) = e(:)*cp"],
    "x3":  ["e(:) = cp*d(u,:) + e(:)"],
    "x4":  ["d(:,:) = cp*d(:,:)"],
    "x5":  ["d(u,:) = cp*d(v,:) + e(:)"],
    "x6":  ["d(u,:) = cp*d(u,:) + e(:)"],
    "x7":  ["d(:,u) = d(:,v)/cp - e(:)"],
    "x8":  ["d(u,1:2) = cp*d(u,2:3)"],
    "x9":  ["d(u,1:2) = cp*d(v,1:2) + e(2:3)"],
    "x10": ["d(u,:) = d(u,:) + cp*d(v,:)"],
    "x11": ["d(2,:) = cp*d(1,:) + e(:)"],
    "x12": ["d(u,:) = e(:) - d(v,:)/cp"],
    "x13": ["do i = 1, 3", "  d(i,:) = cp*d(i,:) + e(:)", "end do"],
    "x14": ["do i = 2, 3", "  d(i,:) = cp*d(i-1,:) + e(:)", "end do"],
    "x15": ["do i = 1, 3", "  d(i,:) = cp*d(u,:) + e(:)", "end do"],
    "x16": ["d(u,:) = sum(r(1:2))*d(v,:) + e(:)"],
    "x17": ["e(:) = sum(r(1:2))*e(:) + d(:,u)"],
    "x18": ["e(1:2) = cp*e(2:3)"],
    "x19": ["d(u,:) = cp*e(:)", "e(:) = cp*d(v,:)"],
    "x20": ["d(:,u) = cp*d(v,:)"],
    "x21": ["d(u,:) = cp*d(:,v) + e(:)"],
    "x22": ["e(:) = e(:) + cp*d(u,:) - d(v,:)/cp"],
    "x23": ["d(u,:) = 0.0", "d(u,:) = cp*e(:)"],
    "x24": ["d(u,:) = -cp*d(v,:)"],
    "x25": ["d(u,2:3) = cp*d(u,2:3) + e(1:2)"],
    "x26": ["d(u,:) = cp*d(u,:) - d(v,:)*sum(r(0:1))"],
    "x27": ["d(1,:) = cp*d(u,:) + e(:)"],
    "x28": ["d(u,1:2) = cp*d(v,2:3)"],
    "x29": ["e(:) = cp*d(u,:)", "d(v,:) = e(:)/cp + d(v,:)"],
    "x30": ["d(:,u) = sum(r(2:3))*d(:,u) + cp*e(:)"],
    # controls: no imported coefficient, pre-processing makes loops
    "y1":  ["d(u,:) = p*d(v,:) + e(:)"],
    "y2":  ["d(:,u) = d(:,u) + p*d(:,v)"],
    "y3":  ["e(:) = p*d(u,:) - e(:)/q"],
}
SECTIONS_THOROUGH = {
    "x31": ["do i = 1, 2", "  d(i,:) = cp*d(i+1,:) + e(:)", "end do"],
    "x32": ["do i = 3, 1, -1", "  d(:,i) = cp*d(:,u) + d(:,i)", "end do"],
    "x33": ["d(u,:) = cp*d(v,:)", "d(v,:) = cp*d(u,:) + e(:)"],
    "x34": ["if (u > 1) then", "  d(u,:) = cp*d(u-1,:) + e(:)", "end if"],
    "x35": ["d(u,1:3:2) = cp*d(v,1:3:2)"],
    "x36": ["d(u,:) = (d(v,:) + e(:))*cp"],
    "x37": ["e(:) = cp*e(:)", "d(u,:) = cp*d(v,:) - e(:)"],
    "x38": ["d(u,:) = cp*d(v,:) + cp*d(2,:)"],
    "x39": ["d(1:2,u) = cp*d(2:3,v) + e(1:2)"],
    "x40": ["d(u,:) = sum(r(1:2))*d(v,:) - d(u,:)/cp"],
}


def _loop(h, nm):
    return ("L|%s,%s,%s|%s" % (h + (nm,)),
            [head_text(h)] + ["  " + l for l in BODIES[nm]] + ["end do"])


def kernels(tier, seed=0):
    '''Yield (id, body lines).  The seed rotates which cheap body carries
    which loop head in the quick tier.'''
    heads = loop_heads(tier)
    names = list(BODIES)
    seen = set()
    if tier == "quick":
        # every head with one cheap body (rotating); every body with six heads
        pairs = [(h, HEAD_BODIES[(k + seed) % len(HEAD_BODIES)]) for k, h in enumerate(heads)]
        pairs += [(h, nm) for nm in names for h in QUICK_HEADS]
    else:
        # every head with eight bodies, every body with sixteen heads
        pairs = [(h, nm) for h in heads for nm in THOROUGH_BODIES]
        pairs += [(h, nm) for nm in names for h in THOROUGH_HEADS]
    for h, nm in pairs:
        if (h, nm) not in seen:
            seen.add((h, nm))
            yield _loop(h, nm)
    for nm, body in STRAIGHT.items():
        yield ("S|" + nm, list(body))
    for nm, body in NESTED.items():
        yield ("N|" + nm, list(body))
    for nm, body in SECTIONS.items():
        yield ("X|" + nm, list(body))
    if tier != "quick":
        for nm, body in SECTIONS_THOROUGH.items():
            yield ("X|" + nm, list(body))
    # a loop between straight-line statements
    for h in [("1", "n", "1"), ("1+m", "n", "2"), ("n", "1", "-2"), ("m", "n-1", "3")]:
        yield ("M|%s,%s,%s" % h,
               ["s = s + a(0)", head_text(h), "  a(i) = a(i) + s*r(i)", "  b(i) = b(i) - a(i-1)",
                "end do", "a(8) = a(8)*p + s"])
