'''C14, binding B (code -> spec): the repository's own tests run under the
tree-edit recorder (c14_pytest_recorder / c14_recorder); every distinct
recorded top-level call is validated by TLC with Trace_PSyIRTree_Local.tla
(PSyIRTree's clauses restricted to the recorded neighbourhood).'''
import json
import os
import subprocess
import sys

from pv import core

QUICK_DIRS = ["psyir/nodes", "psyir/transformations"]
THOROUGH_DIRS = ["psyir", "domain", "nemo", "psyGen_test.py", "dynamo0p3_test.py",
                 "dynamo0p3_basis_test.py",
                 "dynamo0p3_cma_test.py", "dynamo0p3_lma_test.py",
                 "dynamo0p3_multigrid_test.py", "dynamo0p3_quadrature_test.py",
                 "gocean1p0_test.py"]
BATCH = 60000


def dirs_of(tier):
    if os.environ.get("PV_C14_TESTS"):          # development / demonstrations
        return os.environ["PV_C14_TESTS"].split(",")
    return QUICK_DIRS if tier == "quick" else THOROUGH_DIRS


def _tests_root(tmp):
    '''Directory holding src/psyclone/tests next to the psyclone under test.
    A scratch copy made without tests gets an overlay of symlinks.'''
    src = os.path.join(core.REPO, "src")
    if os.path.isdir(os.path.join(src, "psyclone", "tests")):
        return src
    ov = os.path.join(tmp, "overlay", "src", "psyclone")
    os.makedirs(ov)
    for name in os.listdir(os.path.join(src, "psyclone")):
        os.symlink(os.path.join(src, "psyclone", name), os.path.join(ov, name))
    os.symlink("/repo/src/psyclone/tests", os.path.join(ov, "tests"))
    return os.path.dirname(ov)


def start(tmp, tier, procs):
    '''Launch the test subset under the recorder (returns a handle).'''
    src = _tests_root(tmp)
    tdir = os.path.join(tmp, "suite-traces")
    cwd = os.path.join(tmp, "suite-cwd")
    os.makedirs(tdir)
    os.makedirs(cwd)
    env = dict(os.environ)
    env.update({core.GUARD: "1", "C14_TRACE_DIR": tdir,
                "PYTHONDONTWRITEBYTECODE": "1",
                "PSYCLONE_CONFIG": os.path.join(core.REPO, "config", "psyclone.cfg"),
                "PYTHONPATH": ":".join([src, os.path.join(core.VERIF, "harness"),
                                        os.path.join(core.VERIF, "harness", "pv")])})
    dirs = dirs_of(tier)
    paths = [os.path.join(src, "psyclone", "tests", d) for d in dirs]
    paths = [p for p in paths if os.path.exists(p)]
    if not paths:
        raise core.MachineryError("C14 binding B: no test path exists: " + str(dirs))
    cmd = [sys.executable, "-m", "pytest", "-p", "c14_pytest_recorder",
           "-p", "no:cacheprovider", "-q", "-n", str(procs), "--timeout=1800",
           "-o", "addopts="] + paths
    log = open(os.path.join(tmp, "suite.log"), "w")
    proc = subprocess.Popen(cmd, cwd=cwd, env=env, stdout=log,
                            stderr=subprocess.STDOUT)
    return {"proc": proc, "tdir": tdir, "log": log, "tmp": tmp, "dirs": dirs}


def collect(handle, timeout):
    proc = handle["proc"]
    try:
        proc.wait(timeout=timeout)
    except subprocess.TimeoutExpired:
        proc.kill()
        raise core.MachineryError("C14 binding B: the test subset did not finish "
                                  f"in {timeout}s")
    handle["log"].close()
    with open(os.path.join(handle["tmp"], "suite.log")) as f:
        tail = f.read()[-3000:]
    summary = [line for line in tail.splitlines() if " passed" in line
               or " failed" in line or " error" in line]
    dumps = []
    for name in sorted(os.listdir(handle["tdir"])):
        with open(os.path.join(handle["tdir"], name)) as f:
            dumps.append(json.load(f))
    if not dumps:
        raise core.MachineryError("C14 binding B: the recorder plugin wrote no "
                                  "trace:\n" + tail[-1500:])
    return dumps, (summary[-1].strip("= ") if summary else "?"), proc.returncode


def merge(dumps):
    '''Union of the workers' de-duplicated events (equal by value).'''
    shapes = {}
    stats = {"events": 0, "raised": 0, "by_op": {}, "recorder_skipped": {},
             "kinds": {}}
    for d in dumps:
        stats["events"] += d["events"]
        stats["raised"] += d["raised"]
        for k, v in d["by_op"].items():
            stats["by_op"][k] = stats["by_op"].get(k, 0) + v
        for k, v in d["skipped"].items():
            stats["recorder_skipped"][k] = stats["recorder_skipped"].get(k, 0) + v
        for k, v in d["kinds"].items():
            stats["kinds"][k] = sorted(set(stats["kinds"].get(k, [])) | set(v))
        if not d.get("installed"):
            raise core.MachineryError("C14 binding B: recorder was not installed")
        for s in d["shapes"]:
            key = json.dumps([s[f] for f in ("op", "index", "exc", "kp", "kc", "full",
                                             "pre", "post", "items")],
                             separators=(",", ":"))
            ent = shapes.get(key)
            if ent is None:
                ent = shapes[key] = dict(s, tests=[])
                ent["count"] = 0
            ent["count"] += s["count"]
            if s["test"] not in ent["tests"] and len(ent["tests"]) < 8:
                ent["tests"].append(s["test"])
    ordered = [shapes[k] for k in sorted(shapes)]       # deterministic ids
    return ordered, stats


def validate(tmp, shapes, workers):
    '''TLC decides every distinct event.  Returns (verdicts {idx: clause},
    skipped {idx: clause}, states, transitions).'''
    verdicts, skipped = {}, {}
    states = generated = 0
    for lo in range(0, len(shapes), BATCH):
        items = []
        for idx in range(lo, min(lo + BATCH, len(shapes))):
            s = shapes[idx]
            items.append([idx, s["kp"], s["kc"], s["full"], s["pre"],
                          1 if s["exc"] else 0, s["post"]])
        path = os.path.join(tmp, f"suite-cases-{lo}.json")
        with open(path, "w") as f:
            json.dump({"items": items}, f, separators=(",", ":"))
        res = core.run_tlc("Trace_PSyIRTree_Local.tla", "Trace_PSyIRTree_Local.cfg",
                           env={"PV_CASES": path}, timeout=3000, workers=workers)
        if res.distinct != 2 * len(items):
            raise core.MachineryError(
                f"C14 binding B: trace validation did not consume every event: "
                f"{res.distinct} states, expected {2 * len(items)}")
        states += res.distinct
        generated += res.generated
        for v in res.printed("VERDICT"):
            verdicts[v["id"]] = v["v"]
        for v in res.printed("SKIP"):
            skipped[v["id"]] = v["v"]
        os.unlink(path)
    return verdicts, skipped, states, generated


def case_of(shape):
    '''The counterexample handed to Outcome.violation.'''
    names = shape["classes"]
    return {"binding": "B (recorded from the repository's tests)",
            "op": shape["op"], "index": shape["index"],
            "outcome": "raised" if shape["exc"] else "returned",
            "exception": shape["exc"],
            "nodes": {str(i + 1): names[i] for i in range(len(names))},
            "edited_node": 1, "items": shape["items"],
            "format_kind": shape["kp"], "category_kind": shape["kc"],
            "lists_recorded_for": shape["full"],
            "pre": dict(zip(("children", "parent", "ancestors_in_scope"), shape["pre"])),
            "post": dict(zip(("children", "parent", "ancestors_in_scope"),
                             shape["post"])),
            "occurrences": shape["count"], "tests": shape["tests"],
            "how_to_rerun": "PV_C14_BINDINGS=B bin/verif check C14 --tier quick "
                            "(or run the listed test with -p c14_pytest_recorder)"}
