'''C26 - pytest plugin: run (a subset of) the repository's own test-suite with
the transformation recorder installed.

    SVALAT_PSYCLONE_VERIF=1 C26_TRACE_DIR=<dir> \\
    PYTHONPATH=<repo>/src:/verif/harness:/verif/harness/pv \\
    python -m pytest -p c26_pytest_recorder -q -n 8 <test dirs>

Every test is one session (history) of the trace; each xdist worker writes
`<C26_TRACE_DIR>/trace-<worker>.json` at the end.  Inactive (no patching at
all) unless SVALAT_PSYCLONE_VERIF=1.
'''
import json
import os
import sys

_HERE = os.path.dirname(os.path.abspath(__file__))
if os.path.dirname(_HERE) not in sys.path:
    sys.path.append(os.path.dirname(_HERE))

_ACTIVE = os.environ.get("SVALAT_PSYCLONE_VERIF") == "1"
_REC = None


def pytest_configure(config):
    global _REC
    if not _ACTIVE:
        return
    from pv import c26_recorder
    _REC = c26_recorder.RECORDER
    _REC.auto_session = True
    _REC.post_on_ok = False      # Commit is unconstrained: do not pay for it
    _REC.installed_n = _REC.install()


def pytest_runtest_setup(item):
    if _REC is not None:
        _REC.context = item.nodeid
        _REC.stack.clear()
        _REC.begin_session(item.nodeid, closed=False)


def pytest_runtest_teardown(item, nextitem):
    if _REC is not None:
        _REC.stack.clear()
        _REC.end_session()
        # forget empty sessions
        if _REC.sessions and not _REC.sessions[-1]["lines"]:
            _REC.sessions.pop()


def pytest_sessionfinish(session, exitstatus):
    if _REC is None:
        return
    out = os.environ.get("C26_TRACE_DIR")
    if not out:
        return
    worker = os.environ.get("PYTEST_XDIST_WORKER", "main")
    if worker == "main" and not _REC.sessions and \
            getattr(session.config.option, "numprocesses", None):
        return                    # the xdist controller records nothing
    data = _REC.dump()
    data["installed"] = getattr(_REC, "installed_n", 0)
    data["worker"] = worker
    with open(os.path.join(out, f"trace-{worker}.json"), "w") as f:
        json.dump(data, f)
