'''C24 binding demonstration, trace side: cases recorded from the real generator
are accepted by Trace_InvokeBinding.tla; the same cases with one recorded field
flipped are rejected with the expected clause.

    /venv/bin/python -m pv.c24_demo          (from /verif/harness)
'''
import copy
import json
import os
import shutil
import sys

from pv import core
from pv import c24_gen as gen
from pv import c24


SHAPE = {"id": 1, "fam": "demo", "invokes": [
    {"name": "Mixed_Case", "calls": [
        {"k": "tk5", "args": ["x1", "f1", "f2", "st%f1", "st % fv( 1 )"]},
        {"k": "setval_x", "args": ["F1", "st%fv(1)"]},
        {"k": "setval_c", "args": ["p_q", "1.0"]},
        {"k": "setval_x", "args": ["p%q", "fv(2)"]},
        {"k": "inc_a_times_x", "args": ["X1", "st%fv(2)"]}]},
    {"name": "", "calls": [{"k": "setval_c", "args": ["fv( 1 )", "st%x1"]}]}]}


_KINDS = {"tk5": ["real", "field", "field", "field", "field"],
          "setval_x": ["field", "field"], "setval_c": ["field", "real"],
          "inc_a_times_x": ["real", "field"]}
for _inv in SHAPE["invokes"]:
    for _c in _inv["calls"]:
        _c["kinds"] = _KINDS[_c["k"]]


def corruptions(case):
    '''(description, corrupted case, clauses one of which must be reported)'''
    res = []
    c = copy.deepcopy(case)
    c["acts"][1], c["acts"][2] = c["acts"][2], c["acts"][1]
    res.append(("two actual arguments swapped", c, {"DataFlow"}))
    c = copy.deepcopy(case)
    del c["dums"][-1]
    res.append(("last dummy dropped", c, {"SameLength", "KernelArgNotADummy"}))
    c = copy.deepcopy(case)
    c["dums"][2] = c["dums"][1]
    res.append(("dummy declared twice", c, {"NoDuplicateDummies"}))
    c = copy.deepcopy(case)
    c["kargs"][1][0], c["kargs"][1][1] = c["kargs"][1][1], c["kargs"][1][0]
    res.append(("provenance of two kernel arguments swapped", c, {"DataFlow"}))
    c = copy.deepcopy(case)
    c["call"] = gen.enc("invoke_0")
    res.append(("called name changed", c, {"NameDefined"}))
    c = copy.deepcopy(case)
    c["acts"][0] = gen.enc("x2")
    res.append(("actual replaced by a foreign text", c,
                {"DataFlow", "ActualsFromInvoke"}))
    c = copy.deepcopy(case)
    c["kargs"][2][1] = {"t": "l", "v": gen.enc("2.0")}
    res.append(("literal changed", c, {"LiteralAgree"}))
    c = copy.deepcopy(case)
    c["acts"][3] = gen.enc("st%fv(1)")      # st%f1 -> st%fv(1)
    res.append(("component replaced by an array element", c, {"DataFlow"}))
    c = copy.deepcopy(case)
    c["dtypes"][0], c["dtypes"][1] = c["dtypes"][1], c["dtypes"][0]
    res.append(("declared types of two dummies swapped", c, {"TypeAgree"}))
    return res


def main():
    core.setup_psyclone_env()
    tmp = core.mktemp("pv-c24demo-")
    bad = 0
    try:
        r = gen.work((SHAPE, "lfric", False, tmp))
        val = r["paths"]["alg"]
        if val[0] != "ok" or val[1][0][0] != "case":
            print("demo shape not generated:", val)
            return 2
        case = dict(val[1][0][1], id=1)
        cov = {"states": 0, "transitions": 0}
        verdicts, _ = c24.validate([case], cov, tmp, workers=2)
        print("recorded case:", "accepted" if not verdicts else verdicts)
        bad += bool(verdicts)
        cs = corruptions(case)
        batch = [dict(c, id=i + 1) for i, (_, c, _) in enumerate(cs)]
        verdicts, _ = c24.validate(batch, cov, tmp, workers=2)
        for i, (what, _, want) in enumerate(cs):
            got = {v["v"] for v in verdicts if v["id"] == i + 1}
            ok = bool(got & want)
            bad += not ok
            print(f"{'rejected' if ok else 'NOT REJECTED'}: {what}: {sorted(got)}")
        # single-case replay configuration: the property as a TLC invariant
        path = os.path.join(tmp, "replay.json")
        with open(path, "w") as f:
            json.dump([batch[0]], f)
        res = core.run_tlc("Trace_InvokeBinding.tla",
                           "Trace_InvokeBinding_replay.cfg",
                           env={"PV_CASES": path}, workers=1, check=False)
        ok = res.invariant_violated == "InvAgree"
        bad += not ok
        print("replay cfg on the first corrupted case: invariant",
              res.invariant_violated, "violated" if ok else "(expected InvAgree)")
    finally:
        shutil.rmtree(tmp, ignore_errors=True)
    return 1 if bad else 0


if __name__ == "__main__":
    sys.exit(main())
