'''C20 helper - the IMPLEMENTATION side.

For one built-in and one configuration (distributed memory, annexed DoFs,
OpenMP variant) this module

 1. writes a one-built-in algorithm file from the built-in's metadata
    (or takes one of the repository's 15.*.f90 single-built-in files),
 2. lets the real PSyclone generate (and transform) the PSy layer,
 3. ITEMISES the generated Fortran text of the invoke subroutine - the product
    that would be compiled: declarations give the types; the LFRic run-time
    calls are recognised by strict patterns (`x_proxy = x%get_proxy()`,
    `x_data => x_proxy%data` - which also binds a data array to its field
    argument -, `loop0_stop = p%vspace%get_last_dof_owned()` ...) and replaced
    by the spec's layout names pv_last_dof_owned / pv_last_dof_annexed /
    pv_undf / pv_nthreads / pv_tid; OpenMP directives are parsed by strict
    patterns; the remaining lines are plain Fortran,
 4. parses that plain Fortran with PSyclone's Fortran frontend and exports it
    with pv.export (loops, assignments, intrinsics) to pv-ast.

Fail closed: any line, declaration, directive or node that is not recognised
raises Unsupported for that case.
'''
import re

from pv import core
from pv.export import Exporter, Unsupported

LAYOUT_UNDF = {1: 6, 2: 5}      # must agree with DMLayouts in LFRicBuiltins.tla
PAD = 8                         # padding of reproducible-reduction arrays

# ompl  = DynamoOMPParallelLoopTrans
# omp2  = Dynamo0p3OMPLoopTrans(reprod=False) + OMPParallelTrans
# omp2r = Dynamo0p3OMPLoopTrans(reprod=True)  + OMPParallelTrans
VARIANTS = ("plain", "ompl", "omp2", "omp2r")


# --------------------------------------------------------- algorithm sources
def builtin_table():
    '''[(capitalised name, [(kind, ty, access)])] of every built-in of
    BUILTIN_MAP, from the built-in classes' metadata.'''
    from psyclone.configuration import Config
    Config.get()
    from psyclone.domain.lfric import lfric_builtins as lb
    res = []
    for cap, cls in lb.BUILTIN_MAP_CAPITALISED.items():
        if lb.BUILTIN_MAP.get(cap.lower()) is not cls:
            raise core.MachineryError("BUILTIN_MAP / capitalised map disagree on " + cap)
        args = []
        for a in cls.metadata().meta_args:
            kind = "field" if type(a).__name__ == "FieldArgMetadata" else "scalar"
            if type(a).__name__ not in ("FieldArgMetadata", "ScalarArgMetadata"):
                raise core.MachineryError("metadata argument " + type(a).__name__)
            ty = {"gh_real": "r", "gh_integer": "i"}[a.datatype]
            args.append((kind, ty, a.access))
        res.append((cap, args))
    if len(res) != len(lb.BUILTIN_MAP):
        raise core.MachineryError("BUILTIN_MAP size")
    return res


LITERALS = {"r": [("-2.0_r_def", {"k": "un", "op": "-",
                                  "e": {"k": "lit", "t": "real", "n": 2, "d": 1}}),
                  ("0.5_r_def", {"k": "lit", "t": "real", "n": 1, "d": 2})],
            "i": [("3_i_def", {"k": "lit", "t": "int", "v": 3}),
                  ("-2_i_def", {"k": "un", "op": "-",
                                "e": {"k": "lit", "t": "int", "v": 2}})]}


def alg_source(cap, margs, style="var"):
    '''(Fortran text of an algorithm layer with one invoke of one built-in,
    actual arguments [{"kind","ty","name"|"lit"}]).  style "var": every
    scalar is a variable; "lit": read-only scalars are literals.'''
    decl, actual, names = [], [], []
    nf = ns = nl = 0
    for kind, ty, access in margs:
        if kind == "field":
            nf += 1
            nm = f"fld{nf}"
            decl.append(("type(field_type)" if ty == "r"
                         else "type(integer_field_type)") + " :: " + nm)
            actual.append({"kind": "field", "ty": ty, "name": nm})
            names.append(nm)
        else:
            if style == "lit" and access == "gh_read":
                text, ast = LITERALS[ty][nl % 2]
                nl += 1
                actual.append({"kind": "scalar", "ty": ty, "lit": ast, "text": text})
                names.append(text)
                continue
            ns += 1
            nm = ("rsc" if ty == "r" else "isc") + str(ns)
            decl.append(("real(r_def)" if ty == "r" else "integer(i_def)") + " :: " + nm)
            actual.append({"kind": "scalar", "ty": ty, "name": nm})
            names.append(nm)
    src = ["program single_invoke",
           "  use constants_mod, only: r_def, i_def",
           "  use field_mod, only: field_type",
           "  use integer_field_mod, only: integer_field_type",
           "  implicit none"]
    src += ["  " + d for d in decl]
    src += [f"  call invoke( {cap}({', '.join(names)}) )",
            "end program single_invoke", ""]
    return "\n".join(src), actual


# ------------------------------------------------------------- PSy generation
def make_psy(info, dm, ann, variant):
    '''Generate the PSy layer for (dm, annexed) with the OpenMP variant
    applied to the built-in's loop.  Returns (generated Fortran text, name of
    the invoke subroutine, the built-in's schedule node).'''
    from psyclone.psyGen import PSyFactory
    from psyclone.configuration import Config
    from psyclone.domain.lfric import LFRicLoop
    from psyclone.domain.lfric.lfric_builtins import LFRicBuiltIn
    from psyclone.transformations import (DynamoOMPParallelLoopTrans,
                                          OMPParallelTrans, Dynamo0p3OMPLoopTrans)
    Config.get().api_conf("lfric")._compute_annexed_dofs = bool(ann)
    try:
        psy = PSyFactory("dynamo0.3", distributed_memory=bool(dm)).create(info)
        invoke = psy.invokes.invoke_list[0]
        sched = invoke.schedule
        kerns = sched.walk(LFRicBuiltIn)
        loops = sched.walk(LFRicLoop)
        if len(kerns) != 1 or len(loops) != 1:
            raise Unsupported("invoke is not a single built-in loop")
        loop = loops[0]
        if variant == "ompl":
            DynamoOMPParallelLoopTrans().apply(loop)
        elif variant in ("omp2", "omp2r"):
            Dynamo0p3OMPLoopTrans().apply(loop, {"reprod": variant == "omp2r"})
            OMPParallelTrans().apply(loop.parent.parent)
        elif variant != "plain":
            raise ValueError(variant)
        text = str(psy.gen)
    finally:
        Config.get().api_conf("lfric")._compute_annexed_dofs = False
    return text, invoke.name, kerns[0]


# ------------------------------------------- coded kernel + built-in invokes
# A coded kernel (the repository's testkern_type: it increments a field on the
# continuous space W1, so its loop can be coloured) followed by the built-in,
# transformed by a short HISTORY before code generation.  Operations:
#   read   loop.independent_iterations() on the built-in's DoF loop - what a
#          script does to decide whether to parallelise it
#   val_b  DynamoOMPParallelLoopTrans.validate on the built-in loop
#   omp_b  DynamoOMPParallelLoopTrans on the built-in loop
#   col    Dynamo0p3ColourTrans on the kernel's loop (inserts a loop)
#   omp_k  DynamoOMPParallelLoopTrans on the kernel's (colour) loop
#   rc     Dynamo0p3RedundantComputationTrans on the kernel's loop (DM only)
HISTORIES = {"h0": (),
             "h1": ("read", "col"),
             "h2": ("omp_b", "col", "omp_k"),
             "h3": ("col", "omp_k", "omp_b"),
             "h4": ("val_b", "col", "read"),
             "h5": ("read", "rc", "col", "omp_b")}
KERNEL_ARGS = [("scalar", "r", "ka"), ("field", "r", "kf1"), ("field", "r", "kf2"),
               ("field", "r", "km1"), ("field", "r", "km2")]


def alg_source_multi(cap, margs):
    '''Algorithm layer: invoke(testkern_type(...), <built-in>(...)).'''
    _, actual = alg_source(cap, margs, "var")
    decl = ["real(r_def) :: ka", "type(field_type) :: kf1, kf2, km1, km2"]
    names = []
    for a in actual:
        names.append(a["name"])
        if a["kind"] == "field":
            decl.append(("type(field_type)" if a["ty"] == "r"
                         else "type(integer_field_type)") + " :: " + a["name"])
        else:
            decl.append(("real(r_def)" if a["ty"] == "r" else "integer(i_def)")
                        + " :: " + a["name"])
    src = ["program multi_invoke",
           "  use constants_mod, only: r_def, i_def",
           "  use field_mod, only: field_type",
           "  use integer_field_mod, only: integer_field_type",
           "  use testkern_mod, only: testkern_type",
           "  implicit none"]
    src += ["  " + d for d in decl]
    src += ["  call invoke( testkern_type(ka, kf1, kf2, km1, km2), &",
            f"               {cap}({', '.join(names)}) )",
            "end program multi_invoke", ""]
    return "\n".join(src), actual


def make_psy_multi(info, dm, ann, history):
    '''Generate the PSy layer of a kernel + built-in invoke after the
    transformation history.  Returns (text, invoke name) or raises Refused
    when a transformation of the history refuses.'''
    from psyclone.psyGen import PSyFactory
    from psyclone.configuration import Config
    from psyclone.domain.lfric import LFRicLoop, LFRicKern
    from psyclone.domain.lfric.lfric_builtins import LFRicBuiltIn
    from psyclone.psyir.transformations import TransformationError
    from psyclone.transformations import (DynamoOMPParallelLoopTrans,
                                          Dynamo0p3ColourTrans,
                                          Dynamo0p3RedundantComputationTrans)
    Config.get().api_conf("lfric")._compute_annexed_dofs = bool(ann)
    try:
        psy = PSyFactory("dynamo0.3", distributed_memory=bool(dm)).create(info)
        invoke = psy.invokes.invoke_list[0]
        sched = invoke.schedule
        if len(sched.walk(LFRicBuiltIn)) != 1 or len(sched.walk(LFRicKern)) != 1:
            raise Unsupported("not one coded kernel and one built-in")

        def bloop():
            return sched.walk(LFRicBuiltIn)[0].ancestor(LFRicLoop)

        def kloop():
            return sched.walk(LFRicKern)[0].ancestor(LFRicLoop)

        try:
            for op in history:
                if op == "read":
                    bloop().independent_iterations()
                elif op == "val_b":
                    DynamoOMPParallelLoopTrans().validate(bloop())
                elif op == "omp_b":
                    DynamoOMPParallelLoopTrans().apply(bloop())
                elif op == "col":
                    Dynamo0p3ColourTrans().apply(kloop())
                elif op == "omp_k":
                    DynamoOMPParallelLoopTrans().apply(kloop())
                elif op == "rc":
                    if not dm:
                        raise Refused("redundant computation needs distributed memory")
                    Dynamo0p3RedundantComputationTrans().apply(kloop(), {"depth": 2})
                else:
                    raise ValueError(op)
        except TransformationError as err:
            raise Refused(str(err.value)[:200])
        text = str(psy.gen)
    finally:
        Config.get().api_conf("lfric")._compute_annexed_dofs = False
    return text, invoke.name


def alg_source_chain(calls, actuals):
    '''Algorithm layer with one invoke of several built-ins; calls =
    [(built-in, [actual names])], actuals = all their argument records.'''
    seen, decl = {}, []
    for a in actuals:
        key = (a["kind"], a["ty"])
        if seen.setdefault(a["name"], key) != key:
            raise core.MachineryError("chain uses %s with two types" % a["name"])
    for nm, (kind, ty) in seen.items():
        if kind == "field":
            decl.append(("type(field_type)" if ty == "r" else "type(integer_field_type)")
                        + " :: " + nm)
        else:
            decl.append(("real(r_def)" if ty == "r" else "integer(i_def)") + " :: " + nm)
    src = ["program chain_invoke",
           "  use constants_mod, only: r_def, i_def",
           "  use field_mod, only: field_type",
           "  use integer_field_mod, only: integer_field_type",
           "  implicit none"]
    src += ["  " + d for d in decl]
    body = [f"{cap}({', '.join(args)})" for cap, args in calls]
    src += ["  call invoke( " + ", &\n               ".join(body) + " )",
            "end program chain_invoke", ""]
    return "\n".join(src)


def make_psy_chain(info, dm, ann, variant, nbuiltins):
    '''PSy layer of an invoke of several built-ins.  plain; ompl = an OMP
    PARALLEL DO per loop; omp2/omp2r = an OMP DO per loop (reprod off/on) and
    ONE OMP PARALLEL region around all of them.'''
    from psyclone.psyGen import PSyFactory
    from psyclone.configuration import Config
    from psyclone.domain.lfric import LFRicLoop
    from psyclone.domain.lfric.lfric_builtins import LFRicBuiltIn
    from psyclone.psyir.nodes import OMPDoDirective
    from psyclone.psyir.transformations import TransformationError
    from psyclone.transformations import (DynamoOMPParallelLoopTrans,
                                          OMPParallelTrans, Dynamo0p3OMPLoopTrans)
    Config.get().api_conf("lfric")._compute_annexed_dofs = bool(ann)
    try:
        psy = PSyFactory("dynamo0.3", distributed_memory=bool(dm)).create(info)
        invoke = psy.invokes.invoke_list[0]
        sched = invoke.schedule
        loops = sched.walk(LFRicLoop)
        if len(sched.walk(LFRicBuiltIn)) != nbuiltins or len(loops) != nbuiltins:
            raise Unsupported("invoke is not %d built-in loops" % nbuiltins)
        try:
            if variant == "ompl":
                for loop in loops:
                    DynamoOMPParallelLoopTrans().apply(loop)
            elif variant in ("omp2", "omp2r"):
                for loop in loops:
                    Dynamo0p3OMPLoopTrans().apply(loop, {"reprod": variant == "omp2r"})
                dirs = sched.walk(OMPDoDirective)
                if any(d.parent is not sched for d in dirs):
                    raise Unsupported("work-sharing directive below the schedule root")
                first, last = dirs[0].position, dirs[-1].position
                OMPParallelTrans().apply(sched.children[first:last + 1])
            elif variant != "plain":
                raise ValueError(variant)
        except TransformationError as err:
            raise Refused(str(err.value)[:200])
        text = str(psy.gen)
    finally:
        Config.get().api_conf("lfric")._compute_annexed_dofs = False
    return text, invoke.name


class Refused(Exception):
    '''A transformation of a history refused: no product to judge.'''


# ------------------------------------------------------------------ itemiser
_ID = r"[A-Za-z]\w*"
_RE_SUB = re.compile(r"^SUBROUTINE (%s)\((.*)\)$" % _ID, re.I)
_RE_USE = re.compile(r"^USE %s(, ONLY: .*)?$" % _ID, re.I)
_DECLS = [
    # (pattern, handler key)
    (re.compile(r"^(REAL|INTEGER)\(KIND=(\w+)\), intent\((in|out|inout)\) :: (.+)$", re.I), "argscalar"),
    (re.compile(r"^TYPE\(((?:r_(?:solver|tran|bl|phys)_|integer_)?field_type)\), intent\(in\) :: (.+)$", re.I), "argfield"),
    (re.compile(r"^TYPE\(((?:r_(?:solver|tran|bl|phys)_|integer_)?field_proxy_type)\) (.+)$", re.I), "proxy"),
    (re.compile(r"^TYPE\(scalar_type\) (.+)$", re.I), "gsum"),
    (re.compile(r"^TYPE\(mesh_type\), pointer :: (\w+) => null\(\)$", re.I), "mesh"),
    (re.compile(r"^(REAL|INTEGER)\(KIND=(\w+)\), pointer, dimension\(:\) :: (\w+) => null\(\)$", re.I), "data"),
    (re.compile(r"^(REAL|INTEGER)\(KIND=(\w+)\), allocatable, dimension\(:,:\) :: (\w+)$", re.I), "alloc2"),
    (re.compile(r"^(INTEGER)(?:\(KIND=(\w+)\))? (?!.*::)(.+)$", re.I), "local"),
    # dofmaps, colour maps, per-colour last cells of the coded kernels' loops
    (re.compile(r"^INTEGER\(KIND=\w+\), (?:pointer|allocatable) :: (.+)$", re.I), "opaque"),
]
_RE_OPAQUE_ENT = re.compile(r"^(%s)\((?::|:,:)\)(?: => null\(\))?$" % _ID)


def _field_of_proxytype(ptype):
    return ptype.replace("field_proxy_type", "field_type")



class Item:
    '''What the itemiser learnt about one generated invoke subroutine.'''

    def __init__(self):
        self.dummies = []
        self.scalars = {}     # name -> (ty, intent)
        self.fields = {}      # field dummy -> "r" | "i"
        self.ftype = {}       # field dummy -> derived type name
        self.kinds = set()    # kind parameters of the declarations
        self.proxies = {}     # proxy var -> proxy type
        self.proxy_of = {}    # proxy var -> field dummy
        self.data = {}        # data array -> ty
        self.data_of = {}     # data array -> field dummy
        self.locals = {}      # local integer scalar -> "i"
        self.alloc = {}       # allocatable 2-d array -> [ty, dims or None]
        self.opaque = set()   # maps etc. of coded kernels (no meaning here)
        self.skipped_loops = 0  # loops of coded kernels projected away
        self.gsum = set()
        self.mesh = set()
        self.lines = []       # plain Fortran lines for the frontend
        self.dirs = []        # directive records, referenced by pv_dir(k)
        self.nthreads_var = None
        self.bounds = []      # which LFRic enquiries set the loop bounds (evidence)


def _names(text):
    res = [n.strip() for n in text.split(",")]
    for n in res:
        if not re.fullmatch(_ID, n):
            raise Unsupported("declaration entity " + n)
    return [n.lower() for n in res]


_RE_DIR = [
    (re.compile(r"^!\$omp parallel do default\(shared\), private\(([\w,]+)\), "
                r"(?:firstprivate\((?P<fp>[\w,]+)\), )?"
                r"schedule\(static\)(?:, reduction\(\+:(\w+)\))?$"), "pdo"),
    (re.compile(r"^!\$omp end parallel do$"), "endpdo"),
    (re.compile(r"^!\$omp parallel default\(shared\), private\(([\w,]+)\)"
                r"(?:, firstprivate\((?P<fp>[\w,]+)\))?$"), "par"),
    (re.compile(r"^!\$omp end parallel$"), "endpar"),
    (re.compile(r"^!\$omp do schedule\(static\)(?:, reduction\(\+:(\w+)\))?$"), "do"),
    (re.compile(r"^!\$omp end do$"), "enddo"),
]


_RE_KLOOP = re.compile(r"^do (cell|colour) = (.+), 1$")
_RE_KDIR = re.compile(r"^!\$omp parallel do default\(shared\), private\(cell\), "
                      r"schedule\(static\)$")
_RE_BOUNDVAR = re.compile(r"\bloop\d+_(?:start|stop)\b")


def _skip_kernel_loop(ex, j, it):
    '''ex[j] starts the (possibly directive-wrapped, possibly coloured) loop
    nest of a coded kernel: returns the index after it.  Only DO cell/colour,
    END DO, CALL <kernel>_code(...) and the parallel-do directive pair are
    accepted inside.  The loopN_start/stop variables its DO statements read
    are recorded (they must be defined: `pv_sink = <bound>`).'''
    depth, k, opened_dir = 0, j, 0
    while k < len(ex):
        low = ex[k].lower()
        m = _RE_KLOOP.match(low)
        if m:
            depth += 1
            for b in _RE_BOUNDVAR.findall(m.group(2)):
                it.lines.append("pv_sink = " + b)
        elif low == "end do":
            depth -= 1
        elif _RE_KDIR.match(low):
            opened_dir += 1
        elif low == "!$omp end parallel do":
            opened_dir -= 1
        elif re.fullmatch(r"call \w+_code\(.*\)", low) and depth > 0:
            pass
        else:
            raise Unsupported("line in a coded kernel's loop nest: " + ex[k])
        k += 1
        if depth == 0 and opened_dir == 0:
            it.skipped_loops += 1
            return k
        if depth < 0 or opened_dir < 0:
            break
    raise Unsupported("unbalanced loop nest of a coded kernel")


def itemise(text, invoke_name, bfields=None):
    '''bfields: names of the field arguments of the built-in under test in
    an invoke that also calls coded kernels (their loops are projected away);
    None = every field of the invoke belongs to the built-in.'''
    lines = [l.strip() for l in text.split("\n")]
    try:
        start = next(i for i, l in enumerate(lines)
                     if _RE_SUB.match(l) and
                     _RE_SUB.match(l).group(1).lower() == invoke_name.lower())
        end = next(i for i in range(start, len(lines))
                   if re.fullmatch(r"END SUBROUTINE " + re.escape(invoke_name), lines[i], re.I))
    except StopIteration:
        raise Unsupported("subroutine %s not found" % invoke_name)
    it = Item()
    it.dummies = _names(_RE_SUB.match(lines[start]).group(2))
    body = []
    for l in lines[start + 1:end]:
        if not l or (l.startswith("!") and not l.lower().startswith("!$omp")):
            continue
        if "&" in l:
            raise Unsupported("continuation line")
        body.append(l)
    # ---- specification part
    k = 0
    while k < len(body):
        l = body[k]
        if _RE_USE.match(l):
            k += 1
            continue
        for pat, key in _DECLS:
            m = pat.match(l)
            if m:
                break
        else:
            break
        if key in ("argscalar", "data", "alloc2", "local") and m.group(2):
            it.kinds.add(m.group(2).lower())
        if key == "argscalar":
            ty = "r" if m.group(1).upper() == "REAL" else "i"
            for n in _names(m.group(4)):
                it.scalars[n] = (ty, m.group(3).lower())
        elif key == "argfield":
            for n in _names(m.group(2)):
                it.fields[n] = "i" if m.group(1).lower() == "integer_field_type" else "r"
                it.ftype[n] = m.group(1).lower()
        elif key == "proxy":
            for n in _names(m.group(2)):
                it.proxies[n] = m.group(1).lower()
        elif key == "gsum":
            it.gsum.update(_names(m.group(1)))
        elif key == "mesh":
            it.mesh.add(m.group(1).lower())
        elif key == "data":
            it.data[m.group(3).lower()] = "r" if m.group(1).upper() == "REAL" else "i"
        elif key == "alloc2":
            it.alloc[m.group(3).lower()] = ["r" if m.group(1).upper() == "REAL" else "i", None]
        elif key == "local":
            for n in _names(m.group(3)):
                it.locals[n] = "i"
        elif key == "opaque":
            for ent in re.split(r",\s*(?![^()]*\))", m.group(1)):
                em = _RE_OPAQUE_ENT.match(ent.strip())
                if not em:
                    raise Unsupported("declaration entity " + ent)
                it.opaque.add(em.group(1).lower())
        k += 1
    for n in it.dummies:
        if n not in it.scalars and n not in it.fields:
            raise Unsupported("dummy argument %s not declared" % n)
    for n in list(it.scalars) + list(it.fields):
        if n not in it.dummies:
            raise Unsupported("intent given to non-dummy " + n)
    # ---- execution part
    ex = body[k:]
    j = 0
    while j < len(ex):
        l = ex[j]
        low = l.lower()
        if _RE_KLOOP.match(low) or (_RE_KDIR.match(low) and j + 1 < len(ex)
                                    and _RE_KLOOP.match(ex[j + 1].lower())):
            j = _skip_kernel_loop(ex, j, it)
            continue
        if low.startswith("!$omp"):
            for pat, key in _RE_DIR:
                m = pat.match(low)
                if m:
                    rec = {"d": key}
                    if key in ("pdo", "par"):
                        rec["private"] = m.group(1).split(",")
                        rec["firstprivate"] = m.group("fp").split(",") if m.group("fp") else []
                    if key == "pdo":
                        rec["red"] = [m.group(3)] if m.group(3) else []
                    if key == "do":
                        rec["red"] = [m.group(1)] if m.group(1) else []
                    it.dirs.append(rec)
                    it.lines.append("call pv_dir(%d)" % (len(it.dirs) - 1))
                    break
            else:
                raise Unsupported("directive: " + l)
            j += 1
            continue
        m = re.fullmatch(r"(\w+) = (\w+)%get_proxy\(\)", low)
        if m:
            p, f = m.group(1), m.group(2)
            if p not in it.proxies or f not in it.fields or \
                    _field_of_proxytype(it.proxies[p]) != it.ftype[f]:
                raise Unsupported("proxy assignment: " + l)
            it.proxy_of[p] = f
            j += 1
            continue
        m = re.fullmatch(r"(\w+) => (\w+)%data", low)
        if m:
            d, p = m.group(1), m.group(2)
            if d not in it.data or p not in it.proxy_of or d in it.data_of:
                raise Unsupported("data pointer assignment: " + l)
            if it.data[d] != it.fields[it.proxy_of[p]]:
                raise Unsupported("data pointer type differs from field type: " + l)
            it.data_of[d] = it.proxy_of[p]
            j += 1
            continue
        m = re.fullmatch(r"(\w+) => (\w+)%vspace%get_mesh\(\)", low)
        if m and m.group(1) in it.mesh and m.group(2) in it.proxy_of:
            j += 1
            continue
        m = re.fullmatch(r"(\w+) = (\w+)%get_halo_depth\(\)", low)
        if m and m.group(1) in it.locals and m.group(2) in it.mesh:
            j += 1       # stays undefined in the model: reading it is an error
            continue
        m = re.fullmatch(r"(\w+) = (\w+)%vspace%get_(undf|ndf|last_dof_owned|last_dof_annexed)\(\)", low)
        if m:
            v, p, what = m.groups()
            if v not in it.locals or p not in it.proxy_of:
                raise Unsupported("space enquiry: " + l)
            if what == "ndf":
                j += 1   # DoFs per cell: no meaning in the DoF-loop model; stays undefined
                continue
            if bfields is not None and it.proxy_of[p] not in bfields:
                # a function space of a coded kernel: defined, but not the
                # built-in's space
                it.lines.append("%s = pv_other" % v)
                j += 1
                continue
            it.bounds.append(what)
            it.lines.append("%s = pv_%s" % (v, what))
            j += 1
            continue
        # ---- run-time enquiries of the coded kernels' cell loops
        m = re.fullmatch(r"(\w+) = (\w+)%vspace%get_(nlayers|ncell)\(\)", low)
        if m and m.group(1) in it.locals and m.group(2) in it.proxy_of:
            it.lines.append("%s = pv_other" % m.group(1))
            j += 1
            continue
        m = re.fullmatch(r"(\w+) = (\w+)%get_(ncolours\(\)|last_edge_cell\(\)|"
                         r"last_halo_cell\(\d+\))", low)
        if m and m.group(1) in it.locals and m.group(2) in it.mesh:
            it.lines.append("%s = pv_other" % m.group(1))
            j += 1
            continue
        m = re.fullmatch(r"(\w+) => (\w+)%get_colour_map\(\)", low)
        if m and m.group(1) in it.opaque and m.group(2) in it.mesh:
            j += 1
            continue
        m = re.fullmatch(r"(\w+) = (\w+)%get_last_(?:halo|edge)_cell_all_colours\(\)", low)
        if m and m.group(1) in it.opaque and m.group(2) in it.mesh:
            j += 1
            continue
        m = re.fullmatch(r"(\w+) => (\w+)%vspace%get_whole_dofmap\(\)", low)
        if m and m.group(1) in it.opaque and m.group(2) in it.proxy_of:
            j += 1
            continue
        m = re.fullmatch(r"call (\w+)%set_(dirty\(\)|clean\(\d+\))", low)
        if m and m.group(1) in it.proxy_of:
            j += 1
            continue
        m = re.fullmatch(r"if \((\w+)%is_dirty\(depth=(\d+)\)\) then", low)
        if m and m.group(1) in it.proxy_of and j + 2 < len(ex) and \
                ex[j + 1].lower() == "call %s%%halo_exchange(depth=%s)" % (m.group(1), m.group(2)) \
                and ex[j + 2].lower() == "end if":
            j += 3       # halo exchanges are C22's subject: owned/annexed DoFs are not changed
            continue
        m = re.fullmatch(r"call (\w+)%halo_exchange\(depth=\d+\)", low)
        if m and m.group(1) in it.proxy_of:
            j += 1
            continue
        m = re.fullmatch(r"(\w+) = omp_get_max_threads\(\)", low)
        if m and m.group(1) in it.locals:
            it.nthreads_var = m.group(1)
            it.lines.append("%s = pv_nthreads" % m.group(1))
            j += 1
            continue
        m = re.fullmatch(r"(\w+) = omp_get_thread_num\(\)\+1", low)
        if m and m.group(1) in it.locals:
            it.lines.append("%s = pv_tid+1" % m.group(1))
            j += 1
            continue
        m = re.fullmatch(r"allocate \((\w+)\((\d+),(\w+)\)\)", low)
        if m:
            a, pad, nt = m.group(1), int(m.group(2)), m.group(3)
            if a not in it.alloc or it.alloc[a][1] is not None or \
                    nt != it.nthreads_var or pad != PAD:
                raise Unsupported("allocate: " + l)
            it.alloc[a][1] = [pad, "T"]
            j += 1
            continue
        m = re.fullmatch(r"deallocate \((\w+)\)", low)
        if m and m.group(1) in it.alloc and it.alloc[m.group(1)][1]:
            j += 1
            continue
        m = re.fullmatch(r"(\w+)%value = (\w+)", low)
        if m and m.group(1) in it.gsum and m.group(2) in it.scalars and \
                j + 1 < len(ex) and ex[j + 1].lower() == \
                "%s = %s%%get_sum()" % (m.group(2), m.group(1)):
            # global sum over the processes of the sum over the owned DoFs of
            # each: for the one process of the model the identity
            j += 2
            continue
        if "%" in l or "=>" in l:
            raise Unsupported("unrecognised line: " + l)
        it.lines.append(l)
        j += 1
    for d in it.data:
        if d not in it.data_of:
            raise Unsupported("data array %s is never associated" % d)
    for a, (_, dims) in it.alloc.items():
        if dims is None:
            raise Unsupported("array %s is never allocated" % a)
    return it


# ---------------------------------------------------------- export to pv-ast
# pv_other: a defined value that is none of the built-in's DoF counts (cell
# counts, sizes of other function spaces); pv_sink: only ever assigned
CONSTS = ("pv_last_dof_owned", "pv_last_dof_annexed", "pv_undf", "pv_nthreads", "pv_tid",
          "pv_other", "pv_sink")


def synthetic_source(it, undf, nthreads):
    kind = {"r": "real(kind=r_def)", "i": "integer(kind=i_def)"}
    # exact arithmetic: every real kind is the rationals, every integer kind
    # the (small) integers; the kind names only have to resolve
    kinds = sorted(it.kinds | {"r_def", "i_def"})
    if any(not re.fullmatch(r"[ri]_(def|solver|tran|bl|phys|single|double|um)", k) for k in kinds):
        raise Unsupported("kind parameter in %s" % kinds)
    src = ["subroutine pv_case()", "  use constants_mod, only: " + ", ".join(kinds)]
    for n, (ty, _) in it.scalars.items():
        src.append(f"  {kind[ty]} :: {n}")
    for n, ty in it.data.items():
        src.append(f"  {kind[ty]}, dimension({undf}) :: {n}")
    for n, ty in it.locals.items():
        src.append(f"  {kind[ty]} :: {n}")
    for n, (ty, dims) in it.alloc.items():
        src.append(f"  {kind[ty]}, dimension({dims[0]},{nthreads}) :: {n}")
    for n in CONSTS:
        src.append(f"  integer(kind=i_def) :: {n}")
    src += ["  " + l for l in it.lines]
    src.append("end subroutine pv_case")
    return "\n".join(src) + "\n"


def _call_hook(exp, node):
    from psyclone.psyir.nodes import Literal
    name = node.routine.name.lower()
    if name == "pv_dir" and len(node.arguments) == 1 and \
            isinstance(node.arguments[0], Literal):
        return {"k": "pv_dir", "n": int(node.arguments[0].value)}
    return exp.call(node)


def _structure(stmts, dirs):
    '''Turn the flat statement list with pv_dir markers into ompparalleldo /
    ompparallel / ompdo records (strict nesting).'''
    def directive(s):
        return dirs[s["n"]] if s["k"] == "pv_dir" else None

    def take_loop(seq, pos, endkey):
        if pos + 2 >= len(seq):
            raise Unsupported("directive without loop")
        loop, endm = seq[pos + 1], seq[pos + 2]
        if loop["k"] != "loop" or directive(endm) is None or directive(endm)["d"] != endkey:
            raise Unsupported("directive is not followed by one loop and its end")
        return loop

    out, i = [], 0
    while i < len(stmts):
        d = directive(stmts[i])
        if d is None:
            out.append(stmts[i])
            i += 1
        elif d["d"] == "pdo":
            loop = take_loop(stmts, i, "endpdo")
            out.append({"k": "ompparalleldo", "private": d["private"],
                        "firstprivate": d["firstprivate"], "red": d["red"], "loop": loop})
            i += 3
        elif d["d"] == "par":
            try:
                e = next(j for j in range(i + 1, len(stmts))
                         if directive(stmts[j]) and directive(stmts[j])["d"] == "endpar")
            except StopIteration:
                raise Unsupported("parallel region without end")
            inner, body, j = stmts[i + 1:e], [], 0
            while j < len(inner):
                dj = directive(inner[j])
                if dj is None:
                    if inner[j]["k"] != "assign":
                        raise Unsupported("statement %s in a parallel region" % inner[j]["k"])
                    body.append(inner[j])
                    j += 1
                elif dj["d"] == "do":
                    loop = take_loop(inner, j, "enddo")
                    body.append({"k": "ompdo", "red": dj["red"], "loop": loop})
                    j += 3
                else:
                    raise Unsupported("directive %s in a parallel region" % dj["d"])
            out.append({"k": "ompparallel", "private": d["private"],
                        "firstprivate": d["firstprivate"], "body": body})
            i = e + 1
        else:
            raise Unsupported("unbalanced directive " + d["d"])
    return out


def export(it, undf, nthreads):
    '''(decls, prog) for LFRicBuiltins.tla.'''
    from psyclone.psyir.frontend.fortran import FortranReader
    from psyclone.psyir.nodes import Routine
    src = synthetic_source(it, undf, nthreads)
    try:
        psyir = FortranReader().psyir_from_source(src)
    except Exception as err:    # noqa  - not Fortran the frontend accepts
        raise Unsupported("frontend: %s: %s" % (type(err).__name__, str(err)[:200]))
    routine = psyir.walk(Routine)[0]
    exp = Exporter(hooks={"Call": _call_hook})
    # the only imported symbols of the synthetic routine are kind parameters,
    # which occur as `kind=` arguments of INT/REAL (dropped by the exporter:
    # exact arithmetic); the exporter refuses imports it has no type for
    exp.import_types = {k: "i" for k in it.kinds | {"r_def", "i_def"}}
    stmts = exp.body(routine)
    if exp.subs:
        raise Unsupported("call to a subroutine")
    if "::" in repr(stmts):
        raise Unsupported("kind parameter used as a value")
    prog = _structure(stmts, it.dirs)
    decls = []
    for n, ty in it.data.items():
        decls.append({"name": n, "ty": ty, "dims": [[1, undf]], "init": "in"})
    for n, (ty, intent) in it.scalars.items():
        decls.append({"name": n, "ty": ty, "dims": [],
                      "init": "in" if intent in ("in", "inout") else "poison"})
    for n, ty in it.locals.items():
        decls.append({"name": n, "ty": ty, "dims": [], "init": "poison"})
    for n, (ty, dims) in it.alloc.items():
        decls.append({"name": n, "ty": ty, "dims": [[1, dims[0]], [1, nthreads]],
                      "init": "poison"})
    for n in CONSTS:
        decls.append({"name": n, "ty": "i", "dims": [], "init": "poison"})
    names = [d["name"] for d in decls]
    if len(set(names)) != len(names):
        raise Unsupported("name declared twice")
    return decls, prog, src


# ------------------------------------------------------------------- binding
def bind_doc(docargs, actual, it):
    '''Definition placeholder (i-th name of the guide's heading) -> what the
    i-th actual argument of the algorithm call is in the generated code:
    the data array associated (in the generated text) with that field
    argument, the scalar dummy argument, or the literal.'''
    if len(docargs) != len(actual):
        raise Unsupported("the guide lists %d arguments, the metadata %d"
                          % (len(docargs), len(actual)))
    bind = {}
    for (dname, _), act in zip(docargs, actual):
        if dname in bind:
            raise Unsupported("placeholder used twice: " + dname)
        if act["kind"] == "field":
            arrs = [d for d, f in it.data_of.items() if f == act["name"]]
            if len(arrs) != 1:
                raise Unsupported("no unique data array for field " + act["name"])
            bind[dname] = {"k": "ref", "name": arrs[0]}
        elif "lit" in act:
            bind[dname] = act["lit"]
        else:
            if act["name"] not in it.scalars:
                raise Unsupported("scalar %s is not a dummy argument" % act["name"])
            bind[dname] = {"k": "ref", "name": act["name"]}
    return bind
