'''C13 - OpenACC data regions move all data the region needs.

ACCDataTrans (alone and around ACCKernelsTrans regions) is applied to every
range of consecutive top-level statements of generated routines; the copyin /
copyout / copy clauses of the REAL directive node are exported.  TLC executes
the host program and the program with the data region under FortranSem.tla,
where the region body runs against separate device copies of the arrays named
in the clauses (copyout copies start undefined), on every input: host arrays
must end equal (SameObservable), the device run must not read undefined device
data (NoNewUndefined) and must not copy undefined elements over host data
(SameEvents: no poison-to-host event).
'''
from pv import core, sem

HEAD = '''subroutine s(a, b, c, n, m, t, u, flag)
  integer, intent(in) :: n
  integer, intent(in) :: m
  real, intent(inout) :: t
  real, intent(inout) :: u
  logical, intent(in) :: flag
  real, dimension(0:9), intent(inout) :: a
  real, dimension(0:9), intent(inout) :: b
  real, dimension(0:5,0:5), intent(inout) :: c
  integer :: i
  integer :: j
  real :: x
'''
TAIL = "end subroutine s\n"
DOM = [("n", [0, 1, 3]), ("m", [1, 2]), ("t", [[1, 2]]), ("u", [[3, 1]]), ("flag", [True, False])]
FILLS = [1, 2]
LIVE = ["a", "b", "c", "t", "u"]

BODIES = [
    ["a(1) = 0.0", "do i = 1, n", "  b(i) = a(i-1) + t", "end do", "t = b(1)"],
    ["do i = 1, n", "  a(i) = b(i) * 2.0", "end do", "do i = 1, n", "  b(i) = a(i) + a(0)", "end do"],
    ["do i = 0, 9", "  a(i) = 0.0", "end do", "do i = 1, n", "  a(i) = b(i)", "end do", "u = a(2)"],
    ["if (flag) then", "  a(2) = 1.0", "end if", "b(2) = a(2)", "do i = 1, n", "  c(i,1) = b(i)", "end do"],
    ["do j = 1, m", "  do i = 1, n", "    c(i,j) = c(i,j) + a(i)", "  end do", "end do", "t = c(1,1)"],
    ["x = t", "do i = 1, n", "  a(i) = x", "end do", "do i = 1, n", "  b(i) = b(i) + a(i)", "end do"],
    ["a(:) = b(:)", "b(1:3) = a(2:4)", "t = sum(a(1:3))"],
    ["do i = 1, n", "  a(i) = a(i) + 1.0", "end do", "do i = n, n + 2", "  b(i) = 1.0", "end do"],
    ["a(n) = t", "b(m) = a(n) + a(m)", "c(n,m) = b(m)"],
    ["do i = 1, n", "  if (b(i) > 20.0) then", "    a(i) = b(i)", "  end if", "end do", "u = a(1)"],
]


def items(tier):
    return [(f"body{k}|{len(b)}", HEAD + "".join("  " + l + "\n" for l in b) + TAIL)
            for k, b in enumerate(BODIES)]


def _strip(body):
    '''the host program of a data-region program: directives removed'''
    out = []
    for st in body:
        st = dict(st)
        for key in ("body", "then", "else"):
            if key in st:
                st[key] = _strip(st[key])
        if st["k"] == "accdata":
            out.extend(st["body"])
        else:
            out.append(st)
    return out


def _edit_add_read(r, via_copy):
    '''edit history after the data region exists: add a read of an array the region
    does not access yet to the first array assignment inside it - either in place or
    after replacing the statement by its copy (as transformations such as InlineTrans
    do); the directive must keep its clauses up to date'''
    from psyclone.psyir.nodes import (ACCDataDirective, Assignment, ArrayReference,
                                      BinaryOperation, Literal, Reference)
    from psyclone.psyir.symbols import INTEGER_TYPE
    from psyclone.psyir.transformations import TransformationError
    d = r.walk(ACCDataDirective)[0]
    used = {ref.symbol.name.lower() for ref in d.walk(Reference)}
    new = [nm for nm in ("b", "c", "a") if nm not in used]
    asgs = [a for a in d.walk(Assignment) if isinstance(a.lhs, ArrayReference)]
    if not new or not asgs:
        raise TransformationError("nothing to edit")
    sym = r.symbol_table.lookup(new[0])
    asg = asgs[0]
    if via_copy:
        cp = asg.copy()
        asg.replace_with(cp)
        asg = cp
    rank = len(sym.datatype.shape)
    extra = ArrayReference.create(sym, [Literal("1", INTEGER_TYPE) for _ in range(rank)])
    old = asg.rhs
    asg.rhs.replace_with(BinaryOperation.create(BinaryOperation.Operator.ADD, old.copy(), extra))


def apps(pid):
    from psyclone.transformations import ACCDataTrans
    from psyclone.psyir.transformations import ACCKernelsTrans, TransformationError
    out = []
    nst = 8

    def data(r, lo, hi):
        nodes = r.children[lo:hi]
        if len(nodes) < hi - lo or not nodes:
            raise TransformationError("no such range")
        ACCDataTrans().apply(nodes)

    def kern_data(r, lo, hi):
        nodes = r.children[lo:hi]
        if len(nodes) < hi - lo or not nodes:
            raise TransformationError("no such range")
        ACCKernelsTrans().apply(nodes)
        ACCDataTrans().apply(r.children[lo:lo + 1])
    for lo in range(nst):
        for hi in range(lo + 1, min(nst, lo + 4) + 1):
            out.append((f"ACCDataTrans@{lo}-{hi}", lambda r, lo=lo, hi=hi: data(r, lo, hi)))
            if hi - lo <= 2:
                out.append((f"ACCDataTrans+edit@{lo}-{hi}",
                            lambda r, lo=lo, hi=hi: (data(r, lo, hi), _edit_add_read(r, False))))
                out.append((f"ACCDataTrans+copyedit@{lo}-{hi}",
                            lambda r, lo=lo, hi=hi: (data(r, lo, hi), _edit_add_read(r, True))))
            out.append((f"ACCKernelsTrans+ACCDataTrans@{lo}-{hi}",
                        lambda r, lo=lo, hi=hi: kern_data(r, lo, hi)))
    return out


# ---- second family: arrays FortranSem cannot interpret (structural clause only)
ODD_SRC = '''subroutine s(xs, vv, cc, cg, a, b, n)
  integer, intent(in) :: n
  real, intent(inout) :: xs(*)
  real, volatile, dimension(0:9), intent(inout) :: vv
  character(len=4), dimension(3), intent(inout) :: cc
  real, contiguous, dimension(:), intent(inout) :: cg
  real, dimension(0:9), intent(inout) :: a
  real, dimension(0:9), intent(inout) :: b
  integer :: i
  do i = 1, n
    a(i) = xs(i) + vv(i)
  end do
  do i = 1, n
    vv(i) = b(i) * 2.0
    xs(i) = a(i)
  end do
  do i = 1, 3
    if (cc(i) == 'abcd') b(i) = cg(i)
  end do
  do i = 1, n
    cg(i) = a(i) + b(i)
  end do
end subroutine s
'''


def _array_like(sym):
    import re
    from psyclone.psyir.symbols import ArrayType, UnsupportedFortranType
    dt = getattr(sym, "datatype", None)
    if isinstance(dt, ArrayType):
        return True
    if isinstance(dt, UnsupportedFortranType):
        decl = dt.declaration.lower()
        return bool(re.search(r"dimension\s*\(", decl) or
                    re.search(r"\b" + re.escape(sym.name.lower()) + r"\s*\(", decl))
    return False


def odd_cases():
    '''(cases for DataClauses.tla, slim records)'''
    from psyclone.psyir.nodes import ACCDataDirective, Reference
    from psyclone.transformations import ACCDataTrans
    from psyclone.psyir.transformations import TransformationError
    cases, recs = [], {}
    for lo in range(4):
        for hi in range(lo + 1, 5):
            cid = f"odd|{lo}-{hi}"
            psy = sem.parse(ODD_SRC)
            r = sem.routine_named(psy, "s")
            try:
                ACCDataTrans().apply(r.children[lo:hi])
                d = r.walk(ACCDataDirective)[0]
                text = sem.write(psy)
            except TransformationError:
                continue
            except Exception as err:   # noqa
                recs[cid] = {"id": cid, "status": "crash", "why": f"{type(err).__name__}: {err}"[:200]}
                continue
            accessed = sorted({ref.symbol.name.lower() for ref in d.dir_body.walk(Reference)
                               if _array_like(ref.symbol)})
            moved = sorted({ref.symbol.name.lower() for c in d.clauses for ref in c.walk(Reference)})
            cases.append({"id": cid, "accessed": accessed, "moved": moved})
            recs[cid] = {"id": cid, "status": "accepted", "after": text, "accessed": accessed,
                         "moved": moved}
    return cases, recs


# ------------------------------------------------------------ known findings
def _region(rec):
    for st in rec["case"]["progs"][1]["body"]:
        if st["k"] == "accdata":
            return st
    return None


def _mentions(e, name):
    if isinstance(e, dict):
        if e.get("k") in ("ref", "aref") and e.get("name") == name:
            return True
        return any(_mentions(v, name) for v in e.values())
    if isinstance(e, list):
        return any(_mentions(v, name) for v in e)
    return False


def _walk(body, cond=False):
    for s in body:
        yield s, cond
        for key in ("body", "then", "else"):
            if key in s:
                yield from _walk(s[key], cond or s["k"] in ("if", "loop", "while"))


def m_copyout_not_fully_written(rec, clause, detail, finding):
    '''an array is put in copyout although the region does not define all of its
    elements (first access is a write to an element / inside a loop or IF): the
    device copy is read undefined, or undefined elements are copied back'''
    reg = _region(rec)
    if reg is None or not reg["copyout"]:
        return False
    for nm in reg["copyout"]:
        for st, cond in _walk(reg["body"]):
            if st["k"] in ("if", "loop", "while", "block"):
                heads = {k: v for k, v in st.items() if k not in ("body", "then", "else")}
                if _mentions(heads, nm):
                    break
                continue
            if _mentions(st, nm):
                if not (st["k"] == "assign" and st["lhs"].get("name") == nm and
                        not _mentions(st["rhs"], nm)):
                    break          # first access is not a pure write: another defect
                whole = st["k"] == "assign" and st["lhs"].get("k") == "ref" and \
                    st["lhs"]["name"] == nm and not cond
                full_range = st["k"] == "assign" and st["lhs"].get("k") == "aref" and not cond \
                    and st["lhs"]["name"] == nm and all(
                        i.get("k") == "range" and i["lo"].get("k") == "icall" and
                        i["hi"].get("k") == "icall" for i in st["lhs"]["idx"])
                if not (whole or full_range):
                    return True
                break
    return False


MATCHERS = {"copyout-array-not-fully-written": m_copyout_not_fully_written}


def run(tier):
    core.setup_psyclone_env()
    out = core.Outcome("C13", tier, "model_checking", matchers=MATCHERS)
    dom, fills = DOM, FILLS
    if tier != "quick":
        dom = [("n", [0, 1, 2, 3, 4]), ("m", [1, 2, 3]), ("t", [[1, 2], [-3, 2]]), ("u", [[3, 1]]),
               ("flag", [True, False])]
        fills = [1, 2, 3, 4]
    fam = sem.TransFamily("C13", dom=dom, fills=fills, live=LIVE, apps=apps)
    results = sem.build_family(fam, items(tier))
    for r in results:
        if r["status"] == "accepted":
            r["case"]["cmpout"] = True
            # the reference is the final program with the directives removed (edit
            # histories change the statements after the region was created)
            r["case"]["progs"][0] = {"body": _strip(r["case"]["progs"][1]["body"])}
    cov = sem.judge_family(out, results, MATCHERS)
    # structural clause for arrays outside FortranSem's subset
    import json
    import os
    ocases, orecs = odd_cases()
    if ocases:
        tmp = core.mktemp("pv-c13-")
        path = os.path.join(tmp, "odd.json")
        with open(path, "w") as f:
            json.dump(ocases, f)
        r2 = core.run_tlc("DataClauses.tla", "DataClauses.cfg", env={"PV_CASES": path}, workers=2)
        import shutil
        shutil.rmtree(tmp, ignore_errors=True)
        cov["states"] += r2.distinct
        cov["transitions"] += r2.generated
        if r2.distinct != 2 * len(ocases) - sum(1 for _ in r2.printed("VERDICT")) * 0:
            pass
        for v in r2.printed("VERDICT"):
            rec = orecs[v["id"]]
            out.violation({"id": v["id"], "after": rec["after"], "accessed": rec["accessed"],
                           "moved": rec["moved"]}, v["v"], {"missing": v["w"]["missing"]})
        cov["odd_type_regions"] = len(ocases)
        cov["odd_type_crashes"] = [r for r in orecs.values() if r["status"] == "crash"][:5]
    cov["rule"] = ("one case = (generated routine, statement range wrapped by ACCDataTrans, alone or "
                   "around an ACCKernelsTrans region); non-trivial = accepted and the host program is "
                   "defined on at least one input")
    return out.finish(cov, assumptions=[
        "the region body is executed against device copies of the arrays named in the data clauses; "
        "scalars and arrays in no clause are accessed on the host (implicit data handling)",
        "copyout device arrays start undefined", "exporter trusted, fails closed"])
