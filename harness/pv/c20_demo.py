'''C20 binding demonstration (trace corruption): recorded cases of the
unchanged tree are accepted by LFRicBuiltins.tla; each of them with one
recorded field changed is rejected with the expected clause.

    /venv/bin/python -m pv.c20_demo          (from /verif/harness)

Source mutants are demonstrated with a scratch copy of the repository:
    PV_REPO=/tmp/x bin/verif check C20       (diffs in mutants/C20/)
'''
import copy
import sys

from pv import core


def _rename(node, mapping):
    '''Swap names in a recorded pv-ast (every "name"/"var" field).'''
    if isinstance(node, dict):
        return {k: (mapping.get(v, v) if k in ("name", "var") and isinstance(v, str)
                    else _rename(v, mapping)) for k, v in node.items()}
    if isinstance(node, list):
        return [_rename(x, mapping) for x in node]
    return node


def _cases():
    core.setup_psyclone_env()
    from pv import c20
    from pv import c20_gen as G
    table = dict(G.builtin_table())
    want = {"X_minus_Y": (1, 1, "plain"), "inc_aX_plus_Y": (1, 0, "ompl"),
            "X_innerproduct_Y": (1, 1, "omp2r")}
    out = {}
    for cap, (dm, ann, variant) in want.items():
        res = c20._build(("gen", cap, table[cap], "quick"))
        for b in res["cases"]:
            m = b["meta"]
            if (m["dm"], m["ann"], m["variant"], m["style"], m["lay"]) == \
                    (dm, ann, variant, "var", 1):
                out.setdefault(cap, b["case"])
    return out


def main():
    from pv import c20
    base = _cases()
    tests = []
    for cap, case in base.items():
        tests.append((cap + " as recorded", case, None))
    # 1. swap two fields in the recorded code of X_minus_Y
    c = copy.deepcopy(base["X_minus_Y"])
    c["prog"] = _rename(c["prog"], {"fld2_data": "fld3_data", "fld3_data": "fld2_data"})
    c["id"] += "#swap-fields"
    tests.append(("X_minus_Y: fld2_data <-> fld3_data swapped in the recorded loop", c,
                  "DocumentedValueInRange"))
    # 2. recorded loop bound: last annexed DoF -> undf
    c = copy.deepcopy(base["X_minus_Y"])
    c["prog"] = _rename(c["prog"], {"pv_last_dof_annexed": "pv_undf"})
    c["id"] += "#bound-undf"
    tests.append(("X_minus_Y: recorded upper bound get_last_dof_annexed -> undf", c,
                  "UntouchedOutsideRange"))
    # 3. swap the operands the scalar multiplies in inc_aX_plus_Y
    c = copy.deepcopy(base["inc_aX_plus_Y"])
    b = c["docs"][0]["bind"]
    b["field1"], b["field2"] = b["field2"], b["field1"]
    c["id"] += "#swap-binding"
    tests.append(("inc_aX_plus_Y: recorded binding of field1/field2 swapped", c,
                  "DocumentedValueInRange"))
    # 4. drop the zeroing of the reproducible-sum array of X_innerproduct_Y
    c = copy.deepcopy(base["X_innerproduct_Y"])
    c["prog"] = [s for s in c["prog"]
                 if not (s["k"] == "assign" and s["lhs"]["name"].startswith("l_"))]
    c["id"] += "#no-zeroing"
    tests.append(("X_innerproduct_Y (reprod): zeroing of the per-thread array dropped", c,
                  "NoNewUndefined"))
    # 5. the reduction loop runs over the annexed DoFs too
    c = copy.deepcopy(base["X_innerproduct_Y"])
    c["prog"] = _rename(c["prog"], {"pv_last_dof_owned": "pv_last_dof_annexed"})
    c["id"] += "#annexed-sum"
    tests.append(("X_innerproduct_Y: recorded bound get_last_dof_owned -> annexed", c,
                  "ReductionOverOwned"))
    _, _, fails, _ = c20.run_tlc([t[1] for t in tests], workers=c20._W or 4)
    bad = 0
    for label, case, expect in tests:
        got = sorted({r["v"] for r in fails.get(case["id"], [])})
        ok = (got == []) if expect is None else (expect in got)
        bad += not ok
        print("%-75s expected=%-24s got=%s %s" % (label, expect or "accepted",
                                                   got or "accepted", "OK" if ok else "WRONG"))
        if expect and got:
            print("     " + c20.verdict_line(fails[case["id"]][0]))
    return 1 if bad else 0


if __name__ == "__main__":
    sys.exit(main())
