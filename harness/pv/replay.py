'''verif replay <file>: show a stored counterexample and re-run it where the
property's module knows how (a function replay_file(path) or replay(path)).'''
import importlib
import json


def run(path):
    with open(path) as f:
        data = json.load(f)
    prop = data.get("property", "")
    print(f"replay of {path}: property={prop} tier={data.get('tier')} seed={data.get('seed')}")
    print("clause:", data.get("clause"))
    case = data.get("case")
    if isinstance(case, dict):
        for key in ("id", "source", "after", "region", "statement", "src"):
            if key in case:
                print(f"--- {key}:\n{case[key]}")
    print("--- detail:")
    print(json.dumps(data.get("detail"), indent=1, default=str)[:4000])
    try:
        mod = importlib.import_module("pv." + prop.lower())
    except ImportError:
        return 0
    for fn in ("replay_file", "replay"):
        if hasattr(mod, fn):
            from pv import core
            core.setup_psyclone_env()
            return getattr(mod, fn)(path) or 0
    print(f"(re-run the whole check with: bin/verif check {prop} --tier {data.get('tier', 'quick')})")
    return 0
