'''C03 helper - turns Fortran text (as written by PSyclone's FortranWriter, or a
generated source in the same one-statement-per-line style) into the abstract
program skeleton of spec/RoundTrip.tla: an ordered list of items
(scope, kind, key) with kind in {use, decl, access, access-name, stmt,
comment, directive, codeblock, routine, type, interface}.  Line based on
purpose: the writer emits one statement per line and no continuation lines.'''
import re


class Unsupported(Exception):
    pass


_RE_UNIT = re.compile(
    r"^(?:(?:pure|elemental|impure|recursive|module)\s+)*"
    r"(?:(?:integer|real|logical|double\s*precision|complex|character|type)"
    r"\s*(?:\([^)]*\))?\s+)?"
    r"(module|program|subroutine|function)\s+(\w+)", re.I)
_RE_END = re.compile(r"^end\s*(module|program|subroutine|function|type|interface|"
                     r"submodule|block\s*data)?\b\s*(\w+)?\s*$", re.I)
_RE_TYPE = re.compile(r"^type\s*(?:,[^:]*)?(?:::)?\s*(\w+)\s*$", re.I)
_RE_TYPE2 = re.compile(r"^type\s*(?:,[^:]*)?::\s*(\w+)\s*$", re.I)
_RE_INTERFACE = re.compile(r"^(?:abstract\s+)?interface\b\s*(.*)$", re.I)
_RE_USE = re.compile(r"^use\b\s*(?:,\s*\w+\s*)?(?:::)?\s*(\w+)\s*(.*)$", re.I)
_RE_ACCESS = re.compile(r"^(public|private)\b\s*(?:::)?\s*(.*)$", re.I)
_RE_DECL = re.compile(
    r"^(integer|real|logical|double\s*precision|complex|character|type\s*\(|"
    r"class\s*\(|procedure\s*\()", re.I)
_SPEC_WORDS = ("implicit", "contains", "save", "external", "intrinsic", "dimension",
               "parameter", "data", "common", "equivalence", "namelist", "sequence",
               "import", "enum", "enumerator", "generic", "final", "module procedure",
               "procedure")


def norm(text):
    '''statement key: lower case, white space removed outside strings'''
    out = []
    quote = None
    for ch in text:
        if quote:
            out.append(ch)
            if ch == quote:
                quote = None
        elif ch in "'\"":
            quote = ch
            out.append(ch)
        elif ch.isspace():
            continue
        else:
            out.append(ch.lower())
    return "".join(out)


def strip_inline_comment(line):
    '''(code, inline comment or None)'''
    quote = None
    for i, ch in enumerate(line):
        if quote:
            if ch == quote:
                quote = None
        elif ch in "'\"":
            quote = ch
        elif ch == "!":
            return line[:i].rstrip(), line[i:]
    return line.rstrip(), None


def split_top(text, sep=","):
    '''split at separators that are outside parentheses / strings'''
    parts, depth, cur, quote = [], 0, [], None
    for ch in text:
        if quote:
            cur.append(ch)
            if ch == quote:
                quote = None
            continue
        if ch in "'\"":
            quote = ch
        elif ch in "([":
            depth += 1
        elif ch in ")]":
            depth -= 1
        if ch == sep and depth == 0:
            parts.append("".join(cur))
            cur = []
        else:
            cur.append(ch)
    parts.append("".join(cur))
    return [p.strip() for p in parts]


def entity_names(decl):
    '''names declared by a type declaration statement "spec :: a, b(3) = 1"'''
    if "::" in decl:
        rhs = decl.split("::", 1)[1]
    else:
        # "integer i" style: everything after the type spec
        m = re.match(r"^\w+(\s*\([^)]*\))?\s+(.*)$", decl)
        if not m:
            raise Unsupported("declaration without '::': " + decl[:60])
        rhs = m.group(2)
    names = []
    for ent in split_top(rhs):
        m = re.match(r"^(\w+)", ent)
        if not m:
            raise Unsupported("entity: " + ent[:40])
        names.append(m.group(1).lower())
    return names


def itemise(text):
    '''Fortran text -> list of (scope, kind, key, shown text).'''
    items = []
    scope = []          # stack of (kind, name)
    in_exec = []        # per routine scope: seen first executable statement?
    for raw in text.split("\n"):
        line = raw.strip()
        if not line:
            continue
        sid = "/".join(n for _, n in scope)
        if line.startswith("!$") or line.lower().startswith("!dir$"):
            items.append((sid, "directive", norm(line), line))
            continue
        if line.startswith("!"):
            items.append((sid, "comment", line, line))
            continue
        if line.startswith("#"):
            items.append((sid, "directive", line, line))
            continue
        code, inline = strip_inline_comment(line)
        if code.endswith("&") or code.startswith("&"):
            raise Unsupported("continuation line")
        low = code.lower()
        m = _RE_END.match(low)
        if m and (m.group(1) or not m.group(2)):
            what = (m.group(1) or "").replace(" ", "")
            if what in ("module", "program", "subroutine", "function", "type",
                        "interface", "") and scope:
                if what == "" or scope[-1][0] == what or \
                        (what in ("subroutine", "function") and
                         scope[-1][0] in ("subroutine", "function")):
                    scope.pop()
                    if inline:
                        items.append((sid, "comment", inline, inline))
                    continue
            if what in ("module", "program", "subroutine", "function", "type",
                        "interface"):
                raise Unsupported("unbalanced end: " + code[:40])
        top = scope[-1][0] if scope else None
        m = _RE_UNIT.match(low)
        if m and top not in ("type",) and not low.startswith("module procedure") \
                and "=" not in low.split("(")[0]:
            kind, name = m.group(1), m.group(2)
            items.append((sid, "routine" if kind in ("subroutine", "function")
                          else "stmt", kind + ":" + name + ":" + norm(code), line))
            scope.append((kind, name))
        elif top != "type" and _RE_TYPE2.match(low) or \
                (top != "type" and _RE_TYPE.match(low) and not low.startswith("type(")):
            name = (_RE_TYPE2.match(low) or _RE_TYPE.match(low)).group(1)
            items.append((sid, "type", name, line))
            scope.append(("type", "type " + name))
        elif _RE_INTERFACE.match(low) and top != "type":
            name = norm(_RE_INTERFACE.match(low).group(1)) or "<anon>"
            items.append((sid, "interface", name, line))
            scope.append(("interface", "interface " + name))
        elif _RE_USE.match(low) and top in (None, "module", "program", "subroutine",
                                            "function"):
            m = _RE_USE.match(low)
            rest = norm(m.group(2))
            if rest.startswith(",only:"):
                names = [n for n in split_top(rest[6:]) if n]
                items.append((sid, "use", m.group(1) + ",only:" + ",".join(sorted(names)),
                              line))
                for n in names:
                    items.append((sid + "/use " + m.group(1), "use-name", n, line))
            else:
                items.append((sid, "use", m.group(1) + rest, line))
        elif _RE_ACCESS.match(low) and top in ("module", "type") and \
                (not _RE_ACCESS.match(low).group(2) or "::" in low or
                 re.match(r"^(public|private)\s+\w", low)):
            m = _RE_ACCESS.match(low)
            names = [n for n in split_top(m.group(2)) if n]
            items.append((sid, "access", m.group(1) + "::" +
                          ",".join(sorted(norm(n) for n in names)), line))
            sub = sid + "/" + m.group(1) + "::"
            for n in names:
                items.append((sub, "access-name", norm(n), line))
        elif _RE_DECL.match(low) and ("::" in low or
                                      re.match(r"^(integer|real|logical|complex|"
                                               r"character|double\s*precision)"
                                               r"(\s*\([^)]*\))?\s+\w", low)) \
                and not re.match(r"^\w+\s*(\([^()]*\))?\s*=", low) \
                and not low.startswith("type is") and not low.startswith("class is") \
                and not low.startswith("class default"):
            for n in entity_names(code):
                items.append((sid, "decl", n, line))
        else:
            first = re.match(r"^(\d+\s+)?([A-Za-z_]\w*)", code)
            kind = "stmt"
            if first and first.group(2).isupper() and len(first.group(2)) > 1 and \
                    not re.match(r"^(\d+\s+)?\w+\s*(\([^=]*\))?(%\w+(\([^=]*\))?)*\s*=[^=]",
                                 code):
                kind = "codeblock"      # fparser2's own upper-case rendering
            items.append((sid, kind, norm(code), line))
        if inline:
            if inline.startswith("!$"):
                items.append((sid, "directive", norm(inline), inline))
            else:
                items.append((sid, "comment", inline, inline))
    if scope:
        raise Unsupported("unterminated scope " + "/".join(n for _, n in scope))
    return items


def intern(skeletons):
    '''[[(scope, kind, key, text)]] -> (table, [[id]]): identical (scope, kind,
    key) items get an occurrence number so that every item of a skeleton is
    unique; ids are shared between the skeletons of a case.'''
    table = []
    ids = {}
    out = []
    for sk in skeletons:
        count = {}
        seq = []
        for scope, kind, key, text in sk:
            base = (scope, kind, key)
            count[base] = count.get(base, 0) + 1
            full = base + (count[base],)
            if full not in ids:
                table.append({"s": scope, "k": kind, "t": key, "n": count[base],
                              "x": text.strip()[:160]})
                ids[full] = len(table)
            seq.append(ids[full])
        out.append(seq)
    return table, out
