'''C01 - anchor self-test of the trusted base (not a property check).

A sample of the generated programs is compiled with gfortran (original text,
double precision reals, bounds checking) and run on a few inputs of the
case's domain; the final values of the observables are compared with the
final store TLC computes for the *reference* program under FortranSem.tla
(SemRoundTrip.tla prints it for cases marked "dump").  A disagreement means
the specification (or renderer / input encoding) is wrong: machinery failure
(exit 2), never a violation.  PSyclone is not involved.
'''
import os
import shutil
import subprocess
from fractions import Fraction

from pv import core, sem
from pv import c01_gen as G
from pv import c01_render as R


def fillval(ty, fm, pos, lin):
    '''mirror of FortranSem!FillVal, as Fortran literal text'''
    if ty == "l":
        return ".true." if (lin + fm) % 2 == 0 else ".false."
    iv = {1: 3 * pos + lin, 2: ((lin + pos) % 3) - 1,
          3: (-1 if lin % 2 == 0 else 1) * (lin + pos)}.get(fm, lin)
    if ty == "i":
        return str(iv)
    if fm == 4:
        return f"{2 * lin + 2 * pos + 1}.0d0/2.0d0"
    return f"{iv}.0d0"


def _scalar(ty, v):
    if ty == "l":
        return ".true." if v else ".false."
    if ty == "r":
        return f"{v[0]}.0d0/{v[1]}.0d0"
    return str(v)


def driver(inputs):
    '''main program running s once per input (val: name -> value, fm)'''
    decls = G.case_decls()
    out = ["program drv", "use c01mod", "implicit none"]
    out += [R.decl(d) for d in G.ARGS]
    out.append("integer :: q")
    for num, (val, fm) in enumerate(inputs):
        for pos, d in enumerate(decls, 1):
            if d["init"] != "in":
                continue
            if d["dims"]:
                n = 1
                for lo, hi in d["dims"]:
                    n *= hi - lo + 1
                vals = ", ".join(fillval(d["ty"], fm, pos, lin) for lin in range(1, n + 1))
                shape = ", ".join(str(hi - lo + 1) for lo, hi in d["dims"])
                out.append(f"{d['name']} = reshape([{vals}], [{shape}])")
            else:
                out.append(f"{d['name']} = {_scalar(d['ty'], val[d['name']])}")
        out.append(f"print '(A,1X,I0)', '#input', {num}")
        out.append("call s(" + ", ".join(d["name"] for d in G.ARGS) + ")")
        for d in G.ARGS + G.MODVARS:
            fmt = {"i": "I0", "r": "ES26.17E3", "l": "L1"}[d["ty"]]
            if d["dims"]:
                n = 1
                for lo, hi in d["dims"]:
                    n *= hi - lo + 1
                flat = f"reshape({d['name']}, [{n}])"
                out.append(f"print '(A,1X,I0,{n}(1X,{fmt}))', '{d['name']}', {n}, {flat}")
            else:
                out.append(f"print '(A,1X,I0,1X,{fmt})', '{d['name']}', 1, {d['name']}")
    out.append("end program drv")
    return "\n".join(out) + "\n"


def _gfortran(item):
    pid, src, drv, tmp, k = item
    d = os.path.join(tmp, f"p{k}")
    os.makedirs(d)
    with open(os.path.join(d, "m.f90"), "w") as f:
        f.write(src)
    with open(os.path.join(d, "d.f90"), "w") as f:
        f.write(drv)
    r = subprocess.run(["gfortran", "-O0", "-fdefault-real-8", "-fcheck=bounds", "-ffree-line-length-none", "-J", d, "-o",
                        os.path.join(d, "x"), os.path.join(d, "m.f90"), os.path.join(d, "d.f90")],
                       capture_output=True, text=True)
    if r.returncode:
        return pid, None, "compile: " + r.stderr[-600:]
    r = subprocess.run([os.path.join(d, "x")], capture_output=True, text=True)
    blocks, cur = {}, None
    for line in r.stdout.splitlines():
        parts = line.split()
        if parts[0] == "#input":
            cur = blocks.setdefault(int(parts[1]), {})
        else:
            cur[parts[0]] = parts[2:]
    # a run-time error ends the output: the block being computed is incomplete
    return pid, blocks, r.stderr[-300:] if r.returncode else ""


def _same(ty, tla, txt):
    if tla["t"] == "p":
        return True
    if ty == "l":
        return tla["b"] == (txt == "T")
    if ty == "i":
        return tla["v"] == int(txt)
    want = Fraction(tla["n"], tla["d"])
    got = float(txt)
    return abs(float(want) - got) <= 1e-9 * max(1.0, abs(float(want)))


def anchor(progs, max_inputs=6, workers=None):
    '''returns {"programs", "inputs_compared", "skipped_undefined"}; raises
    MachineryError on a disagreement'''
    tmp = core.mktemp("pv-c01-anchor-")
    try:
        cases, items, inputs_of = [], [], {}
        for k, p in enumerate(progs):
            ref = p.ref()
            # restrict the domain: every combination of the first two values of each scalar,
            # cut to max_inputs together with the fills
            dom = [[nm, list(vs)[:2]] for nm, vs in p.dom.items()]
            case = {"id": p.pid, "status": "ok", "dump": True, "decls": ref["decls"], "dom": dom,
                    "fills": list(p.fills), "live": list(G.LIVE), "subs": ref["subs"] or
                    {"#none": {"formals": [], "locals": [], "body": []}},
                    "progs": [{"role": "ref", "body": ref["body"]}]}
            while sem.n_inputs(case) > max_inputs:
                big = max(case["dom"], key=lambda e: len(e[1]))
                if len(big[1]) == 1:
                    break
                big[1].pop()
            cases.append(case)
        res_lines = {}
        path = os.path.join(tmp, "cases.json")
        import json
        for lo in range(0, len(cases), 300):
            with open(path, "w") as f:
                json.dump(cases[lo:lo + 300], f, separators=(",", ":"))
            r = core.run_tlc("SemRoundTrip.tla", "SemRoundTrip.cfg", env={"PV_CASES": path},
                             workers=workers)
            for fin in r.printed("FINAL"):
                res_lines.setdefault(fin["id"], []).append(fin)
        for k, (p, case) in enumerate(zip(progs, cases)):
            fins = res_lines.get(p.pid, [])
            names = [e[0] for e in case["dom"]]
            inputs = [(dict(zip(names, fin["val"])), fin["fm"]) for fin in fins]
            inputs_of[p.pid] = (fins, inputs)
            if inputs:
                items.append((p.pid, G.source(p.body), driver(inputs), tmp, k))
        outs = core.pool_map(_gfortran, items, procs=workers)
        compared, problems = 0, []
        tys = {d["name"]: d["ty"] for d in G.ARGS + G.MODVARS}
        for pid, blocks, err in outs:
            if blocks is None:
                problems.append(f"gfortran rejects generated program {pid}: {err}")
                continue
            fins, inputs = inputs_of[pid]
            for num, fin in enumerate(fins):
                blk = blocks.get(num)
                if blk is None or set(blk) != set(tys):
                    problems.append(f"FortranSem defines {pid} on input {inputs[num]} but the "
                                    f"compiled program stopped: {err}")
                    continue
                bad = [f"{nm}[{pos + 1}] = {tla} vs {txt}"
                       for nm, vals in fin["st"].items()
                       for pos, (tla, txt) in enumerate(zip(vals, blk[nm]))
                       if not _same(tys[nm], tla, txt)]
                if bad:
                    problems.append(f"FortranSem and gfortran disagree on {pid}, input "
                                    f"{inputs[num]}: " + "; ".join(bad[:4]))
                compared += 1
        if problems:
            raise core.MachineryError("anchor self-test failed (%d): " % len(problems) +
                                      " || ".join(problems[:6]))
        total = sum(sem.n_inputs(c) for c in cases)
        return {"programs": len(progs), "inputs_compared": compared,
                "inputs_undefined_in_spec": total - compared}
    finally:
        shutil.rmtree(tmp, ignore_errors=True)
