'''C01 - reading and re-writing Fortran preserves program behaviour.

For every program P of the generated family (c01_gen: pv-ast whose meaning is
given directly by spec/FortranSem.tla; P never passes through PSyclone):

  text(P) --FortranReader--> PSyIR --export--> P1
                             PSyIR --FortranWriter--> text2 --FortranReader--> PSyIR --export--> P2

TLC (spec/SemRoundTrip.tla) runs P, P1 and P2 from the same store for every
input valuation x array fill of the case and compares the observables
(dummy arguments and module variables): P vs P1 decides the reader clauses
(ReaderSameObservable, ReaderNoNewUndefined), P1 vs P2 the writer clauses.
An exception escaping the reader / writer (the documented fall-back to a
CodeBlock happens inside the reader and is not an exception) is recorded as
the case's status and turned into the verdicts ReadsWithoutInternalError /
WritesWithoutInternalError / WrittenTextReadable by the same spec.

Tiers: quick = the fixed families of c01_gen (about 650 programs); thorough adds
C01_RANDOM (default 800) random combinations of constructs seeded by VERIF_SEED.
A sample of the reference programs is also compiled with gfortran and compared
with FortranSem's result (c01_anchor, trusted-base self-test, exit 2 on failure).
Development knobs: C01_ONLY=<id prefixes,...>  C01_WORKERS=<n>  C01_ANCHOR=0
C01_CORRUPT=status|literal|drop (binding demonstration: corrupt one recorded case).
'''
import json
import os
import re
import shutil

from pv import core, sem
from pv import c01_gen as G
from pv.export import Exporter, Unsupported

NOSUB = {"#none": {"formals": [], "locals": [], "body": []}}
_PROGS = None


def _hooks():
    from pv import c01_codeblock
    return {"CodeBlock": c01_codeblock.codeblock}


def _export(psyir):
    r = sem.routine_named(psyir, "s")
    return Exporter(hooks=_hooks(), functions=True).routine(r)


def _codeblocks(psyir):
    from psyclone.psyir.nodes import CodeBlock
    out = []
    for cb in psyir.walk(CodeBlock):
        out.append(type(cb.get_ast_nodes[0]).__name__)
    return out


def _decl_change(ref_decls, new_decls):
    '''name of a declaration the round trip changed (type / shape / a new input), or None'''
    byname = {d["name"]: d for d in ref_decls}
    for d in new_decls:
        o = byname.get(d["name"])
        if o is None:
            if d["init"] == "in":
                return d["name"]
        elif o["ty"] != d["ty"] or o["dims"] != d["dims"] or o["init"] != d["init"]:
            return d["name"]
    return None


_RE_ROUTINE = re.compile(
    r"^\s*((?:(?:pure|impure|elemental|recursive|module|integer|real|logical|double\s+precision)"
    r"(?:\s*\([^)]*\))?\s+)*)(function|subroutine)\s+(\w+)\s*(?:\(([^)]*)\))?\s*"
    r"(?:result\s*\(\s*(\w+)\s*\))?\s*$", re.I)
_RE_LABEL = re.compile(r"^\s*(\w+)\s*:\s*(?:do|if|select|block|associate)\b", re.I)
_RE_XREF = re.compile(r"\b(?:exit|cycle)\s+(\w+)\s*$", re.I)


def text_interface(text):
    '''Projection of a Fortran text (scanned here, independently of PSyclone's
    lenient reader): the routines it declares - name, kind, prefixes, number of
    dummies, RESULT name - and the construct names it defines / refers to.'''
    routines, defs, refs = [], [], []
    for line in text.splitlines():
        line = line.split("!")[0].rstrip()
        m = _RE_ROUTINE.match(line)
        if m and not line.strip().lower().startswith("end"):
            pre = m.group(1).lower().split()
            args = [a for a in (m.group(4) or "").split(",") if a.strip()]
            routines.append({"name": m.group(3).lower(), "kind": m.group(2).lower(),
                             "elemental": "elemental" in pre, "pure": "pure" in pre,
                             "nargs": len(args), "result": (m.group(5) or "").lower()})
            continue
        m = _RE_LABEL.match(line)
        if m:
            defs.append(m.group(1).lower())
        m = _RE_XREF.search(line)
        if m:
            refs.append(m.group(1).lower())
    return {"routines": routines, "defs": sorted(set(defs)), "refs": sorted(set(refs)),
            "statics": text_statics(text)}


_RE_END = re.compile(r"^\s*end\s*(function|subroutine)\b", re.I)


def text_statics(text):
    '''"routine:variable" (lower case) of the routine-local variables a Fortran
    text makes static: SAVE attribute, initial value without PARAMETER, named in
    a SAVE statement, or every local of a routine with a bare SAVE.'''
    out, cur, locs, dummies, bare = set(), None, [], set(), False
    for line in text.splitlines():
        line = line.split("!")[0].strip()
        low = line.lower()
        if _RE_END.match(line):
            if cur and bare:
                out |= {f"{cur}:{v}" for v in locs if v not in dummies}
            cur = None
            continue
        m = _RE_ROUTINE.match(line)
        if m:
            cur, locs, bare = m.group(3).lower(), [], False
            dummies = {a.strip().lower() for a in (m.group(4) or "").split(",") if a.strip()}
            if m.group(5):
                dummies.add(m.group(5).lower())
            dummies.add(cur)
            continue
        if cur is None:
            continue
        if "::" in line:
            attrs, ents = low.split("::", 1)
            attrs = [a.strip() for a in attrs.split(",")]
            depth, names, item = 0, [], ""
            for ch in ents + ",":
                if ch == "(":
                    depth += 1
                elif ch == ")":
                    depth -= 1
                if ch == "," and depth == 0:
                    names.append(item.strip())
                    item = ""
                else:
                    item += ch
            for ent in names:
                nm = re.match(r"\w+", ent).group(0)
                locs.append(nm)
                if "save" in attrs or ("=" in ent and "parameter" not in attrs):
                    out.add(f"{cur}:{nm}")
        elif re.match(r"^save\b", low):
            rest = low[4:].replace("::", "").strip()
            if not rest:
                bare = True
            else:
                out |= {f"{cur}:{v.strip()}" for v in rest.split(",") if v.strip()}
    return sorted(out)


def pipeline(prog, text=None):
    '''Drive PSyclone over one program; returns the record the case is built from.'''
    rec = {"id": prog.pid, "status": "ok", "source": text or G.source(prog.body),
           "written": None, "p1": None, "p2": None, "unsupported": None, "codeblocks": []}
    try:
        psy1 = sem.parse(rec["source"])
    except Exception as err:        # noqa - any exception here is an internal error
        rec["status"] = "read-error"
        rec["err"] = f"{type(err).__name__}: {err}"[:400]
        return rec
    rec["codeblocks"] = _codeblocks(psy1)
    try:
        rec["p1"] = _export(psy1)
    except Unsupported as err:
        rec["unsupported"] = "P1: " + str(err)[:200]
    try:
        rec["written"] = sem.write(psy1)
    except Exception as err:        # noqa
        rec["status"] = "write-error"
        rec["err"] = f"{type(err).__name__}: {err}"[:400]
        return rec
    try:
        psy2 = sem.parse(rec["written"])
    except Exception as err:        # noqa
        rec["status"] = "reread-error"
        rec["err"] = f"{type(err).__name__}: {err}"[:400]
        return rec
    if rec["p1"] is not None:
        try:
            rec["p2"] = _export(psy2)
        except Unsupported as err:
            rec["unsupported"] = "P2: " + str(err)[:200]
    return rec


def _build(i):
    return pipeline(_PROGS[i])


def make_case(prog, rec):
    '''The SemRoundTrip case of one pipeline record (None if nothing can be run).'''
    ref = prog.ref()
    case = {"id": prog.pid, "status": rec["status"], "decls": ref["decls"],
            "dom": prog.domlist(), "fills": list(prog.fills), "live": list(G.LIVE),
            "subs": ref["subs"] or NOSUB,
            "progs": [{"role": "ref", "body": ref["body"]}]}
    if rec["status"] != "ok":
        case["dom"], case["fills"] = [], [1]
        return case
    # what the original and the written text declare (decided by the spec's
    # static clauses even when the programs cannot be exported)
    case["siface"] = G.interface(prog.body)
    wi = text_interface(rec["written"])
    case["wiface"], case["wdefs"], case["wrefs"] = wi["routines"], wi["defs"], wi["refs"]
    case["sstatic"], case["wstatic"] = G.statics(prog.body), wi["statics"]
    if rec["p1"] is None:
        return case
    decls = ref["decls"]
    for role, v in (("Reader", rec["p1"]), ("Writer", rec["p2"])):
        if v is None:
            break
        bad = _decl_change(ref["decls"], v["decls"])
        if bad:
            case["status"] = "read-decl" if role == "Reader" else "write-decl"
            case["changed"] = bad
            case["dom"], case["fills"] = [], [1]
            return case
        try:
            decls = sem.merge_decls(decls, v["decls"])
        except Unsupported as err:
            rec["unsupported"] = f"case ({role}): " + str(err)[:200]
            break
        case["progs"].append({"role": role, "body": v["body"], "subs": v["subs"] or NOSUB})
    case["decls"] = decls
    return case


# ------------------------------------------------------------ known findings
def _where_nodes(body):
    return [nd for nd in G.walk(body) if nd.get("k") == "where"]


def _where_exprs(w):
    '''(masks, assignments) of one WHERE construct, including those of the
    WHERE constructs nested in it'''
    masks = [w["mask"]] + [ew["mask"] for ew in w["elsewhere"] if ew["mask"]["k"] != "none"]
    asgs = []
    for s in list(w["body"]) + [s for ew in w["elsewhere"] for s in ew["body"]]:
        if s["k"] == "where":
            m2, a2 = _where_exprs(s)
            masks += m2
            asgs += a2
        else:
            asgs.append(s)
    return masks, asgs


def _dims(name):
    for d in G.ARGS + G.MODVARS:
        if d["name"] == name:
            return d["dims"]
    return []


def _is_full(name, pos, rng):
    '''range written ":" or with the declared bounds and unit stride'''
    lo, hi = _dims(name)[pos]
    def lit(e, v):
        return e["k"] == "none" or (e["k"] == "lit" and e.get("v") == v)
    return lit(rng["lo"], lo) and lit(rng["hi"], hi) and lit(rng["st"], 1)


def _sections(e):
    '''(aref node, dim position, range) of every array section in e'''
    for nd in G.walk(e):
        if nd.get("k") == "aref":
            for pos, ix in enumerate(nd["idx"]):
                if ix.get("k") == "range":
                    yield nd, pos, ix


def _lowered_wheres(rec):
    '''WHERE constructs of P that the reader lowers to loops: explicit array
    notation in the mask and full-range left-hand sides'''
    out = []
    for w in _where_nodes(rec["prog"]):
        masks, asgs = _where_exprs(w)
        if not any(True for _ in _sections(masks[0])):
            continue
        ok = True
        for s in asgs:
            secs = list(_sections(s["lhs"]))
            if not secs or not all(_is_full(nd["name"], pos, r) for nd, pos, r in secs):
                ok = False
        if ok:
            out.append(w)
    return out


def _assigned(w):
    _, asgs = _where_exprs(w)
    return {s["lhs"]["name"] for s in asgs}


def _reads(w):
    """every expression of a WHERE that is evaluated: masks and right-hand sides"""
    masks, asgs = _where_exprs(w)
    return masks + [s["rhs"] for s in asgs]


_REDUCTIONS = ("SUM", "PRODUCT", "MAXVAL", "MINVAL", "SIZE")


def m_where_lower_bound(rec, clause, detail, finding):
    '''the first array section of the mask (the one the reader takes the loop
    bounds from) spans the full declared range of a dimension whose declared
    lower bound is not 1: the generated loop runs 1..declared upper bound'''
    if not clause.startswith("Reader"):
        return False
    for w in _lowered_wheres(rec):
        for nd, pos, r in _sections(w["mask"]):
            if _dims(nd["name"])[pos][0] != 1 and _is_full(nd["name"], pos, r):
                return True
            break
    return False


def m_where_reduction_indexed(rec, clause, detail, finding):
    '''a lowered WHERE contains a reduction / SIZE over an array *section*:
    the section inside the intrinsic is indexed by the loop variable too
    (SUM(a(:)) becomes SUM(a(widx1)))'''
    if not clause.startswith("Reader"):
        return False
    for w in _lowered_wheres(rec):
        for nd in G.walk(_reads(w)):
            if nd.get("k") == "icall" and nd["name"] in _REDUCTIONS \
                    and any(True for _ in _sections(nd["args"])):
                return True
    return False


def m_where_reduction_reevaluated(rec, clause, detail, finding):
    '''a lowered WHERE contains a reduction over a whole array (no array
    notation) that the WHERE assigns: it is re-evaluated in every iteration of
    the element loop, after earlier elements have been overwritten'''
    if clause != "ReaderSameObservable":
        return False
    for w in _lowered_wheres(rec):
        tgt = _assigned(w)
        for nd in G.walk(_reads(w)):
            if nd.get("k") == "icall" and nd["name"] in _REDUCTIONS and \
                    any(x.get("k") == "ref" and x["name"] in tgt for x in G.walk(nd["args"])):
                return True
    return False


def m_where_stride(rec, clause, detail, finding):
    '''a lowered WHERE contains a section with a non-unit stride (ignored)'''
    if not clause.startswith("Reader"):
        return False
    for w in _lowered_wheres(rec):
        for nd, pos, r in _sections(_reads(w)):
            if r["st"]["k"] != "none" and not (r["st"]["k"] == "lit" and r["st"].get("v") == 1):
                return True
    return False


def m_where_carried(rec, clause, detail, finding):
    '''a mask or right-hand side of a lowered WHERE reads a single element of
    an array the WHERE assigns (b(:) = b(:) + b(1)): the element loop has
    already overwritten it'''
    if clause != "ReaderSameObservable":
        return False
    for w in _lowered_wheres(rec):
        tgt = _assigned(w)
        for nd in G.walk(_reads(w)):
            if nd.get("k") == "aref" and nd["name"] in tgt and \
                    not any(ix.get("k") == "range" for ix in nd["idx"]):
                return True
    return False


def m_where_nested(rec, clause, detail, finding):
    '''a lowered WHERE contains another WHERE: the inner one becomes a complete
    loop nest over all elements inside the outer element loop'''
    if not clause.startswith("Reader"):
        return False
    for w in _lowered_wheres(rec):
        inner = list(w["body"]) + [s for ew in w["elsewhere"] for s in ew["body"]]
        if any(s["k"] == "where" for s in inner):
            return True
    return False


def m_prefix_mixed_case(rec, clause, detail, finding):
    '''an ELEMENTAL function whose name is written with upper-case letters is
    written without the prefix'''
    if clause != "WriterKeepsElemental":
        return False
    names = detail.get("names") or []
    return bool(names) and all(
        nm in G.HELPERS and "elemental" in G.HELPERS[nm]["prefix"] and
        G.HELPERS[nm]["disp"] != G.HELPERS[nm]["disp"].lower() for nm in names)


def _bodies(body):
    '''every statement list of a program'''
    yield body
    for s in body:
        for key in ("body", "then", "else"):
            if isinstance(s.get(key), list):
                yield from _bodies(s[key])
        for c in s.get("cases", []):
            yield from _bodies(c["body"])
        for ew in s.get("elsewhere", []):
            yield from _bodies(ew["body"])


def m_select_default_only(rec, clause, detail, finding):
    '''a SELECT CASE whose only clause is CASE DEFAULT follows, in the same
    block, a statement kept as a CodeBlock (here: a WHERE the reader does not
    lower): the default body is placed before the CodeBlock'''
    if clause != "ReaderSameObservable":
        return False
    lowered = [id(w) for w in _lowered_wheres(rec)]
    for body in _bodies(rec["prog"]):
        for pos, s in enumerate(body):
            if s["k"] == "select" and len(s["cases"]) == 1 and s["cases"][0]["dflt"] and \
                    any(q["k"] == "where" and id(q) not in lowered for q in body[:pos]):
                return True
    return False


def m_do_concurrent_mask(rec, clause, detail, finding):
    '''DO CONCURRENT with a mask: read as a plain loop over all iterations'''
    return clause == "ReaderSameObservable" and any(
        nd.get("k") == "loop" and nd.get("concurrent") for nd in G.walk(rec["prog"]))


def m_construct_name_case(rec, clause, detail, finding):
    '''EXIT / CYCLE spells the construct name in a different case than the DO
    statement: the loop is written without its name, the EXIT keeps it'''
    if clause != "WrittenConstructNamesDefined":
        return False
    labels = {nd["label"] for nd in G.walk(rec["prog"])
              if nd.get("k") in ("loop", "while") and nd.get("label")}
    refs = {nd["label"] for nd in G.walk(rec["prog"])
            if nd.get("k") in ("exit", "cycle") and nd.get("label")}
    names = set(detail.get("names") or [])
    return bool(names) and all(
        any(r.lower() == nm for r in refs) and nm not in {l for l in labels if l in refs}
        and any(l.lower() == nm and l not in refs for l in labels) for nm in names)


def _pow_left_nested(body):
    for nd in G.walk(body):
        if nd.get("k") == "bin" and nd["op"] == "**" and nd["l"].get("k") == "bin" \
                and nd["l"]["op"] == "**":
            return True
    return False


def m_pow_left(rec, clause, detail, finding):
    '''(a ** b) ** c is written a ** b ** c'''
    return clause.startswith("Writer") and _pow_left_nested(rec["prog"]) and \
        rec.get("written") is not None


MATCHERS = {"where-nonunit-lower-bound": m_where_lower_bound,
            "where-reduction-argument-indexed": m_where_reduction_indexed,
            "where-reduction-reevaluated": m_where_reduction_reevaluated,
            "where-section-stride-ignored": m_where_stride,
            "where-loop-carried-read": m_where_carried,
            "where-nested-runs-over-all-elements": m_where_nested,
            "elemental-prefix-lost-for-mixed-case-name": m_prefix_mixed_case,
            "default-only-select-moved-before-codeblock": m_select_default_only,
            "do-concurrent-mask-dropped": m_do_concurrent_mask,
            "construct-name-lost-on-case-mismatch": m_construct_name_case,
            "left-nested-power-unparenthesised": m_pow_left}


# ---------------------------------------------------------------------- run
def check_programs(out, progs, recs, batch=400, workers=None):
    '''TLC over the cases of the pipeline records; reports into out and returns
    the coverage dict.'''
    cases, by_id, unsupported = [], {}, []
    for p, rec in zip(progs, recs):
        by_id[p.pid] = (p, rec)
        case = make_case(p, rec)
        if rec["unsupported"]:
            unsupported.append({"id": p.pid, "why": rec["unsupported"]})
        cases.append(case)
    if os.environ.get("C01_CORRUPT"):
        cases = corrupt(cases, os.environ["C01_CORRUPT"])
    n_unsup_total = sum(1 for r in recs if r["p1"] is None and r["status"] == "ok")
    if n_unsup_total > 0.2 * max(1, len(progs)):
        why = {}
        for u in unsupported:
            why[u["why"][:60]] = why.get(u["why"][:60], 0) + 1
        raise core.MachineryError(f"too many unsupported programs: {n_unsup_total}/{len(progs)} {why}")
    res = sem.run_equiv(cases, spec="SemRoundTrip.tla", cfg="SemRoundTrip.cfg", batch=batch,
                        workers=workers)
    nontrivial, ninputs, status = 0, 0, {}
    for c in cases:
        status[c["status"]] = status.get(c["status"], 0) + 1
        n = sem.n_inputs(c)
        ninputs += n
        if c["status"] == "ok" and n - res.discards.get(c["id"], 0) > 0 and len(c["progs"]) > 1:
            nontrivial += 1
    for cid, fails in sorted(res.fails.items()):
        p, rec = by_id[cid]
        for cl in sorted({f[0] for f in fails}):
            wit = [f[1] for f in fails if f[0] == cl]
            slim = {"id": cid, "source": rec["source"], "written": rec["written"],
                    "prog": p.body, "error": rec.get("err")}
            detail = {"n_failing_inputs": len(wit), "witnesses": wit[:4],
                      "names": sorted({n for w in wit for n in w.get("names", [])})}
            out.violation(slim, cl, detail)
    # a lost PURE prefix keeps the program valid and its behaviour: divergence only
    pure_lost = sorted({f"{c['id']}:{r['name']}" for c in cases if "wiface" in c
                        for r in c["siface"] if r["pure"] and
                        any(w["name"] == r["name"] and not w["pure"] and not w["elemental"]
                            for w in c["wiface"])})
    examples = {}
    for fid, ex in out.known_examples.items():
        c = ex["case"]
        examples[fid] = {"id": c["id"], "clause": ex["clause"],
                         "witness": (ex["detail"]["witnesses"] or [None])[0],
                         "source": _body_text(c["source"]), "written": _body_text(c["written"])}
    cb = {}
    for r in recs:
        for kind in r["codeblocks"]:
            cb[kind] = cb.get(kind, 0) + 1
    ok3 = [c for c in cases if c["status"] == "ok" and len(c["progs"]) == 3]
    return {"states": res.states, "transitions": res.transitions,
            "traces_validated_against_impl": len(cases),
            "evaluations": len(progs), "distinct_nontrivial": nontrivial,
            "programs": len(progs), "cases_with_reader_and_writer": len(ok3),
            "inputs": ninputs, "discarded_ub_inputs": sum(res.discards.values()),
            "failing_cases": len(res.fails), "status_counts": status,
            "unsupported": len(unsupported), "unsupported_samples": unsupported[:8],
            "codeblocks_kept": cb, "known_examples": examples, "exhaustive": False, "divergences": len(pure_lost),
            "divergence_samples": [{"pure prefix not written": x} for x in pure_lost[:5]],
            "tlc_wall_s": round(res.wall, 1),
            "samples": [{"id": c["id"], "source": by_id[c["id"]][1]["source"],
                         "written": by_id[c["id"]][1]["written"]}
                        for c in ok3[:: max(1, len(ok3) // 3)][:3]]}


def _body_text(text):
    '''the executable part of routine s in a program text (evidence only)'''
    if not text:
        return text
    lines = text.split("end subroutine s")[0].splitlines()
    last = max(i for i, l in enumerate(lines) if "::" in l)
    return "\n".join(l for l in lines[last + 1:] if l.strip())


def corrupt(cases, how):
    '''Binding demonstration: flip one recorded field of the first suitable case.'''
    cases = json.loads(json.dumps(cases))
    for c in cases:
        if c["status"] != "ok" or len(c["progs"]) < 3:
            continue
        if how == "status":
            c["status"] = "write-error"
            c["dom"], c["fills"] = [], [1]
            return cases
        if how == "literal":          # change one literal of the re-read program
            for nd in G.walk(c["progs"][2]["body"]):
                if nd.get("k") == "lit" and nd.get("t") == "int" and nd["v"] >= 10:
                    nd["v"] += 1
                    return cases
        if how == "drop":             # drop the last statement of the first-read program
            if len(c["progs"][1]["body"]) > 1:
                c["progs"][1]["body"].pop()
                return cases
    raise core.MachineryError("nothing to corrupt")


def run(tier):
    global _PROGS
    core.setup_psyclone_env()
    out = core.Outcome("C01", tier, "model_checking", matchers=MATCHERS)
    progs = G.programs(tier, core.seed())
    only = os.environ.get("C01_ONLY")
    if only:
        progs = [p for p in progs if any(p.pid.startswith(o) for o in only.split(","))]
    _PROGS = progs
    try:
        recs = core.pool_map(_build, list(range(len(progs))),
                             procs=int(os.environ.get("C01_WORKERS", "0")) or None)
    finally:
        _PROGS = None
    nw = int(os.environ.get("C01_WORKERS", "0")) or None
    cov = check_programs(out, progs, recs, workers=nw)
    cov["anchor_selftest"] = "skipped"
    if os.environ.get("C01_ANCHOR", "1") != "0" and shutil.which("gfortran"):
        from pv import c01_anchor
        # (the static|* programs are outside FortranSem's semantics - no static storage, no
        # initial values - and are decided by the static clause WriterKeepsStatic alone)
        base = [p for p in progs if "random" not in p.tags and not p.pid.startswith("static|")]
        rest = [p for p in progs if "random" in p.tags]
        sample = base[::12] if tier == "quick" else base + rest[::10]
        cov["anchor_selftest"] = c01_anchor.anchor(sample, workers=nw)
    cov["rule"] = ("one case = one generated program (reference pv-ast, PSyIR after reading, PSyIR "
                   "after writing and re-reading); non-trivial = read and written without error, "
                   "exported, and the reference is defined on at least one input")
    return out.finish(cov, assumptions=[
        "exact rational arithmetic (no rounding / signed zeros / NaN, as the property states)",
        "observables: final values of all dummy arguments and module variables",
        "'compiles' is approximated by re-readability: the written text is read back by "
        "FortranReader (no compiler in the loop)",
        "the reference program never passes through PSyclone; its text is produced by "
        "pv.c01_render (fully parenthesised), its meaning by spec/FortranSem.tla",
        "exporter pv.export trusted, fails closed (unsupported cases counted); WHERE code blocks "
        "are given their Fortran meaning by pv.c01_codeblock",
        "anchor self-test (not deciding): a sample of the reference programs is compiled with "
        "gfortran and its results compared with FortranSem's on a few inputs each",
        "module functions / named actual arguments of user routines are outside the exporter's "
        "subset and not generated"])
