'''C14 binding demonstrations (not part of the check).

  python -m pv.c14_demo corrupt-post    flip one recorded post-state field
  python -m pv.c14_demo corrupt-outcome flip one recorded outcome (returned -> raised)
  PV_REPO=/tmp/x python -m pv.c14_demo run    run the check against a scratch copy
                                              (source mutant / candidate fix)

  PV_C14_BINDINGS=B PV_REPO=/tmp/x python -m pv.c14_demo run   binding B alone (the
                                              repository's tests under the recorder)

Evidence and replays of these runs go to a scratch directory, not to /verif.
Restrict the universes with PV_C14_ONLY=omp,loop to keep it short.'''
import shutil
import sys

from pv import core


def _flip_post(records):
    '''A refused call whose recorded post-state is altered: one node loses its
    parent link in the record.'''
    for k, (u, rec) in enumerate(records):
        if rec[3] == 1 and rec[5] == rec[0] and any(rec[6]):
            pa = list(rec[6])
            idx = next(i for i, v in enumerate(pa) if v)
            pa[idx] = 0
            records[k] = (u, rec[:6] + [pa] + rec[7:])
            print(f"corrupted record {k}: post parent of node {idx + 1} := 0")
            return
    raise core.MachineryError("nothing to corrupt")


def _flip_outcome(records):
    '''A successful call (state changed) recorded as `raised`.'''
    for k, (u, rec) in enumerate(records):
        if rec[3] == 0 and rec[5] != rec[0] and rec[2][0] == "append":
            records[k] = (u, rec[:3] + [1, "Flipped"] + rec[5:])
            print(f"corrupted record {k}: outcome returned -> raised")
            return
    raise core.MachineryError("nothing to corrupt")


def _summary(tmp):
    '''what the violations of this demonstration run look like (the replay
    files themselves are in a scratch directory)'''
    import collections
    import glob
    import json
    groups = collections.Counter()
    tests = {}
    for path in glob.glob(tmp + "/C14-*.json"):
        with open(path) as f:
            rep = json.load(f)
        case = rep["case"]
        if str(case.get("binding", "")).startswith("B"):
            key = ("B", case["op"], rep["clause"], case["nodes"]["1"])
            tests.setdefault(key, set()).update(case["tests"])
        else:
            key = ("A", case["op"]["name"], rep["clause"], case["kinds"][0])
        groups[key] += 1
    for key, num in sorted(groups.items()):
        print("  violation group", key, "x", num, "(first 25 replays only)")
        for name in sorted(tests.get(key, ()))[:12]:
            print("      caught in", name)


def main(argv):
    mode = argv[1] if len(argv) > 1 else "run"
    tmp = core.mktemp("pv-c14-demo-")
    core.EVID = tmp
    core.REPLAYS = tmp
    from pv import c14
    try:
        if mode == "corrupt-post":
            rc = c14.run("quick", corrupt=_flip_post)
        elif mode == "corrupt-outcome":
            rc = c14.run("quick", corrupt=_flip_outcome)
        else:
            rc = c14.run("quick" if len(argv) < 3 else argv[2])
    except core.MachineryError as err:
        print("MACHINERY FAILURE:", str(err)[:400])
        rc = 2
    finally:
        _summary(tmp)
        shutil.rmtree(tmp, ignore_errors=True)
    print("exit code", rc)
    return rc


if __name__ == "__main__":
    sys.exit(main(sys.argv))
