'''C06 - array-syntax and intrinsic lowering preserve semantics.

Generated routines with array assignments (overlapping / strided / empty /
non-unit-lower-bound sections, scalar broadcast) and intrinsic calls are read
by PSyclone; each lowering transformation (and short histories
Reference2ArrayRangeTrans* ; lowering) is applied to every applicable target.
Accepted applications give (before, after) pairs exported from the real PSyIR
which TLC executes under spec/FortranSem.tla (SemEquiv.tla) on every input of
the domain.  FortranSem evaluates the whole right-hand side before storing, so
a forward loop over an overlapping section is caught.
'''
from pv import core, sem

HEAD = '''subroutine s(a, b, c, d, e, g, h, p5, v, w, ia, n, m, t, kout)
  integer, intent(in) :: n
  integer, intent(in) :: m
  integer, intent(inout) :: kout
  real, intent(inout) :: t
  real, dimension(0:9), intent(inout) :: a
  real, dimension(0:9), intent(inout) :: b
  real, dimension(0:4,0:4), intent(inout) :: c
  real, dimension(3,3), intent(inout) :: d
  real, dimension(2:7), intent(inout) :: e
  real, dimension(2:6), intent(inout) :: g
  real, dimension(3,0:4), intent(inout) :: h
  real, dimension(5), intent(inout) :: p5
  real, dimension(3), intent(inout) :: v
  real, dimension(3), intent(inout) :: w
  integer, dimension(4), intent(inout) :: ia
  integer :: i
  integer :: j
  real :: x
'''
TAIL = "end subroutine s\n"
DOM = [("n", [0, 1, 2, 3]), ("m", [1, 2]), ("kout", [7]), ("t", [[1, 2], [-3, 1]])]
LIVE = ["a", "b", "c", "d", "e", "g", "h", "p5", "v", "w", "ia", "kout", "t"]
FILLS = [1, 3, 4]


def prog(body):
    return HEAD + "".join("  " + l + "\n" for l in body) + TAIL


ARRAY_ASSIGN = [
    "a(1:5) = a(0:4)", "a(0:4) = a(1:5)", "a(1:5) = b(1:5) + a(5:1:-1)",
    "a(n:n+2) = a(n-1:n+1)", "a(n+1:n+3) = a(n+2:n+4)", "a(:) = b(:) * 2.0",
    "a(1:n) = b(1:n)", "a(2:8:2) = b(1:4)", "a(1:7:2) = a(2:8:2)", "a(2:8:2) = a(1:7:2)",
    "c(1:3,1) = c(1,1:3)", "c(1:3,1:3) = d(:,:)", "c(1:3,1:3) = c(0:2,1:3)",
    "c(:,1) = c(:,2) + c(:,0)", "c(1:3,2) = c(2,1:3) * 2.0",
    "a(1:3) = t", "a(1:3) = sum(b(1:3))", "a(1:3) = v(:) + w(:)", "e(:) = a(0:5)",
    "e(3:6) = e(2:5)", "a(1:3) = v", "a(1:4) = real(ia(:))", "v(:) = d(:,2) * w(:)",
    "a(1:3) = a(1:3) * a(2)", "a(1:3) = a(3:1:-1)", "ia(2:4) = ia(1:3)",
    "ia(1:3) = ia(2:4) + n", "d(:,:) = d(:,:) + 1.0", "d(1:2,:) = d(2:3,:)",
    "d(2:3,:) = d(1:2,:)", "a(m:m+2) = b(m:m+2) * a(0)", "a(0:2) = a(m:m+2)",
    "a(m:m+2) = a(0:2)", "v(:) = matmul(d(:,:), w(:))", "a(1:3) = abs(b(1:3) - 20.0)",
    "a(1:3) = max(b(1:3), a(2:4))",
    # full ranges in different dimension positions of arrays with different lower bounds
    "g(:) = c(1,:)", "c(2,:) = g(:)", "g(:) = c(:,3) + c(0,:)", "c(:,1) = g(:) * 2.0",
    "e(:) = b(2:7) + e(:)", "g(:) = a(3:7)", "c(:,0) = c(4,:)", "d(:,1) = v(:) + d(2,:)",
    "g(:) = h(1,:)", "h(2,:) = g(:)", "a(0:4) = h(3,:)", "v(:) = h(:,2)", "h(:,0) = v(:) + w(:)",
    "c(0,:) = h(2,:) * 2.0", "h(1,:) = c(:,1)",
    "p5(:) = h(1,:)", "p5(:) = h(2,:) + c(:,2)", "p5(:) = c(1,:) + g(:)", "a(1:5) = p5(:) + h(3,:)",
]
WHOLE = ["a = b + 1.0", "v = w * t", "t = sum(v)", "a = 0.0", "d = d * 2.0",
         "v = d(:,1)", "e = 1.0", "kout = size(a) + ubound(e, 1) + lbound(e, 1)",
         "t = maxval(v) + minval(w)", "v = v + w", "ia = ia + 1"]
INDEXED = ["a(1) = b(1) + 1.0", "c(1,2) = c(1,3) * 2.0", "a(n) = a(n) + b(n)",
           "d(2,2) = d(2,2) + v(2)", "a(1) = a(2)", "c(1,1) = a(1)"]
INTRINSIC = [
    "t = abs(t - 1.0)", "kout = abs(n - 2) + abs(-m)", "t = sign(t, a(1) - 17.0)",
    "t = sign(a(1), t)", "kout = sign(n, m - 2)", "t = max(a(1), b(1), 11.5)",
    "kout = min(n, m, 3)", "t = min(t, 0.25) + max(t, a(0))", "kout = max(n, m)",
    "t = dot_product(v, w)", "t = dot_product(v(:), w(:))", "t = dot_product(a(1:3), b(2:4))",
    "t = t + dot_product(d(:,1), v(:))", "t = dot_product(a(1:n), b(1:n))",
    "v = matmul(d, w)", "v(:) = matmul(d(:,:), w(:))", "a(1:3) = matmul(d, w)",
    "d = matmul(d, d)", "c(1:3,1:3) = matmul(d(:,:), d(:,:))", "v = matmul(d(:,:), d(:,1))",
    "t = sum(a)", "t = sum(a(1:n))", "t = sum(c)", "t = sum(c(1:2,1:3))",
    "t = sum(a, mask=a > 18.0)", "t = maxval(b(1:4))", "t = t + sum(v) * 2.0",
    "t = sum(c(:,1))", "t = product(v)", "t = minval(a(1:n))", "kout = sum(ia)",
    "kout = maxval(ia) - minval(ia)", "t = sum(v(:) * w(:))", "t = product(a(1:n))",
    "t = sum(abs(e))", "x = sum(v)", "t = maxval(a, mask=a < 19.0)", "kout = product(ia(1:n))",
    "t = sum(a(m:m+n))", "v(1) = sum(v)", "t = sum(d(:,m))",
    # the target element may alias an element used on the right-hand side (n == m)
    "a(n) = a(m) + sum(v)", "a(n) = a(m) * product(v)", "b(m) = maxval(w) + b(n)",
    "ia(n+1) = ia(m) + sum(ia)", "a(n) = sum(v) - a(m)", "c(n,m) = c(m,n) + sum(d)",
]


def items(tier):
    out = []
    for k, st in enumerate(ARRAY_ASSIGN):
        out.append((f"aa|{st}", prog([st])))
        out.append((f"aaloop|{st}", prog(["do j = 1, 2", "  " + st, "end do"])))
    for st in WHOLE:
        out.append((f"whole|{st}", prog([st])))
    for st in INDEXED:
        out.append((f"idx|{st}", prog([st])))
        out.append((f"idxloop|{st}", prog(["do j = 1, 2", "  " + st, "end do"])))
    for st in INTRINSIC:
        out.append((f"intr|{st}", prog(["x = 0.0", st, "t = t + x"])))
        out.append((f"intrif|{st}", prog(["x = 0.0", "if (n > 1) then", "  " + st, "end if",
                                          "t = t + x"])))
    return out


def _assignments(r):
    from psyclone.psyir.nodes import Assignment
    return r.walk(Assignment)


def _r2a_all(node):
    '''Reference2ArrayRangeTrans on every array Reference below node (refusals
    of individual references are fine).'''
    from psyclone.psyir.nodes import Reference, ArrayReference
    from psyclone.psyir.transformations import (Reference2ArrayRangeTrans,
                                                TransformationError)
    n = 0
    for ref in node.walk(Reference):
        if isinstance(ref, ArrayReference):
            continue
        try:
            Reference2ArrayRangeTrans().apply(ref)
            n += 1
        except TransformationError:
            pass
    return n


def apps(pid):
    from psyclone.psyir import transformations as T
    from psyclone.psyir.nodes import IntrinsicCall, Reference, ArrayReference, Assignment
    from psyclone.psyir.transformations import TransformationError
    fam = pid.split("|")[0]
    out = []

    def target_assign(r):
        asg = _assignments(r)
        return asg[-1] if fam in ("aa", "aaloop", "whole", "idx", "idxloop") else asg[1]

    if fam in ("aa", "aaloop", "whole"):
        out.append(("ArrayAssignment2LoopsTrans",
                    lambda r: T.ArrayAssignment2LoopsTrans().apply(target_assign(r))))

        def hist(r):
            a = target_assign(r)
            _r2a_all(a)
            T.ArrayAssignment2LoopsTrans().apply(a)
        out.append(("R2A+ArrayAssignment2LoopsTrans", hist))
    if fam in ("whole", "aa", "intr"):
        for k in range(3):
            def r2a(r, k=k):
                a = target_assign(r)
                refs = [x for x in a.walk(Reference) if not isinstance(x, ArrayReference)
                        and x.symbol.is_array]
                if k >= len(refs):
                    raise TransformationError("no such reference")
                T.Reference2ArrayRangeTrans().apply(refs[k])
            out.append((f"Reference2ArrayRangeTrans@{k}", r2a))
    if fam in ("idx", "idxloop", "aa"):
        out.append(("AllArrayAccess2LoopTrans",
                    lambda r: T.AllArrayAccess2LoopTrans().apply(target_assign(r))))
        for k in range(2):
            def aa2l(r, k=k):
                lhs = target_assign(r).lhs
                if not isinstance(lhs, ArrayReference) or k >= len(lhs.indices):
                    raise TransformationError("no such index")
                T.ArrayAccess2LoopTrans().apply(lhs.indices[k])
            out.append((f"ArrayAccess2LoopTrans@{k}", aa2l))
    if fam in ("intr", "intrif", "aa"):
        table = {"ABS": T.Abs2CodeTrans, "SIGN": T.Sign2CodeTrans, "MIN": T.Min2CodeTrans,
                 "MAX": T.Max2CodeTrans, "DOT_PRODUCT": T.DotProduct2CodeTrans,
                 "MATMUL": T.Matmul2CodeTrans, "SUM": T.Sum2LoopTrans,
                 "PRODUCT": T.Product2LoopTrans, "MINVAL": T.Minval2LoopTrans,
                 "MAXVAL": T.Maxval2LoopTrans}
        text = pid.upper()
        for name, cls in table.items():
            if name + "(" not in text:
                continue
            for k in range(text.count(name + "(")):
                def lower(r, name=name, cls=cls, k=k, pre=False):
                    calls = [c for c in target_assign(r).walk(IntrinsicCall)
                             if c.intrinsic.name == name]
                    if k >= len(calls):
                        raise TransformationError("no such call")
                    if pre:
                        _r2a_all(target_assign(r))
                    cls().apply(calls[k])
                out.append((f"{cls.__name__}@{k}", lower))
                out.append((f"R2A+{cls.__name__}@{k}",
                            lambda r, f=lower: f(r, pre=True)))
    return out


# ------------------------------------------------------------ known findings
def _sections_overlap(rec):
    '''the assignment's target array also occurs on the right-hand side with a
    different section'''
    import json
    for prog in rec["case"]["progs"][:1]:
        for st in _walk_stmts(prog["body"]):
            if st["k"] != "assign" or st["lhs"].get("k") != "aref":
                continue
            lhs = st["lhs"]
            for e in _walk_expr(st["rhs"]):
                if e.get("k") == "aref" and e["name"] == lhs["name"] and \
                        json.dumps(e["idx"], sort_keys=True) != json.dumps(lhs["idx"], sort_keys=True):
                    return True
    return False


def _walk_stmts(body):
    for s in body:
        yield s
        for key in ("body", "then", "else"):
            if key in s:
                yield from _walk_stmts(s[key])


def _walk_expr(e):
    if isinstance(e, dict):
        yield e
        for v in e.values():
            yield from _walk_expr(v)
    elif isinstance(e, list):
        for x in e:
            yield from _walk_expr(x)


def m_overlap(rec, clause, detail, finding):
    '''ArrayAssignment2LoopsTrans (also inside the reduction lowerings) turns an
    assignment whose right-hand side reads a different section of the target
    array into a forward element loop.'''
    # NoNewUndefined: the wrongly re-read elements can grow beyond the exact domain
    return clause in ("SameObservable", "NoNewUndefined") and \
        "ArrayAssignment2LoopsTrans" in rec["label"] and _sections_overlap(rec)


def _icalls(rec, names):
    for st in _walk_stmts(rec["case"]["progs"][0]["body"]):
        for e in _walk_expr(st):
            if e.get("k") == "icall" and e["name"] in names:
                yield st, e


def _array_valued(e, rec):
    arrays = {d["name"] for d in rec["case"]["decls"] if d["dims"]}
    return any(x.get("k") == "range" or (x.get("k") == "ref" and x["name"] in arrays)
               for x in _walk_expr(e))


def m_strided(rec, clause, detail, finding):
    '''ArrayAssignment2LoopsTrans maps RHS sections to the LHS loop variable by a
    constant offset only: sections whose strides differ are indexed wrongly.'''
    if "ArrayAssignment2LoopsTrans" not in rec["label"] or clause != "SameObservable":
        return False
    steps = set()
    for st in _walk_stmts(rec["case"]["progs"][0]["body"]):
        if st["k"] == "assign":
            for x in _walk_expr(st):
                if x.get("k") == "range":
                    stp = x["st"]
                    steps.add(stp["v"] if stp.get("k") == "lit" else str(stp))
    return len(steps) > 1


def m_elemental_array_arg(rec, clause, detail, finding):
    '''ABS/SIGN/MIN/MAX lowering accepts a call whose argument is array-valued
    (a section) and assigns it to a scalar temporary.'''
    tr = rec["label"].split("+")[-1].split("@")[0]
    names = {"Abs2CodeTrans": "ABS", "Sign2CodeTrans": "SIGN", "Min2CodeTrans": "MIN",
             "Max2CodeTrans": "MAX"}
    if tr not in names:
        return False
    return any(_array_valued(e["args"], rec) for _, e in _icalls(rec, {names[tr]}))


def m_reduction_into_own_array(rec, clause, detail, finding):
    '''SUM/PRODUCT/MINVAL/MAXVAL lowering accumulates directly into the
    assignment target although the target is an element of the reduced array.'''
    tr = rec["label"].split("+")[-1].split("@")[0]
    names = {"Sum2LoopTrans": "SUM", "Product2LoopTrans": "PRODUCT",
             "Minval2LoopTrans": "MINVAL", "Maxval2LoopTrans": "MAXVAL"}
    if tr not in names or clause != "SameObservable":
        return False
    for st, e in _icalls(rec, {names[tr]}):
        if st["k"] == "assign" and st["lhs"].get("name") in \
                {x.get("name") for x in _walk_expr(e["args"]) if x.get("k") in ("ref", "aref")}:
            return True
    return False


MATCHERS = {"overlapping-sections-forward-loop": m_overlap,
            "elemental-intrinsic-array-argument": m_elemental_array_arg,
            "reduction-into-own-array": m_reduction_into_own_array,
            "section-stride-mismatch": m_strided}


def run(tier):
    core.setup_psyclone_env()
    out = core.Outcome("C06", tier, "model_checking", matchers=MATCHERS)
    dom, fills = DOM, FILLS
    if tier != "quick":
        dom = [("n", [0, 1, 2, 3, 4]), ("m", [1, 2, 3]), ("kout", [7, -2]),
               ("t", [[1, 2], [-3, 1], [0, 1]])]
        fills = [1, 2, 3, 4]
    fam = sem.TransFamily("C06", dom=dom, fills=fills, live=LIVE, apps=apps)
    its = items(tier)
    results = sem.build_family(fam, its)
    cov = sem.judge_family(out, results, MATCHERS)
    cov["rule"] = ("one case = (generated routine, lowering transformation or short history, "
                   "target); non-trivial = accepted and the original is defined on at least one "
                   "input")
    return out.finish(cov, assumptions=[
        "exact rational arithmetic (no signed zeros / NaN / rounding, as the property states)",
        "observables: all dummy arguments", "exporter pv.export trusted, fails closed"])
