'''Shared by C02 and C17: the abstract expression tree exchanged with
FortranExpr.tla (JSON), PSyIR construction from a tree, projection of PSyIR
onto a tree, and the (trusted, small) tokenizer of written Fortran text.

Tree (JSON objects, same shape as the records of FortranExpr.tla):
  {"k":"lit","ty":int|real|logical|char,"v":text,"kd":kind}
  {"k":"ref","n":name}
  {"k":"des","parts":[{"n":name,"ix":0|1,"args":[tree,...]},...]}
  {"k":"un","op":"+"|"-"|".not.","x":tree}
  {"k":"bin","op":sym,"l":tree,"r":tree}
A signed PSyIR literal Literal("-3") is the tree un("-", lit "3"): Fortran has
no signed literal in expressions, `-3` is a level-2 expression.
'''
import re


def lit(ty, v, kd=""):
    return {"k": "lit", "ty": ty, "v": v, "kd": kd}


def ref(n):
    return {"k": "ref", "n": n}


def part(n, args=None):
    return {"n": n, "ix": 0 if args is None else 1, "args": list(args or [])}


def des(*parts):
    parts = list(parts)
    if len(parts) == 1 and parts[0]["ix"] == 0:
        return ref(parts[0]["n"])
    return {"k": "des", "parts": parts}


def call(n, *args):
    return des(part(n, args))


def un(op, x):
    return {"k": "un", "op": op, "x": x}


def bn(op, l, r):
    return {"k": "bin", "op": op, "l": l, "r": r}


def show(t):
    '''Fully parenthesised rendering of a tree (for messages and samples).'''
    k = t["k"]
    if k == "lit":
        if t["ty"] == "char":
            return (t["kd"] + "_" if t["kd"] else "") + "'" + t["v"] + "'"
        if t["ty"] == "logical":
            return "." + t["v"] + "." + ("_" + t["kd"] if t["kd"] else "")
        if t["kd"] == "d":
            return t["v"].replace("e", "d") if "e" in t["v"] else t["v"] + "d0"
        return t["v"] + ("_" + t["kd"] if t["kd"] else "")
    if k == "ref":
        return t["n"]
    if k == "des":
        return "%".join(p["n"] + ("(" + ", ".join(show(a) for a in p["args"]) + ")"
                                  if p["ix"] else "") for p in t["parts"])
    if k == "un":
        return "(" + t["op"] + show(t["x"]) + ")"
    if k == "bin":
        return "(" + show(t["l"]) + " " + t["op"] + " " + show(t["r"]) + ")"
    return "<" + str(t) + ">"


def walk(t, parent=None, slot=None):
    '''Yield (node, parent, slot) for every operator/leaf node of a tree.'''
    yield t, parent, slot
    k = t["k"]
    if k == "un":
        yield from walk(t["x"], t, "x")
    elif k == "bin":
        yield from walk(t["l"], t, "l")
        yield from walk(t["r"], t, "r")
    elif k == "des":
        for p in t["parts"]:
            for a in p["args"]:
                yield from walk(a, t, "arg")


def norm_real(v):
    '''Canonical spelling of a real literal's digits: exponent without `+` and
    leading zeros, a zero exponent dropped (1.5e0, 1.5e+00 and 1.5 spell the
    same value; the kind is carried separately).'''
    v = v.lower()
    if "e" not in v:
        return v
    mant, exp = v.split("e", 1)
    sign = "-" if exp.startswith("-") else ""
    digits = exp.lstrip("+-").lstrip("0")
    if not digits:
        return mant
    return mant + "e" + sign + digits


# ----------------------------------------------------------------- tokenizer
_REL = {".eq.": "==", ".ne.": "/=", ".lt.": "<", ".le.": "<=", ".gt.": ">",
        ".ge.": ">="}
_TOK = re.compile(r"""
    (?P<ws>\s+)
  | (?P<char>(?:(?P<ckind>[a-z_]\w*|\d+)_)?(?:'(?P<sq>(?:[^']|'')*)'|"(?P<dq>(?:[^"]|"")*)"))
  | (?P<logical>\.(?P<lv>true|false)\.(?:_(?P<lkind>\w+))?)
  | (?P<dotop>\.(?:and|or|not|eqv|neqv|eq|ne|lt|le|gt|ge)\.)
  | (?P<real>(?:\d+\.(?![a-z]+\.)\d*|\.\d+)(?:(?P<el>[ed])(?P<ex>[+-]?\d+))?(?:_(?P<rkind>\w+))?
             |\d+(?P<el2>[ed])(?P<ex2>[+-]?\d+)(?:_(?P<rkind2>\w+))?)
  | (?P<int>\d+(?:_(?P<ikind>\w+))?)
  | (?P<id>[a-z]\w*)
  | (?P<op>\*\*|//|==|/=|<=|>=|<|>|\+|-|\*|/)
  | (?P<lp>\()
  | (?P<rp>\))
  | (?P<cm>,)
  | (?P<pc>%)
  | (?P<bad>.)
""", re.X | re.I)


def tokenize(text):
    '''Fortran expression text -> token list for FortranExpr!Parse.  Case is
    folded (Fortran is case-insensitive outside character context); `.EQ.`
    style relational operators are the same operators as `==` (F2008 7.1.5.5)
    and a `d` exponent letter is reported as kind "d".'''
    out = []
    for m in _TOK.finditer(text):
        if m.group("ws") is not None:
            continue
        if m.group("char") is not None:
            body = m.group("sq") if m.group("sq") is not None else m.group("dq")
            out.append(["lit", "char", body, (m.group("ckind") or "").lower()])
        elif m.group("logical") is not None:
            out.append(["lit", "logical", m.group("lv").lower(),
                        (m.group("lkind") or "").lower()])
        elif m.group("dotop") is not None:
            s = m.group("dotop").lower()
            out.append(["op", _REL.get(s, s)])
        elif m.group("real") is not None:
            txt = m.group("real").lower()
            kind = m.group("rkind") or m.group("rkind2") or ""
            if kind:
                txt = txt[:-(len(kind) + 1)]
            letter = (m.group("el") or m.group("el2") or "").lower()
            if letter == "d":
                txt = txt.replace("d", "e", 1)
                kind = kind or "d"
            out.append(["lit", "real", norm_real(txt), kind.lower()])
        elif m.group("int") is not None:
            kind = m.group("ikind") or ""
            txt = m.group("int")
            if kind:
                txt = txt[:-(len(kind) + 1)]
            out.append(["lit", "int", txt, kind.lower()])
        elif m.group("id") is not None:
            out.append(["id", m.group("id").lower()])
        elif m.group("op") is not None:
            out.append(["op", m.group("op")])
        elif m.group("lp") is not None:
            out.append(["lp", "("])
        elif m.group("rp") is not None:
            out.append(["rp", ")"])
        elif m.group("cm") is not None:
            out.append(["cm", ","])
        elif m.group("pc") is not None:
            out.append(["pc", "%"])
        else:
            out.append(["bad", m.group("bad")])
    return out


# ------------------------------------------------------- PSyIR <-> tree
class Unsupported(Exception):
    '''A node kind or attribute outside the abstraction.'''


_CTX = {}


def ctx():
    '''Symbols used by the generated expressions (one table per process).'''
    if _CTX:
        return _CTX
    from psyclone.psyir.symbols import (
        SymbolTable, DataSymbol, REAL_TYPE, INTEGER_TYPE, BOOLEAN_TYPE,
        CHARACTER_TYPE, ArrayType, StructureType, DataTypeSymbol, Symbol,
        RoutineSymbol, ScalarType)
    tab = SymbolTable()
    syms = {}

    def add(name, dtype, **kw):
        s = DataSymbol(name, dtype, **kw)
        tab.add(s)
        syms[name] = s
        return s
    for n in "abcdefgh":
        add(n, REAL_TYPE)
    add("x1", REAL_TYPE)
    for n in ("i", "j", "k", "m", "n"):
        add(n, INTEGER_TYPE)
    for n in ("p", "q", "r", "s", "t", "u", "v", "w"):
        add("l" + n, BOOLEAN_TYPE)
    for n in ("c1", "c2"):
        add(n, CHARACTER_TYPE)
    add("wp", INTEGER_TYPE, is_constant=True, initial_value=8)
    add("i_def", INTEGER_TYPE, is_constant=True, initial_value=4)
    add("xa", ArrayType(REAL_TYPE, [10]))
    add("ia", ArrayType(INTEGER_TYPE, [10]))
    add("m2", ArrayType(REAL_TYPE, [10, 10]))
    tsub = StructureType.create([("y", REAL_TYPE, Symbol.Visibility.PUBLIC, None),
                                 ("w", ArrayType(REAL_TYPE, [10]),
                                  Symbol.Visibility.PUBLIC, None)])
    tsub_sym = DataTypeSymbol("t_sub", tsub)
    tab.add(tsub_sym)
    ttyp = StructureType.create([("x", REAL_TYPE, Symbol.Visibility.PUBLIC, None),
                                 ("v", ArrayType(REAL_TYPE, [10]),
                                  Symbol.Visibility.PUBLIC, None),
                                 ("sub", tsub_sym, Symbol.Visibility.PUBLIC, None),
                                 ("subs", ArrayType(tsub_sym, [10]),
                                  Symbol.Visibility.PUBLIC, None)])
    ttyp_sym = DataTypeSymbol("t_typ", ttyp)
    tab.add(ttyp_sym)
    add("st", ttyp_sym)
    add("sa", ArrayType(ttyp_sym, [10]))
    fn = RoutineSymbol("fn", REAL_TYPE)
    tab.add(fn)
    syms["fn"] = fn
    _CTX.update(tab=tab, syms=syms, ScalarType=ScalarType)
    return _CTX


_BIN = None
_UN = None


def _ops():
    global _BIN, _UN
    if _BIN is None:
        from psyclone.psyir.nodes import BinaryOperation as B, UnaryOperation as U
        _BIN = {"+": B.Operator.ADD, "-": B.Operator.SUB, "*": B.Operator.MUL,
                "/": B.Operator.DIV, "**": B.Operator.POW, "==": B.Operator.EQ,
                "/=": B.Operator.NE, ">": B.Operator.GT, "<": B.Operator.LT,
                ">=": B.Operator.GE, "<=": B.Operator.LE, ".and.": B.Operator.AND,
                ".or.": B.Operator.OR, ".eqv.": B.Operator.EQV,
                ".neqv.": B.Operator.NEQV}
        _UN = {"-": U.Operator.MINUS, "+": U.Operator.PLUS, ".not.": U.Operator.NOT}
    return _BIN, _UN


def _littype(t):
    from psyclone.psyir.symbols import ScalarType
    c = ctx()
    intr = {"int": ScalarType.Intrinsic.INTEGER, "real": ScalarType.Intrinsic.REAL,
            "logical": ScalarType.Intrinsic.BOOLEAN,
            "char": ScalarType.Intrinsic.CHARACTER}[t["ty"]]
    kd = t["kd"]
    if kd == "":
        prec = ScalarType.Precision.UNDEFINED
    elif kd == "d":
        prec = ScalarType.Precision.DOUBLE
    elif kd == "s":
        prec = ScalarType.Precision.SINGLE
    elif kd.isdigit():
        prec = int(kd)
    else:
        prec = c["syms"][kd]
    return ScalarType(intr, prec)


def build(t, signed_literals=False):
    '''Tree -> fresh, detached PSyIR expression.  With signed_literals a
    un("-", lit) subtree marked {"sl":1} becomes one signed Literal.'''
    from psyclone.psyir.nodes import (
        Literal, Reference, ArrayReference, BinaryOperation, UnaryOperation,
        IntrinsicCall, Call, StructureReference, ArrayOfStructuresReference)
    c = ctx()
    binops, unops = _ops()
    k = t["k"]
    if k == "lit":
        return Literal(t["v"], _littype(t))
    if k == "ref":
        return Reference(c["syms"][t["n"]])
    if k == "un":
        if t.get("sl") and t["x"]["k"] == "lit":
            return Literal(t["op"] + t["x"]["v"], _littype(t["x"]))
        return UnaryOperation.create(unops[t["op"]], build(t["x"]))
    if k == "bin":
        return BinaryOperation.create(binops[t["op"]], build(t["l"]), build(t["r"]))
    if k == "des":
        parts = t["parts"]
        first = parts[0]
        args = [build(a) for a in first["args"]]
        if len(parts) == 1:
            name = first["n"]
            sym = c["syms"].get(name)
            if sym is None:
                return IntrinsicCall.create(IntrinsicCall.Intrinsic[name.upper()], args)
            if name == "fn":
                return Call.create(sym, args)
            return ArrayReference.create(sym, args)
        members = []
        for p in parts[1:]:
            if p["ix"]:
                members.append((p["n"], [build(a) for a in p["args"]]))
            else:
                members.append(p["n"])
        sym = c["syms"][first["n"]]
        if first["ix"]:
            return ArrayOfStructuresReference.create(sym, args, members)
        return StructureReference.create(sym, members)
    raise Unsupported("tree kind " + str(k))


_BINR = None


def abstract(node):
    '''PSyIR expression -> tree; raises Unsupported for anything outside the
    abstraction (the case is then counted, never approximated).'''
    from psyclone.psyir.nodes import (
        Literal, Reference, ArrayReference, BinaryOperation, UnaryOperation,
        IntrinsicCall, Call, StructureReference, ArrayOfStructuresReference,
        Member, ArrayMember, StructureMember, ArrayOfStructuresMember, Range)
    from psyclone.psyir.symbols import ScalarType, DataSymbol
    global _BINR
    binops, unops = _ops()
    if _BINR is None:
        _BINR = ({v: k for k, v in binops.items()}, {v: k for k, v in unops.items()})
    if isinstance(node, Literal):
        dt = node.datatype
        if not isinstance(dt, ScalarType):
            raise Unsupported("array literal")
        ty = {ScalarType.Intrinsic.INTEGER: "int", ScalarType.Intrinsic.REAL: "real",
              ScalarType.Intrinsic.BOOLEAN: "logical",
              ScalarType.Intrinsic.CHARACTER: "char"}[dt.intrinsic]
        p = dt.precision
        if isinstance(p, DataSymbol):
            kd = p.name.lower()
        elif isinstance(p, int):
            kd = str(p)
        elif p == ScalarType.Precision.DOUBLE:
            kd = "d"
        else:
            # Precision.SINGLE and UNDEFINED: a default-kind constant
            kd = ""
        v = node.value
        if ty in ("int", "real"):
            v = v.lower()
            sign = ""
            if v[0] in "+-":
                sign, v = v[0], v[1:]
            leaf = lit(ty, norm_real(v) if ty == "real" else v, kd)
            return un(sign, leaf) if sign else leaf
        return lit(ty, v, kd)
    if isinstance(node, BinaryOperation):
        if node.operator not in _BINR[0]:
            raise Unsupported("operator " + str(node.operator))
        return bn(_BINR[0][node.operator], abstract(node.children[0]),
                  abstract(node.children[1]))
    if isinstance(node, UnaryOperation):
        return un(_BINR[1][node.operator], abstract(node.children[0]))
    if isinstance(node, IntrinsicCall):
        if any(node.argument_names):
            raise Unsupported("named argument")
        return call(node.intrinsic.name.lower(),
                    *[abstract(a) for a in node.arguments])
    if isinstance(node, Call):
        if any(node.argument_names):
            raise Unsupported("named argument")
        return call(node.routine.name.lower(), *[abstract(a) for a in node.arguments])
    if isinstance(node, (StructureReference, ArrayOfStructuresReference)):
        parts = []
        cur = node
        name = node.symbol.name.lower()
        while True:
            if isinstance(cur, (ArrayOfStructuresReference, ArrayMember,
                                ArrayOfStructuresMember)):
                idx = cur.indices
                if any(isinstance(i, Range) for i in idx):
                    raise Unsupported("array section")
                parts.append(part(name, [abstract(i) for i in idx]))
            else:
                parts.append(part(name))
            if isinstance(cur, (StructureReference, StructureMember)) or \
                    isinstance(cur, (ArrayOfStructuresReference,
                                     ArrayOfStructuresMember)):
                cur = cur.member
                name = cur.name.lower()
                continue
            break
        return des(*parts)
    if isinstance(node, ArrayReference):
        if any(isinstance(i, Range) for i in node.indices):
            raise Unsupported("array section")
        return call(node.symbol.name.lower(), *[abstract(i) for i in node.indices])
    if isinstance(node, Reference):
        return ref(node.symbol.name.lower())
    raise Unsupported(type(node).__name__)
