'''C23 - LFRic shared-DoF increments are only parallelised over colours.

1. design level: LFRicSched.tla (abstract invoke schedules, the transformation
   alphabet with its intended *local* validation, the global ColourRule) is
   model-checked over a family of one- and two-kernel invokes.
2. binding A (spec -> code): TLC dumps every transition (state, operation,
   intended outcome) reachable from the schedules projected from real LFRic
   invokes; every transition is replayed on the REAL schedule with the real
   transformations (path to the state, then the operation - also the ones the
   specification refuses).
3. binding B (code -> spec): after every accepted step the PSy layer is
   GENERATED, itemised (c23_item) into the abstract tree and handed to TLC
   (Trace_LFRicSched.tla), which decides ColourRule per case and whether the
   step is one LFRicSched!Intended allows (else: divergence, counted).
A refusal, or a refusal at code generation, produces nothing to judge.
'''
import json
import os
import shutil

from pv import core
from pv import c23_gen

TIERS = {
    # maxlen: accepted transformations per history, by (number of kernels,
    # distributed memory).  Distributed memory only adds RedundantComp and
    # halo exchanges between the loops: one step less in the quick tier.
    "quick": {"maxlen": {(1, False): 3, (1, True): 2, (2, False): 2,
                         (2, True): 2},
              "design": "LFRicSched_quick.cfg", "dump": "LFRicSched_dump.cfg"},
    "thorough": {"maxlen": {(1, False): 4, (1, True): 4, (2, False): 3,
                            (2, True): 3},
                 "design": "LFRicSched_thorough.cfg",
                 "dump": "LFRicSched_dump_thorough.cfg"},
}
INIT_OP = {"name": "Init", "tg": {"w": "", "k": 0, "k2": 0}, "opt": ""}


def canon(obj):
    return json.dumps(obj, sort_keys=True, separators=(",", ":"))


def op_text(op):
    tg = op["tg"]
    where = {"main": f"loop of kernel {tg['k']}",
             "colours": f"colours loop of kernel {tg['k']}",
             "inner": f"statement inside the colours loop of kernel {tg['k']}",
             "top": f"top-level statements of kernels {tg['k']}..{tg['k2']}",
             "": ""}[tg["w"]]
    return op["name"] + (f"[{op['opt']}]" if op["opt"] else "") + \
        (f"({where})" if where else "")


# ------------------------------------------------------------ known findings
def _shared(arg):
    return (arg["acc"] in ("gh_inc", "gh_readinc")
            and arg["fs"] in ("continuous", "any_space"))


def match_readinc_not_coloured(case, clause, detail, finding):
    '''An uncoloured loop over all cells is marked parallel although its
    kernels increment shared DoFs - and every such increment is a gh_readinc:
    no kernel of the loop has a gh_inc argument at all (PSyLoop.has_inc_arg
    answers False).'''
    if clause != "SharedIncNotColoured":
        return False
    wits = [w for w in detail["witnesses"] if w["v"] == clause]
    if not wits:
        return False
    for w in wits:
        if w["t"] != "cells" or not w["kerns"]:
            return False
        args = [a for k in w["kerns"] for a in case["kerns"][k - 1]["args"]]
        if any(a["acc"] == "gh_inc" for a in args):
            return False
        if not any(_shared(a) and a["acc"] == "gh_readinc" for a in args):
            return False
    return True


def match_colours_in_acc_region(case, clause, detail, finding):
    '''A loop over colours stands inside OpenACC constructs only (an `acc
    parallel` region and/or an `acc loop` asserting concurrency); no OpenMP
    directive encloses it.'''
    if clause != "ColoursInParallel":
        return False
    wits = [w for w in detail["witnesses"] if w["v"] == clause]
    if not wits:
        return False
    for w in wits:
        if w["t"] != "colours" or not w["encl"]:
            return False
        if not all(e in ("acc_parallel", "acc_loop", "acc_kernels")
                   for e in w["encl"]):
            return False
        if not any(e in ("acc_parallel", "acc_loop") for e in w["encl"]):
            return False
    return True


def match_readinc_disc_iteration_space(case, clause, detail, finding):
    '''`omp parallel do` stands directly on an uncoloured loop over all cells
    whose kernel (no gh_inc argument, a gh_readinc on a shared space) iterates
    over a DISCONTINUOUS space - its iteration-space argument (coarse field of
    an inter-grid kernel, written operator) is not the incremented one.'''
    if clause != "SharedIncNotColoured":
        return False
    wits = [w for w in detail["witnesses"] if w["v"] == clause]
    if not wits:
        return False
    disc = ("w3", "wtheta", "w2v", "w2vtrace", "w2broken")
    for w in wits:
        if w["t"] != "cells" or not w["kerns"] or not w["encl"]:
            return False
        if w["encl"][-1] != "omp_parallel_do":     # directly on the loop
            return False
        for k in w["kerns"]:
            args = case["kerns"][k - 1]["args"]
            space = case["kernels"][k - 1].get("loop_space", "")
            if not (space in disc
                    or space.startswith("any_discontinuous_space_")):
                return False
            if any(a["acc"] == "gh_inc" for a in args):
                return False
            if not any(_shared(a) and a["acc"] == "gh_readinc" for a in args):
                return False
    return True


MATCHERS = {"c23_readinc_not_coloured": match_readinc_not_coloured,
            "c23_readinc_disc_iteration_space":
                match_readinc_disc_iteration_space,
            "c23_colours_in_acc_region": match_colours_in_acc_region}


# ------------------------------------------------------------------- helpers
def design_check(tier, cov):
    res = core.run_tlc("LFRicSched.tla", TIERS[tier]["design"], check=False,
                       coverage=(tier != "quick"), timeout=3000)
    if res.invariant_violated or res.error or not res.distinct:
        raise core.MachineryError(
            "LFRicSched.tla does not satisfy its own invariants: "
            + str(res.invariant_violated or res.error or res.out[-500:]))
    cov["model_states"] = res.distinct
    cov["model_transitions"] = res.generated
    cov["states"] += res.distinct
    cov["transitions"] += res.generated


def initial_schedules(tier, cov, procs, only=None):
    '''-> (inits [{"kerns","dm","sched","maxlen"}], members per init)'''
    files = [f for f in (only or c23_gen.corpus(tier)) if f in c23_gen.INFO]
    members = [(f, dm, 0) for f in files for dm in (False, True)]
    results = core.pool_map(c23_gen.work_init, members, procs=procs,
                            chunksize=1)
    inits, groups, index = [], [], {}
    for r in results:
        cov["members"] += 1
        if r["status"] != "ok":
            cov["members_without_product"] += 1
            cov["member_notes"].append({"member": r["member"],
                                        "status": r["status"],
                                        "why": r.get("why")})
            continue
        nk = len(r["kerns"])
        if (nk, r["member"][1]) not in TIERS[tier]["maxlen"]:
            cov["members_without_product"] += 1
            cov["member_notes"].append({"member": r["member"],
                                        "status": "outside the family",
                                        "why": f"{nk} kernels"})
            continue
        key = canon([r["kerns"], r["member"][1], r["sched"]])
        if key not in index:
            index[key] = len(inits)
            inits.append({"kerns": r["kerns"], "dm": r["member"][1],
                          "sched": r["sched"],
                          "maxlen": TIERS[tier]["maxlen"][(nk, r["member"][1])]})
            groups.append([])
        groups[index[key]].append(r)
    return inits, groups


def dump_transitions(tier, inits, tmp, cov, workers=None):
    '''Run the history generator.  -> per init: {state key: {"state", "ops":
    {op key: {"op","res","to"}}}}'''
    path = os.path.join(tmp, "init.json")
    with open(path, "w") as f:
        json.dump(inits, f, separators=(",", ":"))
    res = core.run_tlc("LFRicSched.tla", TIERS[tier]["dump"],
                       env={"PV_INIT": path}, workers=workers, check=False,
                       timeout=3000)
    if res.invariant_violated or res.error or not res.distinct:
        raise core.MachineryError(
            "LFRicSched.tla (history generator) failed: "
            + str(res.invariant_violated or res.error or res.out[-500:]))
    cov["states"] += res.distinct
    cov["transitions"] += res.generated
    cov["generator_states"] = res.distinct
    graphs = [dict() for _ in inits]
    nlines = 0
    for t in res.printed("TRANS"):
        nlines += 1
        g = graphs[t["iid"] - 1]
        skey = canon(t["from"])
        node = g.setdefault(skey, {"state": t["from"], "ops": {}})
        okey = canon(t["op"])
        cur = node["ops"].get(okey)
        if cur is None or t["res"] == "ok":
            node["ops"][okey] = {"op": t["op"], "res": t["res"],
                                 "to": t["to"]}
    cov["generator_transitions_printed"] = nlines
    return graphs


def bfs(init, graph):
    '''Shortest accepted history to every state with outgoing transitions.'''
    root = canon(init["sched"])
    paths = {root: []}
    order = [root]
    i = 0
    while i < len(order):
        skey = order[i]
        i += 1
        node = graph.get(skey)
        if node is None:
            continue
        for okey in sorted(node["ops"]):
            t = node["ops"][okey]
            if t["res"] != "ok":
                continue
            tkey = canon(t["to"])
            if tkey not in paths:
                paths[tkey] = paths[skey] + [t["op"]]
                order.append(tkey)
    return paths, order


def validate(cases, tmp, cov, workers=None, tag="cases"):
    '''TLC decides every case.  -> ({case index: witnesses}, {index: kind})'''
    path = os.path.join(tmp, tag + ".json")
    with open(path, "w") as f:
        json.dump({"cases": [dict(c, id=i + 1) for i, c in enumerate(cases)]},
                  f, separators=(",", ":"))
    res = core.run_tlc("Trace_LFRicSched.tla", "Trace_LFRicSched.cfg",
                       env={"PV_CASES": path}, workers=workers, timeout=3000)
    os.unlink(path)
    if res.distinct != 2 * len(cases):
        raise core.MachineryError(
            f"C23 trace validation did not consume every case: TLC visited "
            f"{res.distinct} states, expected {2 * len(cases)}")
    cov["states"] += res.distinct
    cov["transitions"] += res.generated
    cov["tlc_trace_wall_s"] = round(cov.get("tlc_trace_wall_s", 0) + res.wall, 1)
    bad = {b["id"] - 1: sorted(b["ws"], key=canon)
           for b in res.printed("VERDICT")}
    div = {d["id"] - 1: d["kind"] + "/model-" + d["model"]
           for d in res.printed("DIVERGE")}
    return bad, div


def run(tier, files=None, procs=None):
    core.setup_psyclone_env()
    if files is None and os.environ.get("PV_C23_FILES"):
        # restricted corpus (binding demonstrations)
        files = [f for f in os.environ["PV_C23_FILES"].split(",") if f]
    out = core.Outcome("C23", tier, "model_checking", matchers=MATCHERS)
    cov = {"states": 0, "transitions": 0, "traces_validated_against_impl": 0,
           "samples": [], "evaluations": 0, "distinct_nontrivial": 0,
           "exhaustive": True, "divergences": 0, "unsupported": 0,
           "members": 0, "members_without_product": 0, "member_notes": [],
           "initial_schedules": 0, "model_transitions_replayed": 0,
           "real_accepted": 0, "real_refused": 0, "real_no_target": 0,
           "refused_at_code_generation": 0, "real_crashed": 0,
           "refused_but_schedule_changed": 0,
           "model_ok_real_refused": 0, "model_refused_real_accepted": 0,
           "divergence_kinds": {}, "codegen_refusal_samples": [],
           "unsupported_samples": [], "crash_samples": [],
           "refused_changed_samples": [], "model_ok_real_refused_reasons": {}}
    import time
    phase = cov["phase_wall_s"] = {}
    t0 = time.time()
    # 1. design level
    if os.environ.get("PV_C23_NO_DESIGN"):
        cov["design_check_skipped"] = True     # binding demonstrations only
    else:
        design_check(tier, cov)
    phase["design"] = round(time.time() - t0, 1)
    tmp = core.mktemp("pv-c23-")
    try:
        # 2. the real invokes and the history generator
        import psyclone.parse.algorithm      # noqa (before forking)
        import psyclone.psyGen               # noqa
        import psyclone.transformations      # noqa
        import psyclone.dynamo0p3            # noqa: F401
        t0 = time.time()
        rejected = c23_gen.load(files or c23_gen.corpus(tier), tmp)
        if rejected:
            raise core.MachineryError("corpus files rejected by PSyclone: "
                                      + str(rejected))
        inits, groups = initial_schedules(tier, cov, procs, files)
        if not inits:
            raise core.MachineryError("no initial schedule could be projected")
        cov["initial_schedules"] = len(inits)
        phase["parse+initial"] = round(time.time() - t0, 1)
        t0 = time.time()
        graphs = dump_transitions(tier, inits, tmp, cov)
        phase["generator"] = round(time.time() - t0, 1)
        t0 = time.time()
        # 3. replay every transition on every member
        jobs = []
        table = []          # transition id -> (init idx, state key, op key)
        for ii, (init, graph) in enumerate(zip(inits, graphs)):
            paths, order = bfs(init, graph)
            for skey in order:
                node = graph.get(skey)
                if node is None:
                    continue
                # operations the specification refuses first: a real refusal
                # leaves the schedule usable for the next one
                okeys = sorted(node["ops"],
                               key=lambda k: (node["ops"][k]["res"] == "ok", k))
                for r in groups[ii]:
                    ops = []
                    for okey in okeys:
                        ops.append((len(table), node["ops"][okey]["op"]))
                        table.append((ii, skey, okey, r["member"]))
                    jobs.append((r["member"], skey, paths[skey], ops))
        # longest jobs first
        jobs.sort(key=lambda j: -len(j[3]) * (1 + len(j[2])))
        results = core.pool_map(c23_gen.work_state, jobs, procs=procs)
        phase["replay"] = round(time.time() - t0, 1)
        t0 = time.time()
        cases, origins, index = [], [], {}

        def add_case(case, origin):
            key = canon(case)
            if key not in index:
                index[key] = len(cases)
                cases.append(case)
                origins.append([])
            origins[index[key]].append(origin)

        detail_of = {}
        for ii, grp in enumerate(groups):
            for r in grp:
                detail_of[tuple(r["member"])] = (r["invoke"], r["detail"])
                add_case({"kerns": inits[ii]["kerns"], "dm": inits[ii]["dm"],
                          "from": inits[ii]["sched"], "op": INIT_OP,
                          "post": r["sched"]},
                         {"member": r["member"], "history": []})
        for res in results:
            for t in res["trans"]:
                ii, skey, okey, member = table[t["tid"]]
                cov["model_transitions_replayed"] += 1
                node = graphs[ii][skey]
                mt = node["ops"][okey]
                kind = t["res"]
                if kind == "notarget":
                    cov["real_no_target"] += 1
                    continue
                if kind in ("refused", "refused-changed"):
                    cov["real_refused"] += 1
                    if kind == "refused-changed":
                        cov["refused_but_schedule_changed"] += 1
                        if len(cov["refused_changed_samples"]) < 3:
                            cov["refused_changed_samples"].append(
                                {"member": member, "op": op_text(mt["op"]),
                                 "history": [op_text(o) for o in jobs_path(
                                     jobs, member, skey)], "why": t["why"]})
                    if mt["res"] == "ok":
                        cov["model_ok_real_refused"] += 1
                        why = t["why"][-70:]
                        cov["model_ok_real_refused_reasons"][why] = \
                            cov["model_ok_real_refused_reasons"].get(why, 0) + 1
                    continue
                if kind == "crashed":
                    cov["real_crashed"] += 1
                    if len(cov["crash_samples"]) < 4:
                        cov["crash_samples"].append(
                            {"member": member, "op": op_text(mt["op"]),
                             "why": t["why"]})
                    continue
                cov["real_accepted"] += 1
                if mt["res"] != "ok":
                    cov["model_refused_real_accepted"] += 1
                if kind == "generr":
                    cov["refused_at_code_generation"] += 1
                    if len(cov["codegen_refusal_samples"]) < 6 and t["why"] \
                            not in [x["why"] for x in
                                    cov["codegen_refusal_samples"]]:
                        cov["codegen_refusal_samples"].append(
                            {"member": member, "op": op_text(mt["op"]),
                             "history": [op_text(o) for o in jobs_path(
                                 jobs, member, skey)],
                             "why": t["why"]})
                    continue
                if kind == "unsupported":
                    cov["unsupported"] += 1
                    if len(cov["unsupported_samples"]) < 5:
                        cov["unsupported_samples"].append(
                            {"member": member, "op": op_text(mt["op"]),
                             "why": t["why"]})
                    continue
                hist = jobs_path(jobs, member, skey) + [mt["op"]]
                add_case({"kerns": inits[ii]["kerns"], "dm": inits[ii]["dm"],
                          "from": node["state"], "op": mt["op"],
                          "post": t["post"]},
                         {"member": member, "history": hist})
        produced = cov["real_accepted"] - cov["refused_at_code_generation"]
        if cov["unsupported"] > 0.2 * max(1, produced):
            raise core.MachineryError(
                f"{cov['unsupported']} of {produced} generated layers could "
                f"not be itemised: {cov['unsupported_samples']}")
        cov["traces_validated_against_impl"] = sum(len(o) for o in origins)
        cov["distinct_nontrivial"] = len(cases)
        cov["evaluations"] = len(cases)
        # 4. TLC decides
        bad, div = validate(cases, tmp, cov)
        phase["trace"] = round(time.time() - t0, 1)
    finally:
        shutil.rmtree(tmp, ignore_errors=True)
    for idx in sorted(set(div) - set(bad)):
        cov["divergences"] += len(origins[idx])
        cov["divergence_kinds"][div[idx]] = \
            cov["divergence_kinds"].get(div[idx], 0) + len(origins[idx])
        if "divergence_sample" not in cov and div[idx].startswith("effect"):
            cov["divergence_sample"] = {
                "origin": describe(origins[idx][0], detail_of),
                "kind": div[idx], "from": cases[idx]["from"],
                "post": cases[idx]["post"]}
    cov["failing_cases"] = len(bad)
    for idx in sorted(bad):
        wits = bad[idx]
        origs = sorted(origins[idx], key=lambda o: (len(o["history"]),
                                                    canon(o)))
        first = describe(origs[0], detail_of)
        case = {"file": first["file"], "dm": first["dm"],
                "invoke": first["invoke"], "history": first["history"],
                "ops": origs[0]["history"], "kernels": first["kernels"],
                "kerns": cases[idx]["kerns"], "post": cases[idx]["post"],
                "n_origins": len(origs),
                "how_to_rerun": "PYTHONPATH=/verif/harness /venv/bin/python "
                                "-m pv.c23 replay <this file>"}
        for clause in sorted({w["v"] for w in wits}):
            out.violation(case, clause,
                          {"witnesses": wits,
                           "other_origins": [describe(o, detail_of)
                                             for o in origs[1:4]]})
    for i in (0, len(cases) // 2, len(cases) - 1):
        cov["samples"].append({"origin": describe(origins[i][0], detail_of),
                               "n_origins": len(origins[i]),
                               "post": cases[i]["post"]})
    cov["rule"] = ("one evaluation = one distinct (kernel summaries, predicted "
                   "schedule, operation, schedule itemised from the code "
                   "generated after the accepted step) decided by TLC; "
                   "traces_validated_against_impl = accepted steps with a "
                   "generated product over all members, before de-duplication; "
                   "model_transitions_replayed = (member, state, operation) "
                   "triples applied to real schedules, refusals included")
    return out.finish(cov, assumptions=[
        "a loop is marked parallel by `omp do`, `omp parallel do`, by `acc loop` "
        "without seq inside `acc parallel`, and by `acc loop independent` "
        "inside `acc kernels`; `acc kernels` alone asserts nothing and is not "
        "a parallel region for the loop over colours",
        "parallel regions: `omp parallel`, `omp parallel do`, `acc parallel`; "
        "an `omp do` or asserting `acc loop` around a loop over colours counts too",
        "a loop inside a parallel region without a worksharing/loop directive "
        "is not 'marked parallel' (redundant execution is outside the property)",
        "`acc parallel` needs an `acc enter data` directive to generate code: "
        "the driver applies ACCEnterDataTrans as the last step when needed",
        "kernel metadata (access, function space) is read from the schedule's "
        "kernel objects; loop kinds and directives from the generated Fortran",
        "function-space classes: w0 w1 w2 w2h w2trace w2htrace continuous; "
        "w3 wtheta w2v w2vtrace w2broken discontinuous; any_space_n, any_w2, "
        "wchi any_space; any_discontinuous_space_n any_discontinuous",
        "a refused operation that left the schedule's view() unchanged is "
        "taken to have changed nothing (C26 checks that)",
        "gh_readinc on any_space and a single-kernel gh_readinc invoke do not "
        "exist in the repository: two synthetic algorithm/kernel files (text "
        "in c23_gen.SYNTHETIC) complete the table"])


_PATHS = {}


def jobs_path(jobs, member, skey):
    if not _PATHS or _PATHS.get("_id") != id(jobs):
        _PATHS.clear()
        _PATHS["_id"] = id(jobs)
        for j in jobs:
            _PATHS[(tuple(j[0]), j[1])] = j[2]
    return _PATHS[(tuple(member), skey)]


def describe(origin, detail_of):
    member = origin["member"]
    invoke, detail = detail_of[tuple(member)]
    return {"file": member[0], "dm": member[1], "invoke": invoke,
            "history": [op_text(o) for o in origin["history"]],
            "kernels": detail}


# ---------------------------------------------------------------- replay/demo
def replay(path):
    '''Re-run a recorded counterexample: prints the generated code and runs
    the single-case TLC configuration.'''
    core.setup_psyclone_env()
    with open(path) as f:
        rec = json.load(f)
    case = rec["case"]
    tmp = core.mktemp("pv-c23-")
    try:
        c23_gen.load([case["file"]], tmp)
        member = (case["file"], case["dm"], 0)
        status, tree, text, outcomes = c23_gen.code_of(member, case["ops"])
        print("history:", case["history"], "->", outcomes, status)
        print(text if text else tree)
        init = c23_gen.work_init(member)
        tcase = {"id": 1, "kerns": init["kerns"], "dm": case["dm"],
                 "from": init["sched"], "op": INIT_OP, "post": tree}
        p = os.path.join(tmp, "case.json")
        with open(p, "w") as f:
            json.dump({"cases": [tcase]}, f)
        res = core.run_tlc("Trace_LFRicSched.tla", "Trace_LFRicSched_replay.cfg",
                           env={"PV_CASES": p}, workers=1, check=False)
        print("TLC:", "invariant " + res.invariant_violated + " violated"
              if res.invariant_violated else "no violation")
    finally:
        shutil.rmtree(tmp, ignore_errors=True)
    return 0


def corruption_demo():
    '''Trace-corruption test: recorded steps of real histories (accepted by
    TLC as conforming) with one recorded field flipped must be rejected.'''
    import copy
    core.setup_psyclone_env()
    tmp = core.mktemp("pv-c23-")
    res = {}
    try:
        c23_gen.load(["1_single_invoke.f90", "14.15_halo_readinc.f90"], tmp)
        col = {"name": "Colour", "tg": {"w": "main", "k": 1, "k2": 1}, "opt": ""}
        omp = {"name": "OMPParallelLoop", "tg": {"w": "main", "k": 1, "k2": 1},
               "opt": ""}
        good = []
        for member in (("1_single_invoke.f90", False, 0),
                       ("14.15_halo_readinc.f90", True, 0)):
            init = c23_gen.work_init(member)
            status, tree, _, _ = c23_gen.code_of(member, [col, omp])
            status0, pre, _, _ = c23_gen.code_of(member, [col])
            if status != "ok" or status0 != "ok":
                raise core.MachineryError("corruption demo: no product")
            good.append({"kerns": init["kerns"], "dm": member[1], "from": pre,
                         "op": omp, "post": tree})
        cov = {"states": 0, "transitions": 0}
        bad, div = validate(good, tmp, cov, workers=2, tag="orig")
        res["uncorrupted recorded steps: violations / divergences"] = \
            (len(bad), len(div), len(good))

        def find(tree, pred):
            for n in tree:
                if pred(n):
                    return n
                hit = find(n["body"], pred)
                if hit:
                    return hit
            return None

        def loop_kind(c):      # the loop over one colour recorded as over cells
            c = copy.deepcopy(c)
            find(c["post"], lambda n: n["t"] == "colour")["t"] = "cells"
            return c

        def directive_moved(c):    # the parallel do recorded on the colours loop
            c = copy.deepcopy(c)
            cols = find(c["post"], lambda n: n["t"] == "colours")
            dirn = cols["body"][0]
            inner = dirn["body"][0]
            moved = dict(dirn, body=[dict(cols, body=[inner])])
            cols.clear()
            cols.update(moved)
            return c

        def bound_flipped(c):      # upper bound of the colour loop flipped
            c = copy.deepcopy(c)
            n = find(c["post"], lambda n: n["t"] == "colour")
            n["x"] = "halo" if n["x"] == "edge" else "edge"
            return c

        for name, fn in (("loop kind colour -> cells", loop_kind),
                         ("parallel do moved onto the colours loop",
                          directive_moved),
                         ("loop bound edge <-> halo", bound_flipped)):
            mut = [fn(c) for c in good]
            b, d = validate(mut, tmp, cov, workers=2, tag="mut")
            res[name + ": violations / divergences"] = (len(b), len(d), len(mut))
    finally:
        shutil.rmtree(tmp, ignore_errors=True)
    return res


if __name__ == "__main__":
    import sys
    if sys.argv[1:2] == ["replay"]:
        sys.exit(replay(sys.argv[2]))
    if sys.argv[1:] == ["corrupt"]:
        for k, (nbad, ndiv, tot) in corruption_demo().items():
            print(f"{k}: {nbad} / {ndiv} of {tot} cases")
