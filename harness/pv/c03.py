'''C03 - re-writing is stable after one round trip.

Level: exploration / trace acceptance.  The decision "same text" compares two
outputs of the implementation; spec/RoundTrip.tla contributes the item-level
clauses (NoLoss, NoDup, SameOrder on the program skeleton) and a design-level
machine; spec/Trace_RoundTrip.tla decides the clauses per recorded case.

Sources of cases: (i) the generated family of pv.c03_gen (modules with use /
access statements / dependent parameters / derived types / interfaces /
several routines / comments / directives / code blocks), where the source
skeleton is known and w1 is also checked against it; (ii) the same programs
after an API step that gives loop bodies and if branches their own symbols
(nested scopes the writer has to merge); (iii) every Fortran file under the
repository's tests/test_files and examples that reader and writer accept.
For each: w1 = W(R(src)), w2 = W(R(w1)), w3 = W(R(w2)) with a fresh reader and
writer per pass.'''
import contextlib
import io
import json
import os
import shutil

from pv import core
from pv import c03_gen, c03_item


def _rt(src):
    from psyclone.psyir.frontend.fortran import FortranReader
    from psyclone.psyir.backend.fortran import FortranWriter
    return FortranWriter()(FortranReader().psyir_from_source(src))


def _first_diff(a, b):
    la, lb = a.split("\n"), b.split("\n")
    for i in range(max(len(la), len(lb))):
        x = la[i] if i < len(la) else "<end>"
        y = lb[i] if i < len(lb) else "<end>"
        if x != y:
            return [i + 1, x.strip()[:160], y.strip()[:160]]
    return [0, "", ""]


def _passes(w1):
    '''w1 -> (texts, fail): texts = [w1, w2, w3] as far as the round trip went;
    fail = index of the text whose re-reading/re-writing raised (0 = none).'''
    texts = [w1]
    for _ in range(2):
        try:
            texts.append(_rt(texts[-1]))
        except Exception as err:   # noqa
            return texts, len(texts), f"{type(err).__name__}: {err}"[:300]
    return texts, 0, None


def _case(cid, origin, src_items, texts, fail, why):
    sks = [] if src_items is None else [src_items]
    try:
        sks += [c03_item.itemise(t) for t in texts]
    except c03_item.Unsupported as err:
        return {"id": cid, "status": "unsupported", "why": str(err), "origin": origin}
    for a, b, ta, tb in zip(sks[-len(texts):], sks[-len(texts) + 1:], texts, texts[1:]):
        if (ta == tb) and a != b:
            raise core.MachineryError("itemiser is not a function of the text")
    table, seqs = c03_item.intern(sks)
    off = 0 if src_items is None else 1
    eq = [True] * off + [texts[i] == texts[i + 1] for i in range(len(texts) - 1)]
    diff = [[0, "", ""]] * off + [_first_diff(texts[i], texts[i + 1])
                                 for i in range(len(texts) - 1)]
    case = {"id": cid, "src": src_items is not None, "tab": table, "sk": seqs,
            "eq": eq, "diff": diff, "fail": (fail + off) if fail else 0}
    return {"id": cid, "status": "ok", "case": case, "origin": origin, "why": why,
            "texts": texts if (fail or not all(eq)) else None,
            "ncomment": sum(1 for it in sks[0] if it[1] in ("comment", "directive")),
            "kinds": sorted({it[1] for sk in sks for it in sk})}


def _work_gen(job):
    idx, seed, nested = job
    cid, src, feats = c03_gen.make(idx, seed)
    origin = {"family": "nested" if nested else "generated", "index": idx, "source": src,
              "features": feats}
    sink = io.StringIO()
    with contextlib.redirect_stdout(sink), contextlib.redirect_stderr(sink):
        try:
            if nested:
                from psyclone.psyir.frontend.fortran import FortranReader
                from psyclone.psyir.backend.fortran import FortranWriter
                psyir = FortranReader().psyir_from_source(src)
                nsym = c03_gen.nested_scopes(psyir, nested - 1)
                if not nsym:
                    return {"id": cid, "status": "skipped", "origin": origin}
                origin["symbols_added"] = nsym
                w1 = FortranWriter()(psyir)
                cid = f"{cid}n{nested}"
            else:
                w1 = _rt(src)
        except Exception as err:   # noqa  (the reader or writer refuses the program)
            return {"id": cid, "status": "rejected", "origin": origin,
                    "why": f"{type(err).__name__}: {err}"[:200]}
        texts, fail, why = _passes(w1)
    try:
        src_items = None if nested or feats["selcmp"] or \
            set(feats["bodies"]) & c03_gen.CANONICALISED else c03_item.itemise(src)
    except c03_item.Unsupported as err:
        raise core.MachineryError(f"generated source {cid} not itemisable: {err}")
    return _case(cid, origin, src_items, texts, fail, why)


def _work_file(path):
    origin = {"family": "corpus", "file": path}
    cid = "f:" + path.split("/psyclone/tests/test_files/")[-1].split("/repo/")[-1]
    sink = io.StringIO()
    with contextlib.redirect_stdout(sink), contextlib.redirect_stderr(sink):
        try:
            with open(path, errors="replace") as f:
                src = f.read()
            w1 = _rt(src)
        except BaseException as err:   # noqa  (not a program PSyclone accepts)
            return {"id": cid, "status": "rejected", "origin": origin,
                    "why": type(err).__name__}
        texts, fail, why = _passes(w1)
    return _case(cid, origin, None, texts, fail, why)


def corpus_files(tier):
    '''Fortran files of the repository's tests and examples (a scratch copy made
    without them falls back to /repo).  Quick tier: files up to 8 kB.'''
    res = []
    for root in (core.REPO, "/repo"):
        tf = os.path.join(root, "src", "psyclone", "tests", "test_files")
        if not os.path.isdir(tf):
            continue
        for top in (tf, os.path.join(root, "examples")):
            for d, _, fs in os.walk(top):
                for f in fs:
                    if f.lower().endswith((".f90", ".f", ".x90")):
                        res.append(os.path.join(d, f))
        break
    if not res:
        raise core.MachineryError("Fortran corpus not found")
    res.sort()
    if tier == "quick":
        res = [p for p in res if os.path.getsize(p) <= 8000]
    return res


# ------------------------------------------------------------ known findings
def _moved(detail):
    return detail.get("moved") or []


def _only_imports(text):
    '''local names brought in by "use m, only : ..." statements of a text'''
    import re
    names = set()
    for m in re.finditer(r"^\s*use\s+\w+\s*,\s*only\s*:(.*)$", text, re.I | re.M):
        for ent in m.group(1).split(","):
            names.add(ent.split("=>")[0].strip().lower())
    return names


def m_public_list(case, clause, detail, finding):
    '''the names of a "public ::" access statement that are imported by a
    "use ..., only :" list of the same module are written in a different order by
    the next pass (they follow the sorted only-list after re-reading) - nothing
    else in that statement changes.  Other access lists (e.g. a "private ::" list
    of generated helper routines) are not this finding.'''
    if clause != "SameOrder" or detail.get("src_pass"):
        return False
    mv = _moved(detail)
    imported = _only_imports(case.get("w1") or "")
    return bool(mv) and all(it["k"] == "access-name" and it["s"].endswith("/public::")
                            and it["s"].count("/") == 1 and it["t"] in imported
                            for it in mv) and \
        all(l.lstrip().startswith("public ::") for l in detail.get("changed_lines", ["x"]))


def m_modvar_moved(case, clause, detail, finding):
    '''declarations of a module change their relative position in the next
    pass; one of the displaced declarations is a non-constant module variable
    that the value of a constant of the same module refers to (kind(r_val))'''
    import re
    if clause != "SameOrder" or detail.get("src_pass"):
        return False
    mv = _moved(detail)
    if not mv or not all(it["k"] == "decl" and "/" not in it["s"] for it in mv):
        return False
    w1 = case.get("w1") or ""
    for it in mv:
        if "parameter" in it["x"].split("::")[0]:
            continue
        pat = re.compile(r"^[^!]*\bparameter\b[^!]*::[^!]*=.*\b" + re.escape(it["t"]) + r"\b",
                         re.I | re.M)
        if pat.search(w1):
            return True
    return False


MATCHERS = {"public-list-reordered": m_public_list,
            "module-variable-moved": m_modvar_moved}


# ------------------------------------------------------------------- driver
def _decode(case, pass_, wit):
    tab = case["tab"]
    det = {"pass": pass_, "src_pass": bool(case["src"] and pass_ == 1)}
    for k, v in wit.items():
        if k in ("item", "now") and isinstance(v, int) and 1 <= v <= len(tab):
            det[k] = tab[v - 1]
        else:
            det[k] = v
    return det


def _moved_items(case, pass_):
    '''items standing at positions where the common subsequences differ'''
    prev, cur = case["sk"][pass_ - 1], case["sk"][pass_]
    sp, sc = set(prev), set(cur)
    a = [x for x in prev if x in sc]
    b = [x for x in cur if x in sp]
    return [case["tab"][x - 1] for x, y in zip(a, b) if x != y]


def validate(cases, workers=None):
    '''Run the cases through Trace_RoundTrip; returns (verdicts, diverges,
    states, transitions).'''
    tmp = core.mktemp("pv-c03-")
    verdicts, diverges, states, trans = [], [], 0, 0
    try:
        # batches of bounded size (items), big skeletons first
        order = sorted(cases, key=lambda c: -len(c["tab"]))
        batches, cur, size = [], [], 0
        for c in order:
            cur.append(c)
            size += len(c["tab"])
            if size > 60000 or len(cur) >= 400:
                batches.append(cur)
                cur, size = [], 0
        if cur:
            batches.append(cur)
        for k, part in enumerate(batches):
            path = os.path.join(tmp, f"cases-{k}.json")
            slim = [{kk: ([{f: e[f] for f in "skt"} for e in v] if kk == "tab" else v)
                     for kk, v in c.items()} for c in part]
            with open(path, "w") as f:
                json.dump(slim, f, separators=(",", ":"))
            r = core.run_tlc("Trace_RoundTrip.tla", "Trace_RoundTrip.cfg",
                             env={"PV_CASES": path}, workers=workers, timeout=1500)
            os.unlink(path)
            states += r.distinct
            trans += r.generated
            expect = sum(len(c["sk"]) + (1 if c["fail"] else 0) for c in part)
            if r.distinct != expect:
                raise core.MachineryError(
                    f"C03 trace validation did not consume every case: {r.distinct} "
                    f"states, expected {expect}")
            verdicts += r.printed("VERDICT")
            diverges += r.printed("DIVERGE")
    finally:
        shutil.rmtree(tmp, ignore_errors=True)
    return verdicts, diverges, states, trans


def design_check(tier, cov):
    cfg = "RoundTrip_quick.cfg" if tier == "quick" else "RoundTrip_thorough.cfg"
    res = core.run_tlc("RoundTrip.tla", cfg, check=False, workers=min(4, core.NCPU))
    if res.invariant_violated or res.error:
        raise core.MachineryError("RoundTrip.tla does not satisfy its own invariants: "
                                  + str(res.invariant_violated or res.error))
    cov["states"] += res.distinct
    cov["transitions"] += res.generated
    cov["model_states"] = res.distinct
    # vacuity: the broken writers are caught by the same clauses
    for cfg, inv in (("RoundTrip_broken_order.cfg", "InvSameOrder"),
                     ("RoundTrip_broken_dup.cfg", "InvNoRunDup")):
        res = core.run_tlc("RoundTrip.tla", cfg, check=False, workers=2)
        if res.invariant_violated != inv:
            raise core.MachineryError(f"vacuity check {cfg}: expected {inv} to be "
                                      f"violated, got {res.invariant_violated} {res.error}")


def _corrupt(ok, how):
    '''binding demonstration: corrupt one recorded field of the first stable
    case (PV_C03_CORRUPT=eq flips a text-equality flag, =drop removes one item
    of the last skeleton, =dup records one item twice)'''
    for r in ok:
        case = r["case"]
        if all(case["eq"]) and not case["fail"] and len(case["sk"][-1]) > 3:
            if how == "eq":
                case["eq"][-1] = False
                case["diff"][-1] = [1, "corrupted", "record"]
            elif how == "drop":
                del case["sk"][-1][2]
            else:
                case["tab"].append(dict(case["tab"][case["sk"][-1][2] - 1], n=99))
                case["sk"][-1].insert(3, len(case["tab"]))
            r["texts"] = None
            return r["id"]
    raise core.MachineryError("nothing to corrupt")


def run(tier, only=None):
    core.setup_psyclone_env()
    only = only or os.environ.get("PV_C03_ONLY")
    out = core.Outcome("C03", tier, "exploration", matchers=MATCHERS)
    cov = {"states": 0, "transitions": 0, "traces_validated_against_impl": 0,
           "samples": [], "exhaustive": False}
    design_check(tier, cov)
    ngen = 300 if tier == "quick" else 2500
    seed = core.seed()
    jobs = [(i, seed, 0) for i in range(ngen)]
    jobs += [(i, seed, 1 + (i % 2)) for i in range(0, ngen, 2 if tier == "quick" else 1)]
    results = core.pool_map(_work_gen, jobs)
    files = corpus_files(tier)
    if only != "generated":
        results += core.pool_map(_work_file, files, chunksize=1)
    stat = {}
    for r in results:
        key = r["origin"]["family"] + ":" + r["status"]
        stat[key] = stat.get(key, 0) + 1
    ok = [r for r in results if r["status"] == "ok"]
    unsup = [r for r in results if r["status"] == "unsupported"]
    if len(unsup) > 0.2 * max(1, len(ok) + len(unsup)):
        raise core.MachineryError(f"too many unsupported cases: {stat} "
                                  f"{[u['why'] for u in unsup[:5]]}")
    for fam in ("generated", "nested", "corpus"):
        if only is None and not stat.get(fam + ":ok"):
            raise core.MachineryError(f"family {fam} produced no case: {stat}")
    by_id = {r["id"]: r for r in ok}
    if len(by_id) != len(ok):
        raise core.MachineryError("duplicate case ids")
    corrupted = None
    if os.environ.get("PV_C03_CORRUPT"):
        corrupted = _corrupt(ok, os.environ["PV_C03_CORRUPT"])
        print(f"[C03] corrupted the record of case {corrupted}")
    verdicts, diverges, states, trans = validate([r["case"] for r in ok])
    cov["states"] += states
    cov["transitions"] += trans
    cov["traces_validated_against_impl"] = len(ok)
    failing = {}
    for v in verdicts:
        r = by_id[v["id"]]
        case = r["case"]
        det = _decode(case, v["pass"], v["w"])
        groups = None
        if v["v"] == "SameOrder":
            # SameOrder is a statement per scope: the displaced items are judged
            # scope by scope (one module can show two independent re-orderings)
            moved = _moved_items(case, v["pass"])
            det["moved"] = moved[:40]
            scopes = list(dict.fromkeys(it["s"] for it in moved))
            if len(scopes) > 1:
                groups = [[it for it in moved if it["s"] == sc][:40] for sc in scopes]
        if r["texts"] and not det["src_pass"] and v["v"] != "Reread":
            k = v["pass"] - (1 if case["src"] else 0)
            if 1 <= k < len(r["texts"]):
                a, b = r["texts"][k - 1].split("\n"), r["texts"][k].split("\n")
                det["changed_lines"] = [x for x in a if x not in b][:20]
        if v["v"] == "Reread":
            det["error"] = r["why"]
        slim = dict(r["origin"])
        slim["id"] = v["id"]
        if r["texts"]:
            slim["w1"] = r["texts"][0][:4000]
        failing[v["id"]] = failing.get(v["id"], 0) + 1
        if groups:
            for grp in groups:
                out.violation(dict(slim, scope=grp[0]["s"]), v["v"],
                              dict(det, moved=grp, item=grp[0], scopes_displaced=len(groups)))
        else:
            out.violation(slim, v["v"], det)
    unstable = [r["id"] for r in ok if not all(r["case"]["eq"]) or r["case"]["fail"]]
    missed = [i for i in unstable if i not in failing and i != corrupted]
    if missed:
        raise core.MachineryError(f"text differs but no verdict for {missed[:5]}")
    kinds = sorted({k for r in ok for k in r["kinds"]})
    cov.update({
        "evaluations": len(results), "distinct_nontrivial": len(ok),
        "rule": ("one case = one program (generated / generated + nested-scope API step / "
                 "repository file) accepted by reader and writer, taken through three "
                 "passes; non-trivial = w1 exists and was itemised"),
        "status_counts": stat, "unstable_cases": len(unstable),
        "stable_cases": len(ok) - len(unstable),
        "item_kinds_seen": kinds,
        "divergences": len(diverges),
        "divergence_note": "comment/directive items of a text that the next reading drops "
                           "(the reader of this version ignores comments); counted, not judged",
        "source_comment_items_dropped": sum(d["n"] for d in diverges),
        "unsupported": len(unsup),
        "unsupported_samples": [{"id": u["id"], "why": u["why"]} for u in unsup[:5]],
        "known_examples": out.known_examples,
        "corpus_files": len(files),
        "samples": [{"id": r["id"], "origin": {k: v for k, v in r["origin"].items()
                                                 if k != "features"},
                     "skeleton_lengths": [len(s) for s in r["case"]["sk"]]}
                    for r in ok[:: max(1, len(ok) // 4)][:4]]})
    return out.finish(cov, assumptions=[
        "exploration level: 'same text' compares implementation outputs; TLC decides the item "
        "clauses (NoLoss/NoDup/SameOrder/TextStable flags) per recorded case",
        "stability is judged from the first written text on (w1 -> w2 -> w3); relative to a "
        "generated source only declarations, uses, routines, types, interfaces, statements and "
        "code blocks must be kept (the reader ignores comments and directives in this version)",
        "line-based itemiser (pv.c03_item) over the writer's one-statement-per-line output; "
        "fails closed (unsupported)",
        "quick tier: repository files up to 8 kB"])
