'''C20 helper - the ORACLE source: parses, at check time, the built-in
definitions of doc/user_guide/dynamo0p3.rst into pv-ast.

Every built-in is documented by a heading line

    **X_plus_Y** (**field3**, *field1*, *field2*)

(bold argument = the one that is modified) followed by a prose paragraph that
ends in `::` and one literal block with the definition in Fortran array
syntax, e.g.

    field3(:) = field1(:) + field2(:)
    innprod = SUM(field1(:)*field2(:))
    ifield2(:) = INT(field1(:), kind=i_<prec>)
    do df = 1, ndofs / field(df) = RAND() / end do          (setval_random)

The expression parser below is deliberately independent of PSyclone's
Fortran frontend (which is used for the implementation side): Fortran 2008
operator levels  ** (right assoc.)  >  * /  >  unary + -  >  binary + -,
left-associative otherwise.  It fails closed: DocError on anything else.
'''
import os
import re
from fractions import Fraction

from pv import core

NONE = {"k": "none"}


class DocError(Exception):
    '''The user guide contains something this parser has no meaning for.'''


def guide_path():
    '''The user guide of the tree under test; a scratch copy made without
    the documentation (PV_REPO) is compared with the guide of /repo.'''
    for root in (core.REPO, "/repo"):
        path = os.path.join(root, "doc", "user_guide", "dynamo0p3.rst")
        if os.path.isfile(path):
            return path
    raise core.MachineryError("doc/user_guide/dynamo0p3.rst not found")


# ------------------------------------------------------------------ tokens
_TOKEN = re.compile(r"""
    \s*(?:
      (?P<num>(?:\d+\.\d*|\.\d+|\d+)(?:[edED][+-]?\d+)?(?:_\w+)?)
    | (?P<kindph>[ri]_<prec>)
    | (?P<id>[A-Za-z]\w*)
    | (?P<op>\*\*|[-+*/(),:=])
    )""", re.X)


def tokenise(text):
    pos, out = 0, []
    text = text.rstrip()
    while pos < len(text):
        m = _TOKEN.match(text, pos)
        if not m:
            raise DocError("cannot tokenise %r at %d" % (text, pos))
        pos = m.end()
        for kind in ("num", "kindph", "id", "op"):
            if m.group(kind) is not None:
                out.append((kind, m.group(kind)))
                break
    return out


INTRINSICS = {"SUM", "SIGN", "MAX", "MIN", "INT", "REAL", "ABS", "NINT", "RAND"}


class _Parser:
    def __init__(self, toks, text):
        self.t = toks
        self.i = 0
        self.text = text

    def peek(self):
        return self.t[self.i] if self.i < len(self.t) else (None, None)

    def take(self, val=None):
        kind, v = self.peek()
        if kind is None or (val is not None and v != val):
            raise DocError("expected %r at token %d of %r" % (val, self.i, self.text))
        self.i += 1
        return kind, v

    # level 5 (lowest): binary/unary + -
    def expr(self):
        kind, v = self.peek()
        if v in ("+", "-") and kind == "op":
            self.take()
            left = {"k": "un", "op": v, "e": self.term()}
        else:
            left = self.term()
        while self.peek() in (("op", "+"), ("op", "-")):
            _, op = self.take()
            left = {"k": "bin", "op": op, "l": left, "r": self.term()}
        return left

    def term(self):
        left = self.factor()
        while self.peek() in (("op", "*"), ("op", "/")):
            _, op = self.take()
            left = {"k": "bin", "op": op, "l": left, "r": self.factor()}
        return left

    def factor(self):
        base = self.primary()
        if self.peek() == ("op", "**"):
            self.take()
            # right associative; the exponent may carry a sign only in
            # parentheses (F2008 R704), which primary() handles
            return {"k": "bin", "op": "**", "l": base, "r": self.factor()}
        return base

    def primary(self):
        kind, v = self.peek()
        if kind == "num":
            self.take()
            return literal(v)
        if v == "(" and kind == "op":
            self.take()
            e = self.expr()
            self.take(")")
            return e
        if kind == "id":
            self.take()
            if self.peek() != ("op", "("):
                return {"k": "ref", "name": v.lower()}
            self.take("(")
            if v.upper() in INTRINSICS:
                return self.intrinsic(v.upper())
            # array element / section of a field
            if self.peek() == ("op", ":"):
                self.take(":")
                self.take(")")
                return {"k": "aref", "name": v.lower(),
                        "idx": [{"k": "range", "lo": NONE, "hi": NONE, "st": NONE}]}
            idx = self.expr()
            self.take(")")
            return {"k": "aref", "name": v.lower(), "idx": [idx]}
        raise DocError("unexpected token %r in %r" % (v, self.text))

    def intrinsic(self, name):
        args = []
        if self.peek() != ("op", ")"):
            while True:
                kind, v = self.peek()
                nxt = self.t[self.i + 1] if self.i + 1 < len(self.t) else (None, None)
                if kind == "id" and nxt == ("op", "="):
                    if v.lower() != "kind":
                        raise DocError("named argument %s in %r" % (v, self.text))
                    self.take()
                    self.take("=")
                    k2, v2 = self.take()
                    if k2 not in ("kindph", "id"):
                        raise DocError("kind value %r in %r" % (v2, self.text))
                    # exact arithmetic: the kind (r_<prec>, i_<prec>, r_def...)
                    # does not change the value; the TYPE conversion is the
                    # intrinsic's name
                else:
                    args.append(self.expr())
                if self.peek() == ("op", ","):
                    self.take()
                    continue
                break
        self.take(")")
        return {"k": "icall", "name": name, "args": args}


def literal(text):
    t = text.lower()
    body = t.split("_")[0]
    if re.fullmatch(r"\d+", body):
        return {"k": "lit", "t": "int", "v": int(body)}
    fr = Fraction(body.replace("d", "e"))
    return {"k": "lit", "t": "real", "n": fr.numerator, "d": fr.denominator}


def parse_expr(text):
    p = _Parser(tokenise(text), text)
    e = p.expr()
    if p.i != len(p.t):
        raise DocError("trailing tokens in %r" % text)
    return e


def parse_assignment(text):
    toks = tokenise(text)
    p = _Parser(toks, text)
    lhs = p.primary()
    if lhs["k"] not in ("ref", "aref"):
        raise DocError("left-hand side of %r" % text)
    p.take("=")
    rhs = p.expr()
    if p.i != len(p.t):
        raise DocError("trailing tokens in %r" % text)
    return {"k": "assign", "lhs": lhs, "rhs": rhs}


_DO = re.compile(r"^do\s+(\w+)\s*=\s*(.+?)\s*,\s*(.+?)\s*$", re.I)


def parse_block(lines):
    '''One formula block -> one pv-ast statement.'''
    lines = [l.strip() for l in lines if l.strip()]
    if len(lines) == 1:
        return parse_assignment(lines[0])
    m = _DO.match(lines[0])
    if m and len(lines) == 3 and re.fullmatch(r"end\s*do", lines[2], re.I):
        return {"k": "loop", "var": m.group(1).lower(),
                "lo": parse_expr(m.group(2)), "hi": parse_expr(m.group(3)),
                "st": NONE, "body": [parse_assignment(lines[1])]}
    raise DocError("formula block %r" % (lines,))


# ---------------------------------------------------------------- the guide
_HEAD = re.compile(r"^\*\*([A-Za-z_0-9]+)\*\* \((.*)\)\s*$")
_ARG = re.compile(r"^(\*\*|\*)([A-Za-z_0-9]+)(\*\*|\*)$")


def parse_guide(path=None):
    '''{built-in name (lower case): {"name", "args": [(name, modified)],
    "text": [formula lines], "doc": pv-ast stmt, "line": n}} for every
    `**name** (args)` heading of the Built-ins section.  A heading without
    exactly one formula block before the next heading is a DocError.'''
    path = path or guide_path()
    with open(path) as f:
        lines = f.read().split("\n")
    try:
        start = next(i for i, l in enumerate(lines)
                     if l.strip() == ".. _lfric-built-ins:")
    except StopIteration:
        raise DocError("label lfric-built-ins not found")
    res = {}
    i = start
    while i < len(lines):
        m = _HEAD.match(lines[i])
        if not m:
            i += 1
            continue
        name = m.group(1)
        args = []
        for a in m.group(2).split(","):
            am = _ARG.match(a.strip())
            if not am or am.group(1) != am.group(3):
                raise DocError("argument %r of %s" % (a, name))
            args.append((am.group(2).lower(), am.group(1) == "**"))
        # prose up to a line ending in '::', then the literal block
        j = i + 1
        while j < len(lines) and not lines[j].rstrip().endswith("::"):
            if _HEAD.match(lines[j]):
                raise DocError("no formula block for " + name)
            j += 1
        j += 1
        while j < len(lines) and not lines[j].strip():
            j += 1
        block = []
        while j < len(lines) and (lines[j].startswith("  ") or
                                  (not lines[j].strip() and j + 1 < len(lines)
                                   and lines[j + 1].startswith("  "))):
            block.append(lines[j])
            j += 1
        if not block:
            raise DocError("empty formula block for " + name)
        # a second literal block before the next heading would be ambiguous
        k = j
        while k < len(lines) and not _HEAD.match(lines[k]):
            if lines[k].rstrip().endswith("::") and not lines[k].startswith(".."):
                nxt = k + 1
                while nxt < len(lines) and not lines[nxt].strip():
                    nxt += 1
                if nxt < len(lines) and lines[nxt].startswith("  ") and \
                        re.match(r"^\s+\w+(\(:\))?\s*=", lines[nxt]):
                    raise DocError("two formula blocks for " + name)
            if re.match(r"^[=+#^~-]{4,}$", lines[k]) and k - 1 > j:
                break               # next (sub)section
            k += 1
        if name.lower() in res:
            raise DocError("built-in documented twice: " + name)
        entry = {"name": name, "args": args,
                 "text": [b.strip() for b in block if b.strip()], "line": i + 1}
        try:
            entry["doc"] = parse_block(block)
        except DocError as err:
            # fail closed for this built-in only: its cases are unsupported
            entry["error"] = str(err)
        res[name.lower()] = entry
        i = j
    return res


if __name__ == "__main__":
    import json
    g = parse_guide()
    print(len(g))
    for k, v in g.items():
        print(k, v["args"], v["text"], json.dumps(v.get("doc", v.get("error")))[:200])
