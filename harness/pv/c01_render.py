'''C01 - pv-ast -> Fortran source renderer (fully parenthesising).

The generated program P (c01_gen) is the *reference*: its meaning is given
directly by spec/FortranSem.tla.  This module only turns it into the text
that is handed to PSyclone.  Every unary/binary operation is parenthesised,
declarations have one entity each with a dimension(lo:hi) attribute.
'''
from fractions import Fraction

_BIN = {"+": "+", "-": "-", "*": "*", "/": "/", "**": "**",
        "==": "==", "/=": "/=", "<": "<", "<=": "<=", ">": ">", ">=": ">=",
        "and": ".and.", "or": ".or.", "eqv": ".eqv.", "neqv": ".neqv."}
_TY = {"i": "integer", "r": "real", "l": "logical"}


def real_text(n, d):
    '''exact decimal text of the non-negative rational n/d (d = 2^a 5^b)'''
    if n < 0:
        raise ValueError("negative real literal")
    fr = Fraction(n, d)
    scale = 0
    while (fr * 10 ** scale).denominator != 1:
        scale += 1
        if scale > 12:
            raise ValueError("real literal is not a finite decimal")
    digits = str((fr * 10 ** scale).numerator)
    if scale == 0:
        return digits + ".0"
    digits = digits.rjust(scale + 1, "0")
    return digits[:-scale] + "." + digits[-scale:]


def expr(e):
    k = e["k"]
    if k == "lit":
        if e["t"] == "int":
            if e["v"] < 0:
                return "(%d)" % e["v"]
            return str(e["v"])
        if e["t"] == "real":
            return real_text(e["n"], e["d"])
        return ".true." if e["b"] else ".false."
    if k == "ref":
        return e["name"]
    if k == "aref":
        return e["name"] + "(" + ", ".join(index(i) for i in e["idx"]) + ")"
    if k == "un":
        op = ".not. " if e["op"] == "not" else e["op"]
        return "(" + op + expr(e["e"]) + ")"
    if k == "bin":
        return "(" + expr(e["l"]) + " " + _BIN[e["op"]] + " " + expr(e["r"]) + ")"
    if k == "fcall":
        from pv import c01_gen
        return c01_gen.HELPERS[e["name"]]["use"] + "(" + ", ".join(top(a) for a in e["args"]) + ")"
    if k == "icall":
        args = [top(a) for a in e["args"]]
        for nm in e.get("named_order", sorted(e.get("named", {}))):
            args.append(nm + "=" + top(e["named"][nm]))
        return e["name"].lower() + "(" + ", ".join(args) + ")"
    raise ValueError("cannot render expression " + k)


def top(e):
    '''expression in a position that is already delimited: no outer parentheses'''
    s = expr(e)
    if e["k"] in ("un", "bin") and s[0] == "(" and s[-1] == ")":
        return s[1:-1]
    return s


def index(i):
    if i["k"] == "range":
        lo = "" if i["lo"]["k"] == "none" else expr(i["lo"])
        hi = "" if i["hi"]["k"] == "none" else expr(i["hi"])
        s = lo + ":" + hi
        if i["st"]["k"] != "none":
            s += ":" + expr(i["st"])
        return s
    return top(i)


def case_item(it):
    if "v" in it:
        return top(it["v"])
    lo = "" if it["lo"]["k"] == "none" else top(it["lo"])
    hi = "" if it["hi"]["k"] == "none" else top(it["hi"])
    return lo + ":" + hi


def simple_stmt(s):
    '''text of a statement that fits on one line (action statement)'''
    k = s["k"]
    if k == "assign":
        return expr_lhs(s["lhs"]) + " = " + top(s["rhs"])
    if k in ("exit", "cycle"):
        return k + (" " + s["label"] if s.get("label") else "")
    if k == "return":
        return "return"
    if k == "call":
        from pv import c01_gen
        return "call " + c01_gen.HELPERS[s["name"]]["use"] + "(" + ", ".join(top(a) for a in s["args"]) + ")"
    raise ValueError("not an action statement: " + k)


def expr_lhs(e):
    return expr(e)


def stmts(body, ind):
    out = []
    for s in body:
        out.extend(stmt(s, ind))
    return out


def stmt(s, ind):
    p = "  " * ind
    k = s["k"]
    if k in ("assign", "exit", "cycle", "return", "call"):
        return [p + simple_stmt(s)]
    if k == "loop":
        lab = s.get("label")
        pre, post = (lab + ": ", " " + lab) if lab else ("", "")
        if s.get("concurrent"):
            inner = s["body"][0]
            head = f"do concurrent ({s['var']} = {expr(s['lo'])}:{expr(s['hi'])}, {top(inner['cond'])})"
            return [p + pre + head] + stmts(inner["then"], ind + 1) + [p + "end do" + post]
        head = f"do {s['var']} = {top(s['lo'])}, {top(s['hi'])}"
        if s["st"]["k"] != "none":
            head += ", " + top(s["st"])
        return [p + pre + head] + stmts(s["body"], ind + 1) + [p + "end do" + post]
    if k == "while":
        lab = s.get("label")
        pre, post = (lab + ": ", " " + lab) if lab else ("", "")
        return [p + pre + f"do while ({top(s['cond'])})"] + stmts(s["body"], ind + 1) + \
            [p + "end do" + post]
    if k == "if":
        if s.get("single"):
            return [p + f"if ({top(s['cond'])}) " + simple_stmt(s["then"][0])]
        out = [p + f"if ({top(s['cond'])}) then"] + stmts(s["then"], ind + 1)
        cur = s
        while True:
            els = cur["else"]
            if cur.get("elif") and len(els) == 1 and els[0]["k"] == "if" \
                    and not els[0].get("single"):
                cur = els[0]
                out += [p + f"else if ({top(cur['cond'])}) then"] + stmts(cur["then"], ind + 1)
                continue
            if els or cur.get("emptyelse"):
                out += [p + "else"] + stmts(els, ind + 1)
            break
        return out + [p + "end if"]
    if k == "where":
        if s.get("single"):
            return [p + f"where ({top(s['mask'])}) " + simple_stmt(s["body"][0])]
        out = [p + f"where ({top(s['mask'])})"] + stmts(s["body"], ind + 1)
        for ew in s["elsewhere"]:
            if ew["mask"]["k"] == "none":
                out.append(p + "elsewhere")
            else:
                out.append(p + f"elsewhere ({top(ew['mask'])})")
            out += stmts(ew["body"], ind + 1)
        return out + [p + "end where"]
    if k == "select":
        out = [p + f"select case ({top(s['sel'])})"]
        for c in s["cases"]:
            if c["dflt"]:
                out.append(p + "case default")
            else:
                out.append(p + "case (" + ", ".join(case_item(i) for i in c["items"]) + ")")
            out += stmts(c["body"], ind + 1)
        return out + [p + "end select"]
    raise ValueError("cannot render statement " + k)


def decl(d, intent=None):
    '''d = {"name","ty","dims":[[lo,hi]]}'''
    s = _TY[d["ty"]]
    if d["dims"]:
        s += ", dimension(" + ", ".join(
            (f"{hi}" if lo == 1 and not d.get("explicit_lo") else f"{lo}:{hi}")
            for lo, hi in d["dims"]) + ")"
    if intent:
        s += f", intent({intent})"
    if d.get("save") == "attr":
        s += ", save"
    s += " :: " + d.get("disp", d["name"])
    if d.get("initval"):
        s += " = " + d["initval"]
    return s


def routine(name, args, decls, body, ind=1, kind="subroutine", prefix="", suffix="", spec=()):
    '''decls: list of (decl, intent or None) in declaration order'''
    p = "  " * ind
    out = [p + (prefix + " " if prefix else "") + f"{kind} {name}(" + ", ".join(args) + ")" + suffix]
    for d, intent in decls:
        out.append(p + "  " + decl(d, intent))
    out += [p + "  " + line for line in spec]       # e.g. SAVE statements
    out += stmts(body, ind + 1)
    out.append(p + f"end {kind} {name}")
    return out


def module(name, modvars, routines):
    out = [f"module {name}", "  implicit none"]
    for d in modvars:
        out.append("  " + decl(d))
    out.append("contains")
    for r in routines:
        out += r
    out.append(f"end module {name}")
    return "\n".join(out) + "\n"
