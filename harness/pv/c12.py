'''C12 - extraction regions record every input and output they need.

For every region of consecutive top-level statements of a family of generated
routines, CallTreeUtils.get_in_out_parameters and the ProvideVariable lists an
applied ExtractTrans writes are recorded; the routine is exported with the
region wrapped in a `track` record and TLC executes it under FortranSem.tla on
every input (SemAccess.tla, mode "region"): every variable with an
upward-exposed read is a reported input, every written variable a reported
output, and re-running the region from a store in which everything but the
reported inputs is undefined reproduces the outputs without reading an
undefined value (replay clause).
'''
import os
import re

from pv import core, sem
from pv.export import Unsupported

HEAD = '''module cm
contains
subroutine s(a, b, c, ia, n, m, t, u, kout, flag)
  integer, intent(inout) :: n
  integer, intent(inout) :: m
  integer, intent(inout) :: kout
  real, intent(inout) :: t
  real, intent(inout) :: u
  logical, intent(inout) :: flag
  real, dimension(0:9), intent(inout) :: a
  real, dimension(0:9), intent(inout) :: b
  real, dimension(0:5,0:5), intent(inout) :: c
  integer, dimension(1:4), intent(inout) :: ia
  integer :: i
  integer :: j
  integer :: k
  real :: x
'''
TAIL = '''end subroutine s
subroutine incr(y)
  real, intent(inout) :: y
  y = y + 1.0
end subroutine incr
subroutine setout(y, p)
  real, intent(out) :: y
  integer, intent(in) :: p
  y = real(p)
end subroutine setout
subroutine setel(v, p)
  real, dimension(0:9), intent(inout) :: v
  integer, intent(in) :: p
  v(p) = 0.5
end subroutine setel
end module cm
'''
DOM = [("n", [0, 1, 3]), ("m", [1, 2]), ("kout", [2]), ("t", [[1, 2]]), ("u", [[3, 1]]),
       ("flag", [True, False])]
FILLS = [1, 2]

BODIES = [
    ["a(1) = 0.0", "b(2) = a(2)", "if (flag) x = 1.0", "b(1) = x", "t = b(1) + b(2)"],
    ["x = t", "a(n) = x", "u = a(n) + a(m)", "do i = 1, n", "  b(i) = a(i)", "end do", "t = b(1)"],
    ["do i = 1, n", "  x = b(i)", "  a(i) = x", "end do", "t = x", "kout = i"],
    ["a(:) = 0.0", "a(1) = b(1)", "t = a(2)", "b(1:3) = a(1:3)", "u = sum(b)"],
    ["a(1:n) = 1.0", "t = sum(a(1:3))", "if (n > 1) then", "  u = t", "end if", "t = u + 1.0"],
    ["k = m", "a(k) = 2.0", "k = k + 1", "a(k) = a(k-1) + a(k)", "kout = k"],
    ["do j = 1, 2", "  do i = 1, n", "    c(i,j) = c(i,j) + a(i)", "  end do", "end do",
     "t = c(1,1)", "c(0,0) = t"],
    ["if (flag) then", "  t = 1.0", "else", "  u = 2.0", "end if", "x = t + u", "t = x"],
    ["ia(1) = 2", "a(ia(1)) = b(ia(2))", "ia(2) = ia(1) + 1", "b(ia(2)) = a(2)"],
    ["x = 0.0", "do i = 1, n", "  x = x + a(i)", "end do", "t = x", "a(0) = t"],
    ["do i = 1, n", "  if (b(i) > 20.0) then", "    x = b(i)", "  end if", "end do", "t = x"],
    ["flag = n > 1", "if (flag) a(1) = 1.0", "a(2) = a(1)", "flag = .not. flag"],
    ["call incr(t)", "u = t", "call setel(a, n)", "t = a(n)", "call incr(a(m))"],
    ["call setout(x, m)", "t = x", "call incr(u)", "call incr(u)"],
]


def items(tier):
    return [(f"body{k}", HEAD + "".join("  " + l + "\n" for l in ["x = 0.25", "k = 1"] + b) + TAIL)
            for k, b in enumerate(BODIES)]


_PROVIDE = re.compile(r'ProvideVariable\("([^"]+)",\s*([A-Za-z_]\w*)', re.I)


def _lists_from_text(text):
    '''inputs / outputs an applied ExtractTrans provides, from the written code'''
    pre, post, sect = [], [], None
    for line in text.splitlines():
        low = line.lower()
        if "% preenddeclaration" in low:
            sect = "pre"
        elif "% preend" in low:
            sect = None
        elif "% poststart" in low:
            sect = "post"
        elif "% postend" in low:
            sect = None
        m = _PROVIDE.search(line)
        if m and sect == "pre":
            pre.append(m.group(2).lower())
        elif m and sect == "post":
            post.append(m.group(2).lower())
    return pre, post


# ---- second family: non-local (module) variables reached through the call tree
NL_HEAD = '''module nlmod
  implicit none
  real :: scale
  real :: total
  real, dimension(0:4) :: tab
  integer :: cnt
contains
  subroutine s(x, n)
    integer, intent(in) :: n
    real, dimension(0:9), intent(inout) :: x
    call top(x, n)
  end subroutine s
'''
NL_BODIES = {
    # name -> list of routines (name, dummy list, lines)
    "readthenreset": [("top", "x, n", ["call apply_scale(x, n)", "call reset_scale()"]),
                      ("apply_scale", "x, n", ["integer :: i", "do i = 1, n", "  x(i) = x(i) * scale",
                                               "end do", "total = total + x(1)"]),
                      ("reset_scale", "", ["scale = 1.0"])],
    "resetthenread": [("top", "x, n", ["call reset_scale()", "call apply_scale(x, n)"]),
                      ("apply_scale", "x, n", ["integer :: i", "do i = 1, n", "  x(i) = x(i) * scale",
                                               "end do"]),
                      ("reset_scale", "", ["scale = 2.0"])],
    "counter": [("top", "x, n", ["call bump()", "x(cnt) = total", "call bump()"]),
                ("bump", "", ["cnt = cnt + 1"])],
    "table": [("top", "x, n", ["call filltab(n)", "x(1) = tab(2) + tab(n)"]),
              ("filltab", "k", ["integer, intent(in) :: k", "tab(k) = 1.0"])],
    "nested": [("top", "x, n", ["if (n > 1) then", "  call mid(x)", "end if", "x(0) = total"]),
               ("mid", "x", ["real, dimension(0:9), intent(inout) :: x", "call leaf()", "x(2) = scale"]),
               ("leaf", "", ["total = scale + 1.0", "scale = total"])],
    "condwrite": [("top", "x, n", ["call maybe(n)", "x(1) = scale"]),
                  ("maybe", "k", ["integer, intent(in) :: k", "if (k > 1) scale = 3.0"])],
    "twice": [("top", "x, n", ["call apply_scale(x, n)", "call reset_scale()", "call apply_scale(x, n)"]),
              ("apply_scale", "x, n", ["integer :: i", "do i = 1, n", "  x(i) = x(i) * scale", "end do"]),
              ("reset_scale", "", ["scale = total"])],
}
# state of a SECOND module, imported by routines of the call tree (and a constant, which
# needs no recording)
NL_AUX = '''module nlaux
  implicit none
  real :: ascale
  real :: scale
  integer :: acnt
  real, parameter :: aconst = 2.0
end module nlaux
'''
NL_AUX_TYPES = {"ascale": "r", "scale": "r", "acnt": "i", "aconst": "r"}
NL_BODIES.update({
    "xmod_read": [("top", "x, n", ["call by_aux(x, n)"]),
                  ("by_aux", "x, n", ["use nlaux, only: ascale, aconst", "x(1) = x(1) * ascale * aconst"])],
    "xmod_rw": [("top", "x, n", ["call bump_aux()", "call put(x)"]),
                ("bump_aux", "", ["use nlaux, only: acnt", "acnt = acnt + 1"]),
                ("put", "x", ["use nlaux, only: acnt", "real, dimension(0:9), intent(inout) :: x",
                              "x(acnt) = total"])],
    "xmod_write_then_read": [("top", "x, n", ["call set_aux()", "call by_aux(x, n)"]),
                             ("set_aux", "", ["use nlaux, only: ascale", "ascale = 1.5"]),
                             ("by_aux", "x, n", ["use nlaux, only: ascale", "x(1) = x(1) * ascale"])],
    "xmod_read_then_write": [("top", "x, n", ["call by_aux(x, n)", "call set_aux()"]),
                             ("set_aux", "", ["use nlaux, only: ascale", "ascale = 1.5"]),
                             ("by_aux", "x, n", ["use nlaux, only: ascale", "x(1) = x(1) * ascale"])],
    # the same name in both modules: the routine that imports it sees nlaux's variable
    "xmod_samename": [("top", "x, n", ["call reset_own()", "call by_other(x)"]),
                      ("reset_own", "", ["scale = 1.0"]),
                      ("by_other", "x", ["use nlaux, only: scale",
                                         "real, dimension(0:9), intent(inout) :: x", "x(2) = scale"])],
    "xmod_samename2": [("top", "x, n", ["call reset_other()", "x(1) = scale"]),
                       ("reset_other", "", ["use nlaux, only: scale", "scale = 4.0"])],
})
NL_DOM = [("n", [0, 1, 3]), ("scale", [[1, 2]]), ("total", [[3, 1]]), ("cnt", [1]),
          ("nlaux::ascale", [[3, 2]]), ("nlaux::scale", [[5, 1]]), ("nlaux::acnt", [2]),
          ("nlaux::aconst", [[2, 1]])]


def nl_items(tier):
    out = []
    for name, routines in list(NL_BODIES.items()) + [(k + "|private", v) for k, v in NL_BODIES.items()]:
        src = NL_HEAD
        if name.endswith("|private"):
            # the module's state is PRIVATE, only the routines are public
            src = src.replace("  implicit none\n", "  implicit none\n  private\n  public :: s, top\n")
        for rname, args, lines in routines:
            decl = []
            if "x" in args.split(", "):
                if not any("x" in l and "dimension" in l for l in lines):
                    decl.append("real, dimension(0:9), intent(inout) :: x")
            if "n" in args.split(", "):
                decl.append("integer, intent(in) :: n")
            src += f"  subroutine {rname}({args})\n" + "".join("    " + l + "\n" for l in decl + lines) + \
                f"  end subroutine {rname}\n"
        src += "end module nlmod\n"
        out.append((f"nl|{name}", src))
    return out


def _build_nl(item):
    import tempfile
    import shutil
    from psyclone.parse import ModuleManager
    from psyclone.psyir.tools import CallTreeUtils, ReadWriteInfo
    pid, src = item
    cid = pid
    tmp = tempfile.mkdtemp(prefix="pv-c12-")
    try:
        with open(os.path.join(tmp, "nlmod.f90"), "w") as f:
            f.write(src)
        with open(os.path.join(tmp, "nlaux.f90"), "w") as f:
            f.write(NL_AUX)
        ModuleManager._instance = None        # fresh manager per case
        mm = ModuleManager.get()
        mm.add_search_path(tmp)
        try:
            cntr = mm.get_module_info("nlmod").get_psyir()
            routine = cntr.get_routine_psyir("s")
            ctu = CallTreeUtils()
            todo = ctu.get_non_local_symbols(routine)
            rwi = ReadWriteInfo()
            ctu._resolve_calls_and_unknowns(todo, rwi)      # pylint: disable=protected-access
            def nm(mod, sig):      # store name: variables of the other module are qualified
                return str(sig).lower() if mod.lower() == "nlmod" else f"{mod.lower()}::{str(sig).lower()}"
            inputs = sorted({nm(mod, sig) for mod, sig in rwi.read_list})
            outputs = sorted({nm(mod, sig) for mod, sig in rwi.write_list})
        except Exception as err:   # noqa
            return [{"id": cid, "status": "crash", "why": f"{type(err).__name__}: {err}"[:200]}]
        finally:
            ModuleManager._instance = None
        psy = sem.parse(src)
        r = sem.routine_named(psy, "s")
        try:
            ex = sem.Exporter()
            ex.import_types = dict(NL_AUX_TYPES)
            ex.track_range = (r, 0, 1)
            # the dummies of s are inputs of the replay as well (the property is about the
            # module variables; x and n are passed explicitly); a named constant of the other
            # module is part of the driver's source, not of the recorded data
            given = ["x", "n", "nlaux::aconst"]
            ex.track_fields = {"inputs": inputs + given}
            prog = ex.routine(r)
        except Unsupported as err:
            return [{"id": cid, "status": "unsupported", "why": str(err)}]
        names = {d["name"] for d in prog["decls"]}
        modvars = [d["name"] for d in prog["decls"] if not d.get("arg")]
        case = {"id": cid, "mode": "region", "decls": prog["decls"],
                "dom": [[n, v] for n, v in NL_DOM if n in names], "fills": FILLS,
                "subs": prog["subs"], "body": prog["body"],
                "inputs": inputs + given, "outputs": outputs + ["x"]}
        return [{"id": cid, "status": "ok", "case": case, "region": "call top(x, n)  [module variables "
                 + ", ".join(modvars) + "]", "src": src, "inputs": inputs, "outputs": outputs,
                 "source": "get_non_local_symbols + _resolve_calls_and_unknowns", "extract": "n/a"}]
    finally:
        shutil.rmtree(tmp, ignore_errors=True)


def _build(item):
    from psyclone.psyir.tools import CallTreeUtils
    from psyclone.psyir.transformations import ExtractTrans, TransformationError
    pid, src = item
    out = []
    psy0 = sem.parse(src)
    nst = len(sem.routine_named(psy0, "s").children)
    for lo in range(2, nst):
        for hi in range(lo + 1, min(nst, lo + MAXLEN[0]) + 1):
            cid = f"{pid}#{lo}:{hi}"
            psy = sem.parse(src)
            r = sem.routine_named(psy, "s")
            nodes = r.children[lo:hi]
            try:
                rwi = CallTreeUtils().get_in_out_parameters(nodes)
                inputs = [str(sig).lower() for _, sig in rwi.read_list]
                outputs = [str(sig).lower() for _, sig in rwi.write_list]
            except Exception as err:   # noqa
                out.append({"id": cid, "status": "crash", "why": f"{type(err).__name__}: {err}"[:200]})
                continue
            try:
                ex = sem.Exporter()
                ex.track_range = (r, lo, hi)
                ex.track_fields = {"inputs": inputs}
                prog = ex.routine(r)
            except Unsupported as err:
                out.append({"id": cid, "status": "unsupported", "why": str(err)})
                continue
            # the lists the applied transformation provides in the written code
            tin, tout, applied = None, None, "refused"
            try:
                ExtractTrans().apply(nodes)
                tin, tout = _lists_from_text(sem.write(psy))
                applied = "accepted"
            except TransformationError:
                pass
            except Exception as err:   # noqa
                applied = f"crash {type(err).__name__}"
            for d in prog["decls"]:
                if d["name"] == "ia":
                    d["data"] = [[2, 1, 4, 3], [1, 1, 2, 2]]
            names = {d["name"] for d in prog["decls"]}
            base = {"mode": "region", "decls": prog["decls"],
                    "dom": [[n, v] for n, v in DOM if n in names], "fills": FILLS,
                    "subs": prog["subs"] or {"#none": {"formals": [], "locals": [], "body": []}}}
            text = "; ".join(n.debug_string().strip().split("\n")[0] for n in nodes)[:160]
            case = dict(base, id=cid, body=prog["body"], inputs=inputs, outputs=outputs)
            out.append({"id": cid, "status": "ok", "case": case, "region": text, "src": src,
                        "inputs": inputs, "outputs": outputs, "source": "get_in_out_parameters",
                        "extract": applied})
            if applied == "accepted" and (sorted(tin) != sorted(inputs) or
                                          sorted(tout) != sorted(outputs)):
                # the written code provides different lists: judge those as well
                ex2 = sem.Exporter()
                psy2 = sem.parse(src)
                r2 = sem.routine_named(psy2, "s")
                ex2.track_range = (r2, lo, hi)
                ex2.track_fields = {"inputs": tin}
                prog2 = ex2.routine(r2)
                case2 = dict(base, id=cid + "@text", body=prog2["body"], inputs=tin, outputs=tout)
                out.append({"id": cid + "@text", "status": "ok", "case": case2, "region": text,
                            "src": src, "inputs": tin, "outputs": tout,
                            "source": "ExtractTrans ProvideVariable calls", "extract": applied})
    return out


# ------------------------------------------------------------ known findings
def _walk(body, cond=False):
    for s in body:
        yield s, cond
        for key in ("body", "then", "else"):
            if key in s:
                yield from _walk(s[key], cond or s["k"] in ("if", "loop", "while"))


def _mentions(e, name):
    if isinstance(e, dict):
        if e.get("k") in ("ref", "aref") and e.get("name") == name:
            return True
        return any(_mentions(v, name) for v in e.values())
    if isinstance(e, list):
        return any(_mentions(v, name) for v in e)
    return False


def _first_access(case, name):
    '''(kind, conditional) of the first statement of the tracked region that
    mentions name: kind = "write-elem" | "write-whole" | "other"'''
    region = None
    for s, _ in _walk(case["body"]):
        if s["k"] == "track":
            region = s["body"]
    for s, cond in _walk(region or []):
        if s["k"] in ("if", "loop", "while", "track"):
            heads = {k: v for k, v in s.items() if k not in ("body", "then", "else")}
            if _mentions(heads, name):
                return "other", cond
            continue
        if _mentions(s, name):
            if s["k"] == "assign" and s["lhs"].get("name") == name and \
                    not _mentions(s["rhs"], name) and not _mentions(s["lhs"].get("idx", []), name):
                return ("write-elem" if s["lhs"]["k"] == "aref" else "write-whole"), cond
            return "other", cond
    return "none", False


def m_partial_array(rec, clause, detail, finding):
    '''an array whose first access in the region is a write to an element or
    section is treated as completely written: later reads of other elements
    are not reported as needing the incoming value'''
    if clause not in ("ExposedReadIsInput", "ReplayReadsOnlyInputs"):
        return False
    miss = detail.get("missing") or []
    arrays = {d["name"] for d in rec["case"]["decls"] if d["dims"]}
    return bool(miss) and all(
        n in arrays and _first_access(rec["case"], n)[0] == "write-elem" for n in miss)


def m_conditional_write(rec, clause, detail, finding):
    '''a variable whose first access is a write inside an IF or a (possibly
    zero-trip) loop is treated as written first'''
    if clause not in ("ExposedReadIsInput", "ReplayReadsOnlyInputs"):
        return False
    miss = detail.get("missing") or []
    return bool(miss) and all(
        _first_access(rec["case"], n)[0] in ("write-elem", "write-whole") and
        (_first_access(rec["case"], n)[1] or
         (n in {d["name"] for d in rec["case"]["decls"] if d["dims"]} and
          _first_access(rec["case"], n)[0] == "write-elem")) for n in miss)


MATCHERS = {"partial-array-write-first": m_partial_array,
            "conditional-write-first": m_conditional_write}


MAXLEN = [4]


def run(tier):
    global DOM, FILLS
    if tier != "quick":        # thorough: longer regions, larger input domain, all fills
        DOM = [("n", [0, 1, 2, 3, 4]), ("m", [1, 2, 3]), ("kout", [2, 3]), ("t", [[1, 2], [-3, 2]]),
               ("u", [[3, 1]]), ("flag", [True, False])]
        FILLS = [1, 2, 3, 4]
        MAXLEN[0] = 7
    core.setup_psyclone_env()
    out = core.Outcome("C12", tier, "model_checking", matchers=MATCHERS)
    results = [r for part in core.pool_map(_build, items(tier), chunksize=1) for r in part]
    results += [r for part in core.pool_map(_build_nl, nl_items(tier), chunksize=1) for r in part]
    stat = {}
    for r in results:
        stat[r["status"]] = stat.get(r["status"], 0) + 1
    if stat.get("unsupported", 0) > 0.2 * len(results):
        raise core.MachineryError(f"too many unsupported cases: {stat}")
    ok = [r for r in results if r["status"] == "ok"]
    res = sem.run_equiv([r["case"] for r in ok], spec="SemAccess.tla", cfg="SemAccess.cfg")
    reached = 0
    for r in ok:
        if res.discards.get(r["id"], 0) < sem.n_inputs(r["case"]):
            reached += 1
        fails = res.fails.get(r["id"], [])
        for clause in sorted({f[0] for f in fails}):
            ws = [f[1] for f in fails if f[0] == clause]
            missing = sorted({n for w in ws for n in (w["x"] if isinstance(w["x"], list) else [])})
            slim = {"id": r["id"], "region": r["region"], "source_of_lists": r["source"],
                    "inputs": r["inputs"], "outputs": r["outputs"], "routine": r["src"]}
            rec = dict(slim, case=r["case"])
            detail = {"missing": missing, "input": ws[0]["val"], "fill": ws[0]["fm"],
                      "n_failing_inputs": len(ws)}
            out.classify(rec, clause, detail, slim)
    cov = {"states": res.states, "transitions": res.transitions,
           "traces_validated_against_impl": len(ok), "evaluations": len(results),
           "distinct_nontrivial": reached,
           "rule": ("one case = (generated routine, region of 1-4 consecutive top-level statements, "
                    "source of the input/output lists); non-trivial = the program is defined on at "
                    "least one input"),
           "status_counts": stat, "extract_accepted": sum(1 for r in ok if r["extract"] == "accepted"),
           "discarded_ub_inputs": sum(res.discards.values()),
           "known_examples": out.known_examples,
           "samples": [{"id": r["id"], "region": r["region"], "inputs": r["inputs"],
                        "outputs": r["outputs"]} for r in ok[:: max(1, len(ok) // 5)][:5]],
           "exhaustive": False}
    return out.finish(cov, assumptions=[
        "variables are compared by name; regions are top-level statement ranges executed once",
        "replay: every variable that is not a reported input is undefined before the region"])
