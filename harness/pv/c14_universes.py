'''C14 helper: the node universes PSyIRTree.tla is instantiated with.

A universe fixes the kinds of nodes 1..N, the initial trees, the nodes used as
edited parent, the operation alphabet and the history bound.  Every universe
contains structurally equal twins (all Literals are "1", all References name
"x", empty Schedules / Assignments are equal) because Node.__eq__ is
structural and list.remove / list.index use it.'''

ALL_OPS = ["append", "addchild", "insert", "addchild_at", "setitem", "delitem",
           "pop", "pop_last", "remove", "extend", "iadd", "setchildren", "clear",
           "reverse", "pop_all", "detach", "replace_with"]
# the thin wrapper addchild(child, index) is explored in the thorough tier and
# by the long histories; everywhere else it is insert
QUICK_OPS = [o for o in ALL_OPS if o != "addchild_at"]


def _u(name, kinds, inits, parents, depth, ops=None, slack=2, pairs=1):
    n = len(kinds)
    empty = [[] for _ in range(n)]
    full = []
    for init in inits:
        rows = [list(init.get(i, [])) for i in range(1, n + 1)]
        full.append(rows)
    return {"name": name, "kinds": kinds, "inits": [empty] + full,
            "parents": parents, "ops": list(ops or QUICK_OPS), "depth": depth,
            "slack": slack, "pairs": pairs}


def universes(tier):
    '''Deterministic list of universes of a tier.  History bounds are chosen by
    measured size (labelled transitions, all 17 operations): the 6-node
    universes loop / ifblock / omp / leaves are explored completely at bound 4
    (72 / 73 / 13 / 20 states), call is near its fixpoint at bound 3 (615 of
    620 states, ~340 k transitions), nest and array at bound 3 (145 of 153,
    240 of 254 states); expr grows to 1 468 states / ~720 k transitions at
    bound 3 and stays at bound 2; the 7- and 8-node universes stay at bound 2.
    Thorough total: ~0.95 M transitions.'''
    quick = tier == "quick"
    ops = QUICK_OPS if quick else ALL_OPS
    # (quick bound, thorough bound)

    def b(q, t):
        return q if quick else t
    res = [
        # Loop bound slots; twins: Literal 3/4, Schedule 2/6
        _u("loop", ["Loop", "Schedule", "Literal", "Literal", "Reference", "Schedule"],
           [{1: [3, 4, 5, 2]}, {1: [3, 4, 5, 2], 6: [1]}], [1, 2, 6], b(3, 4), ops),
        # IfBlock: condition + two Schedules (twins 2/3)
        _u("ifblock", ["IfBlock", "Schedule", "Schedule", "Literal", "Return", "Reference"],
           [{1: [4, 2, 3], 2: [5]}], [1, 2, 3], b(3, 4), ops),
        # Call: routine Reference at 0, arguments after (twins Reference 2/3)
        _u("call", ["Call", "Reference", "Reference", "Literal", "BinaryOperation",
                    "Assignment"],
           [{1: [2, 3, 4]}, {6: [3, 1], 1: [2, 5], 5: [4]}], [1, 5, 6], b(2, 3), ops),
        # nested statements: ancestors of the edited parent as candidate children
        _u("nest", ["Schedule", "IfBlock", "Literal", "Schedule", "Assignment", "Schedule"],
           [{1: [2], 2: [3, 4, 6], 4: [5]}], [1, 2, 4, 5, 6], b(2, 3), ops),
        # expressions: BinaryOperation twins nested in each other
        _u("expr", ["Assignment", "BinaryOperation", "BinaryOperation", "Literal",
                    "Literal", "UnaryOperation"],
           [{1: [2, 3], 2: [4, 5]}, {1: [6, 2], 6: [3], 3: [4, 5]}], [1, 2, 3, 6],
           b(2, 2), ops),
        # OpenMP parallel directive: one clause kind per position
        _u("omp", ["OMPParallel", "Schedule", "OMPDefaultClause", "OMPPrivateClause",
                   "OMPFirstprivateClause", "Return"],
           [{1: [2, 3, 4, 5], 2: [6]}], [1, 2], b(3, 4), ops),
        # WhileLoop / ArrayReference / Range
        _u("array", ["WhileLoop", "Schedule", "ArrayReference", "Range", "Literal",
                     "Reference"],
           [{1: [3, 2], 3: [4], 4: [5, 6]}], [1, 2, 3, 4], b(2, 3), ops),
        # leaves as edited parent: everything must be refused
        _u("leaves", ["Literal", "Reference", "Return", "Schedule", "Assignment"],
           [{4: [3, 5], 5: [1, 2]}], [1, 2, 3, 4], b(2, 4), ops),
    ]
    if not quick:
        res += _big_universes()
    return res


def _big_universes():
    '''7- and 8-node universes (thorough tier and long histories).'''
    return [
        _u("loop8", ["Schedule", "Loop", "Schedule", "Literal", "Literal", "Reference",
                     "Assignment", "Return"],
           [{1: [2, 8], 2: [4, 5, 6, 3], 3: [7]}], [1, 2, 3, 7], 2, ALL_OPS),
        _u("if7", ["Schedule", "IfBlock", "Schedule", "Schedule", "Literal", "Call",
                   "Reference"],
           [{1: [2], 2: [5, 3, 4], 3: [6], 6: [7]}], [1, 2, 3, 4, 6], 2, ALL_OPS),
    ]


def history_universes(tier, seed):
    '''Universes for the long pseudo-random histories (generator mode):
    (universe, number of histories, length).'''
    quick = tier == "quick"
    num = 150 if quick else 250
    length = 30 if quick else 40
    res = []
    for uni in universes("thorough")[:7] + universes("thorough")[-2:]:
        uni = dict(uni)
        uni["ops"] = list(ALL_OPS)
        uni["depth"] = length
        uni["traces"] = num
        uni["seed"] = seed
        uni["inits"] = uni["inits"][:1] if quick else uni["inits"][:2]
        res.append(uni)
    return res
