'''C29 - real concurrent PSyclone runs under a file-system shim.

Every run is a thread that executes the real `psy.gen` (hence the real
CodedKern.rename_and_write) on its own parsed PSy object and transformed
kernel.  `psyclone.psyGen.os` and `psyclone.psyGen.open` are replaced by
proxies that BLOCK BEFORE EVERY FILE-SYSTEM CALL until the scheduler releases
that run; the scheduler then waits until the run blocks again (or ends), so
exactly one run executes at any time and the order of file-system calls is
exactly the given schedule (no wall-clock ordering, no sleeps).

After every step the output directory is projected to the abstract file system
of spec/KernelOutput.tla (final kernel files: tag -> creator, writers, content
class, tag of the names inside; temporary files, which the 'single' scheme
writes before linking them to the final name, apart: creator, content class);
creators/writers are attributed by directory differences, so they do not depend
on which calls an implementation uses.  `tempfile.mkstemp` is interposed too.
'''
import builtins
import errno
import os
import re
import shutil
import threading

SUBJECT = {
    "api": "dynamo0.3",
    # input data (algorithm + kernel source) always comes from the unmodified
    # repository; the PSyclone code under test from $PV_REPO/src
    "alg": "/repo/src/psyclone/tests/test_files/dynamo0p3/1_single_invoke.f90",
    "base": "testkern",
}
# A handshake that stays blocked for STALL_SLICES waits of SLICE_S seconds is a
# machinery failure.  Counted in slices, not as one long timeout: a step of the
# VM's clock (observed here: all waiting threads of several processes timing out
# at the same moment) then ends one slice early instead of failing the replay.
SLICE_S = 5.0
STALL_SLICES = 60


class Stall(Exception):
    '''The scheduler/run handshake did not complete (machinery failure).'''


# ------------------------------------------------------------ preparing runs

def parse_subject(repo):
    '''Parse the algorithm file (and its kernel) once per process.'''
    from psyclone.parse.algorithm import parse
    _, info = parse(SUBJECT["alg"], api=SUBJECT["api"])
    return info


def kernel_tree_blob(info):
    '''Pickled fparser2 parse tree of the subject kernel (see make_psy).'''
    import pickle
    from psyclone.psyGen import PSyFactory
    psy = PSyFactory(SUBJECT["api"], distributed_memory=False).create(info)
    kern = psy.invokes.invoke_list[0].schedule.coded_kernels()[0]
    return pickle.dumps(kern.ast)


def make_psy(info, version, blob=None):
    '''A fresh PSy object (own schedules, kernels, kernel PSyIR) whose first
    kernel is transformed into kernel version `version`
    (1: ACCRoutineTrans, 2: Dynamo0p3KernelConstTrans).
    With `blob` the kernel object receives its own unpickled copy of the
    kernel's fparser2 parse tree instead of re-parsing the kernel source
    (CodedKern.ast caches that tree; re-parsing is 85% of the cost of a fresh
    object); c29._prepare checks that this changes nothing in the output.'''
    from psyclone.psyGen import PSyFactory
    from psyclone.transformations import (ACCRoutineTrans,
                                          Dynamo0p3KernelConstTrans)
    psy = PSyFactory(SUBJECT["api"], distributed_memory=False).create(info)
    kern = psy.invokes.invoke_list[0].schedule.coded_kernels()[0]
    if blob is not None:
        import pickle
        kern._fp2_ast = pickle.loads(blob)        # pylint: disable=protected-access
    if version == 1:
        ACCRoutineTrans().apply(kern)
    else:
        Dynamo0p3KernelConstTrans().apply(kern, {"number_of_layers": 20 + version})
    return psy


LAYER_ALG = "/repo/src/psyclone/tests/test_files/dynamo0p3/4.8_multikernel_invokes.f90"


def parse_layer_subject():
    '''An algorithm whose first invoke calls the subject kernel several times
    (for runs of one process that are kernels of ONE PSy layer).'''
    from psyclone.parse.algorithm import parse
    _, info = parse(LAYER_ALG, api=SUBJECT["api"])
    return info


def make_layer(info2, versions, blob=None):
    '''One fresh PSy object; its first len(versions) kernel objects (all calls of
    the subject kernel) are transformed into the given kernel versions.
    -> (psy, [kernel objects]).'''
    from psyclone.psyGen import PSyFactory
    from psyclone.transformations import (ACCRoutineTrans,
                                          Dynamo0p3KernelConstTrans)
    psy = PSyFactory(SUBJECT["api"], distributed_memory=False).create(info2)
    kerns = [k for k in psy.invokes.invoke_list[0].schedule.coded_kernels()
             if k.module_name.lower() == SUBJECT["base"] + "_mod"][:len(versions)]
    if len(kerns) < len(versions):
        raise ValueError("not enough kernel calls in the layer subject")
    for kern, version in zip(kerns, versions):
        if blob is not None:
            import pickle
            kern._fp2_ast = pickle.loads(blob)    # pylint: disable=protected-access
        if version == 1:
            ACCRoutineTrans().apply(kern)
        else:
            Dynamo0p3KernelConstTrans().apply(kern, {"number_of_layers": 20 + version})
    return psy, kerns


# ---------------------------------------------------- process-local state

class ProcState:
    '''Runs are threads of one interpreter, but runs of different PROCESSES must
    not share what a process keeps in memory.  The only such memory reachable
    from rename_and_write besides the run's own objects is class-level state of
    CodedKern (its bases and subclasses) and module-level state of
    psyclone.psyGen: every mutable (set/dict/list) attribute found there is
    given one private copy per process, installed whenever the scheduler lets a
    run of that process execute (one run executes at a time).'''

    pristine = None        # [(owner, name, import-time value)], see init()

    @classmethod
    def slots(cls):
        from psyclone import psyGen
        from psyclone.psyGen import CodedKern

        def subclasses(klass):
            out = []
            for sub in klass.__subclasses__():
                out.append(sub)
                out.extend(subclasses(sub))
            return out
        owners = [k for k in CodedKern.__mro__ if k is not object]
        owners += sorted(set(subclasses(CodedKern)), key=lambda k: k.__qualname__)
        owners.append(psyGen)
        return [(own, name) for own in owners for name, val in sorted(vars(own).items())
                if isinstance(val, (set, dict, list)) and not name.startswith("__")]

    @classmethod
    def init(cls):
        '''Remember the state a fresh process starts with (call before any replay).'''
        import copy
        cls.pristine = [(own, name, copy.deepcopy(getattr(own, name)))
                        for own, name in cls.slots()]

    @classmethod
    def fresh(cls):
        import copy
        return [(own, name, copy.deepcopy(val)) for own, name, val in cls.pristine]

    @staticmethod
    def install(state):
        for own, name, val in state:
            setattr(own, name, val)

    @staticmethod
    def capture(state):
        return [(own, name, getattr(own, name)) for own, name, _ in state]


def set_config(outdir, scheme):
    from psyclone.configuration import Config
    cfg = Config.get()
    cfg.kernel_output_dir = outdir
    cfg.kernel_naming = scheme


# ------------------------------------------------------------ classification

class Classifier:
    '''Content class of a kernel file relative to reference texts (one per
    kernel version, produced by the same code in a sequential, unshimmed run).'''

    def __init__(self, refs):
        base = SUBJECT["base"]
        self.base = base
        self.refs = {k: self._norm(t, 0) for k, t in refs.items()}
        self.re_mod = re.compile(r"^\s*module\s+" + base + r"_(\d+)_mod\s*$",
                                 re.I | re.M)
        self.re_file = re.compile("^" + base + r"_(\d+)_mod\.f90$")
        # tempfile.mkstemp(prefix=<final name> + ".", suffix=".tmp")
        self.re_tmp = re.compile("^" + base + r"_(\d+)_mod\.f90\..*\.tmp$")

    def _norm(self, text, tag):
        return text.replace(f"{self.base}_{tag}_", f"{self.base}_#_")

    def tag_of(self, fname):
        m = self.re_file.match(fname)
        return m.group(1) if m else None

    def is_tmp(self, fname):
        return bool(self.re_tmp.match(fname))

    def classify(self, text):
        '''-> (class, inner tag).'''
        if text == "":
            return "empty", -1
        m = self.re_mod.search(text)
        if m:
            tag = int(m.group(1))
            norm = self._norm(text, tag)
            for k, ref in self.refs.items():
                if norm == ref:
                    return f"v{k}", tag
        for tag in range(0, 8):
            norm = self._norm(text, tag)
            for ref in self.refs.values():
                if len(norm) < len(ref) and ref.startswith(norm):
                    return "partial", -1
        return "other", -1


# ------------------------------------------------------------------ the shim

class Scheduler:
    def __init__(self, outdir, classifier, split_write=False):
        self.cv = threading.Condition()
        self.tls = threading.local()
        self.state = {}          # run -> "running" | "blocked" | "done"
        self.pending = {}        # run -> description of the call it waits before
        self.grant = None
        self.outdir = outdir
        self.cls = classifier
        self.split_write = split_write
        self.last_event = None
        self.fdname = {}         # (run, fd) -> tag
        self.creator = {}        # file name -> run
        self.writers = {}        # file name -> set of runs
        self.bytes = {}          # file name -> bytes seen after the previous step
        self.result = {}         # run -> (res, text, exception repr)
        self.aborted = False     # the replay was given up: blocked runs end
        self.proc_of = {}        # run -> process
        self.procstate = {}      # process -> its private class/module-level state

    # ---- run side
    def current(self):
        return getattr(self.tls, "run", None)

    def name_of(self, path):
        fname = os.path.basename(str(path))
        tag = self.cls.tag_of(fname)
        same_dir = os.path.dirname(os.path.abspath(str(path))) == \
            os.path.abspath(self.outdir)
        if same_dir and tag is not None:
            return tag
        if same_dir and self.cls.is_tmp(fname):
            return "tmp"
        return "x:" + fname

    def step(self, call, name, flags, action, classify=None, ends=None):
        '''Block until released, then perform `action` for real.  `ends`: the
        previous run of the same process, over at the moment this one waits.'''
        run = self.current()
        if run is None:
            return action()
        with self.cv:
            if ends is not None:
                self.state[ends] = "done"
                self.pending[ends] = "done"
            self.pending[run] = call
            self.state[run] = "blocked"
            self.cv.notify_all()
            slices = 0
            while self.grant != run:
                if self.aborted:
                    raise Stall(f"replay given up while run {run} waited before {call}")
                if not self.cv.wait(SLICE_S):
                    slices += 1
                    if slices >= STALL_SLICES:
                        raise Stall(f"run {run} never released before {call}")
            self.grant = None
            self.state[run] = "running"
        event = {"run": run, "call": call, "name": name, "flags": flags,
                 "res": "ok", "cls": ""}
        self.last_event = event
        try:
            value = action()
        except OSError as err:
            event["res"] = errno.errorcode.get(err.errno, "E?")
            raise
        if classify is not None:
            event["cls"] = self.cls.classify(classify(value))[0]
        return value

    # ---- scheduler side
    def start_process(self, proc, runs, bodies):
        '''One thread per process: its runs one after the other, each waiting at
        its "begin" gate (the entry of rename_and_write) to be released.'''
        def wrapper():
            prev = None
            try:
                for run in runs:
                    self.tls.run = run
                    self.step("begin", "", "", lambda: None, ends=prev)
                    bodies[run]()
                    prev = run
            finally:
                with self.cv:
                    for run in runs:
                        self.state[run] = "done"
                        self.pending[run] = "done"
                    self.cv.notify_all()
        self.procstate[proc] = ProcState.fresh()
        with self.cv:
            for run in runs:
                self.proc_of[run] = proc
                self.state[run] = "waiting"      # not yet at its gate
            self.state[runs[0]] = "running"
        thr = threading.Thread(target=wrapper, name=f"proc{proc}", daemon=True)
        thr.start()
        self._wait_quiet(runs[0])
        return thr

    def abort(self):
        '''End the runs that are still blocked (after a failed replay).'''
        with self.cv:
            self.aborted = True
            self.cv.notify_all()

    def _wait_quiet(self, run):
        with self.cv:
            slices = 0
            while not (self.grant is None and self.state[run] != "running"):
                if not self.cv.wait(SLICE_S):
                    slices += 1
                    if slices >= STALL_SLICES:
                        raise Stall(f"run {run} neither blocked nor ended")

    def release(self, run):
        '''Let `run` perform the call it is blocked before and everything up to
        its next file-system call; -> the recorded event with the projection.'''
        with self.cv:
            if self.state[run] != "blocked":
                raise Stall(f"run {run} is not blocked ({self.state[run]})")
            self.last_event = None
            # what this run's process keeps in (class/module-level) memory
            ProcState.install(self.procstate[self.proc_of[run]])
            self.grant = run
            self.cv.notify_all()
        self._wait_quiet(run)
        self.procstate[self.proc_of[run]] = ProcState.capture(
            self.procstate[self.proc_of[run]])
        event = self.last_event
        wrote = None
        if event["call"] == "write" and event["res"] == "ok" and event["name"].isdigit():
            wrote = f"{SUBJECT['base']}_{event['name']}_mod.f90"
        event["fs"], event["tmps"], event["stray"] = self.project(run, wrote)
        if event["call"] == "write":
            # class of the file content after the write
            if event["name"] == "tmp":
                event["cls"] = next((t["content"] for t in event["tmps"]
                                     if t["by"] == run), "")
            else:
                event["cls"] = next((f["content"] for f in event["fs"]
                                     if f["name"] == event["name"]), "")
        event["next"] = self.pending[run]
        return event

    def project(self, run, wrote=None):
        '''Abstract file system of the output directory; differences to the
        previous projection are attributed to `run` (0 = before the runs), and
        so is a successful write call to the file `wrote` (even if it left the
        same bytes).'''
        files, tmps, stray = [], [], 0
        now = {}
        for fname in sorted(os.listdir(self.outdir)):
            with builtins.open(os.path.join(self.outdir, fname), "rb") as fin:
                now[fname] = fin.read()
        for fname, data in now.items():
            if fname not in self.creator:
                self.creator[fname] = run
                self.writers[fname] = set()
            elif self.bytes.get(fname) != data or fname == wrote:
                self.writers[fname].add(run)
        for fname in list(self.bytes):
            if fname not in now:            # removed (or renamed away)
                self.creator.pop(fname, None)
                self.writers.pop(fname, None)
        self.bytes = now
        for fname, data in now.items():
            tag = self.cls.tag_of(fname)
            if tag is None and not self.cls.is_tmp(fname):
                stray += 1
                continue
            cls, inner = self.cls.classify(data.decode(errors="replace"))
            if tag is None:
                # a temporary file: projected apart from the final kernel files
                tmps.append({"by": self.creator[fname], "content": cls, "inner": inner})
            else:
                files.append({"name": tag, "by": self.creator[fname],
                              "w": sorted(self.writers[fname]),
                              "content": cls, "inner": inner})
        tmps.sort(key=lambda t: (t["by"], t["content"]))
        return files, tmps, stray


def _flag_names(flags):
    names = [n for n in ("O_CREAT", "O_EXCL", "O_WRONLY", "O_RDWR", "O_TRUNC",
                         "O_APPEND") if flags & getattr(os, n)]
    return "|".join(names) or "O_RDONLY"


class FileProxy:
    '''File object whose read/write/close are scheduled steps.'''

    def __init__(self, sched, real, name, reading):
        self._s, self._f, self._n, self._r = sched, real, name, reading

    def read(self, *args):
        return self._s.step("read", self._n, "", lambda: self._f.read(*args),
                            classify=lambda v: v if isinstance(v, str)
                            else v.decode(errors="replace"))

    def readlines(self, *args):
        return self._s.step("read", self._n, "", lambda: self._f.readlines(*args),
                            classify="".join)

    def write(self, data):
        def act():
            res = self._f.write(data)
            self._f.flush()
            return res
        return self._s.step("write", self._n, "", act)

    def close(self):
        return self._s.step("closer" if self._r else "close", self._n, "",
                            self._f.close)

    def __enter__(self):
        return self

    def __exit__(self, *exc):
        self.close()
        return False

    def __iter__(self):
        return iter(self.readlines())

    def __getattr__(self, attr):
        return getattr(self._f, attr)


class PathProxy:
    def __init__(self, sched):
        self._s = sched

    def __getattr__(self, attr):
        real = getattr(os.path, attr)
        if attr in ("exists", "isfile", "lexists", "getsize", "isdir", "getmtime"):
            def probe(path, *args):
                return self._s.step("stat", self._s.name_of(path), attr,
                                    lambda: real(path, *args))
            return probe
        return real


class OsProxy:
    '''Stands for the `os` module inside psyclone.psyGen.'''

    def __init__(self, sched):
        self._s = sched
        self.path = PathProxy(sched)

    def __getattr__(self, attr):
        real = getattr(os, attr)
        if attr in ("link", "rename", "replace", "symlink"):
            def two(src, dst, *args, **kw):
                return self._s.step(attr, self._s.name_of(dst),
                                    self._s.name_of(src),
                                    lambda: real(src, dst, *args, **kw))
            return two
        if attr in ("unlink", "remove", "stat", "lstat", "listdir", "mkdir",
                    "makedirs", "access", "truncate", "chmod", "utime"):
            def one(path, *args, **kw):
                return self._s.step(attr, self._s.name_of(path), "",
                                    lambda: real(path, *args, **kw))
            return one
        if attr in ("fsync", "fdatasync", "ftruncate", "fstat", "lseek"):
            def onfd(fdesc, *args):
                name = self._s.fdname.get((self._s.current(), fdesc), "x:fd")
                return self._s.step(attr, name, "", lambda: real(fdesc, *args))
            return onfd
        return real

    def open(self, path, flags, mode=0o777, **kw):
        sch = self._s
        name = sch.name_of(path)
        if flags & os.O_CREAT:
            call = "creat"
        elif flags & (os.O_WRONLY | os.O_RDWR):
            call = "openw"
        else:
            call = "openr"
        fdesc = sch.step(call, name, _flag_names(flags),
                         lambda: os.open(path, flags, mode, **kw))
        sch.fdname[(sch.current(), fdesc)] = name
        return fdesc

    def write(self, fdesc, data):
        sch = self._s
        name = sch.fdname.get((sch.current(), fdesc), "x:fd")
        if sch.split_write and sch.current() is not None and len(data) > 1:
            half = len(data) // 2
            done = sch.step("write", name, "half",
                            lambda: os.write(fdesc, data[:half]))
            return done + sch.step("write", name, "rest",
                                   lambda: os.write(fdesc, data[half:]))
        return sch.step("write", name, "", lambda: os.write(fdesc, data))

    def read(self, fdesc, size):
        sch = self._s
        name = sch.fdname.get((sch.current(), fdesc), "x:fd")
        return sch.step("read", name, "", lambda: os.read(fdesc, size),
                        classify=lambda v: v.decode(errors="replace"))

    def close(self, fdesc):
        sch = self._s
        name = sch.fdname.pop((sch.current(), fdesc), "x:fd")
        return sch.step("close", name, "", lambda: os.close(fdesc))

    def fdopen(self, fdesc, mode="r", *args, **kw):
        sch = self._s
        name = sch.fdname.get((sch.current(), fdesc), "x:fd")
        return FileProxy(sch, os.fdopen(fdesc, mode, *args, **kw), name,
                         reading=("r" in mode and "+" not in mode))


def make_mkstemp(sched, real_mkstemp):
    '''Stands for tempfile.mkstemp (psyGen imports tempfile locally).'''
    def shim_mkstemp(*args, **kw):
        run = sched.current()
        if run is None:
            return real_mkstemp(*args, **kw)
        where = kw.get("dir", args[2] if len(args) > 2 else None)
        inside = where is not None and \
            os.path.abspath(str(where)) == os.path.abspath(sched.outdir)
        fdesc, path = sched.step("mkstemp", "tmp" if inside else "x:mkstemp", "",
                                 lambda: real_mkstemp(*args, **kw))
        sched.fdname[(run, fdesc)] = sched.name_of(path)
        return fdesc, path
    return shim_mkstemp


def make_open(sched):
    def shim_open(path, mode="r", *args, **kw):
        if sched.current() is None:
            return builtins.open(path, mode, *args, **kw)
        name = sched.name_of(path)
        reading = "r" in mode and "+" not in mode
        real = sched.step("openr" if reading else "openw", name, mode,
                          lambda: builtins.open(path, mode, *args, **kw))
        return FileProxy(sched, real, name, reading)
    return shim_open


# ---------------------------------------------------------------- one replay

class PsyFacts:
    def __init__(self):
        base = SUBJECT["base"]
        self.re_use = re.compile(r"use\s+" + base + r"_(\d+)_mod\s*,\s*only\s*:\s*"
                                 + base + r"_(\d+)_code", re.I)
        self.re_call = re.compile(r"call\s+" + base + r"_(\d+)_code\s*\(", re.I)
        self.re_any = re.compile(r"(?:use|call)\s+" + base + r"\w*", re.I)

    def used_by_kernel(self, kern):
        '''Tag of the module/routine names a kernel object hands to its PSy layer.'''
        base = SUBJECT["base"]
        mmod = re.fullmatch(base + r"_(\d+)_mod", kern.module_name, re.I)
        msub = re.fullmatch(base + r"_(\d+)_code", kern.name, re.I)
        if mmod and msub and mmod.group(1) == msub.group(1):
            return int(mmod.group(1))
        return -1

    def used(self, code):
        '''Tag of the kernel module/routine the PSy layer uses; -1 if it is not
        one consistent tagged name.'''
        uses = self.re_use.findall(code)
        calls = self.re_call.findall(code)
        tags = {t for pair in uses for t in pair} | set(calls)
        every = self.re_any.findall(code)
        if len(tags) == 1 and uses and calls and len(every) == len(uses) + len(calls):
            return int(tags.pop())
        return -1


def replay(case, info, refs, blob=None, info2=None):
    '''Run case["sched"] with real concurrent runs.  A run is one call of
    rename_and_write on its own transformed kernel object; the runs of one
    process (case["proc"]) happen one after the other in one thread:
      mode "gen":   every run is a generate (psy.gen) of its own fresh PSy object
                    (a process that generates several times into the directory);
      mode "layer": the runs of a process with >= 2 runs are kernel objects of
                    ONE PSy layer, transformed differently, whose
                    rename_and_write calls follow each other.
    -> the recorded trace.'''
    from psyclone import psyGen
    from psyclone.errors import GenerationError
    from pv import core
    nruns, scheme, pre, ver = case["nruns"], case["scheme"], case["pre"], case["ver"]
    proc = case.get("proc") or list(range(1, 4))
    mode = case.get("mode", "gen")
    import tempfile
    outdir = core.mktemp("pv-c29-out-")
    real_os, had_open = psyGen.os, "open" in vars(psyGen)
    real_mkstemp = tempfile.mkstemp
    sched = None
    try:
        set_config(outdir, scheme)
        if ProcState.pristine is None:
            ProcState.init()
        procs = {}
        for run in range(1, nruns + 1):
            procs.setdefault(proc[run - 1], []).append(run)
        facts = PsyFacts()
        actions = {}            # run -> callable -> tag used by the PSy layer
        for runs in procs.values():
            if mode == "layer" and len(runs) >= 2 and info2 is not None:
                _, kerns = make_layer(info2, [ver[r - 1] for r in runs], blob)
                for run, kern in zip(runs, kerns):
                    def act(kern=kern):
                        kern.rename_and_write()
                        return facts.used_by_kernel(kern)
                    actions[run] = act
            else:
                for run in runs:
                    def act(psy=make_psy(info, ver[run - 1], blob)):
                        return facts.used(str(psy.gen))
                    actions[run] = act
        if pre:
            # the kernel an earlier, completed, sequential run of version `pre`
            # wrote (refs[pre] is the text such a run writes, tag 0)
            with builtins.open(os.path.join(
                    outdir, SUBJECT["base"] + "_0_mod.f90"), "w") as fout:
                fout.write(refs[pre])
        classifier = Classifier(refs)
        sched = Scheduler(outdir, classifier, split_write=case.get("split", False))
        fs0, _, stray0 = sched.project(0)
        psyGen.os = OsProxy(sched)
        psyGen.open = make_open(sched)
        tempfile.mkstemp = make_mkstemp(sched, real_mkstemp)

        def body(run):
            def inner():
                try:
                    sched.result[run] = ("ok", actions[run](), "")
                except GenerationError as err:
                    known = "already exists in the kernel-output directory" in str(err)
                    sched.result[run] = ("error" if known else "crash", -1,
                                         str(err)[:300])
                except Stall:
                    raise
                except Exception as err:     # pylint: disable=broad-except
                    sched.result[run] = ("crash", -1, repr(err)[:300])
            return inner

        for pid, runs in sorted(procs.items()):
            sched.start_process(pid, runs, {run: body(run) for run in runs})
        events, skipped = [], 0
        order = list(case["sched"])
        pos = 0
        while True:
            live = [r for r in range(1, nruns + 1) if sched.state[r] == "blocked"]
            if not live:
                break
            if pos < len(order):
                run = order[pos]
                pos += 1
                if sched.state.get(run) != "blocked":
                    skipped += 1          # the real run ended earlier than the model's
                    continue
            else:
                run = live[0]             # drain: the model's schedule is exhausted
                skipped += 1
            events.append(sched.release(run))
            if len(events) > 200:
                raise Stall("more than 200 file-system calls in one replay")
        for run in range(1, nruns + 1):
            if run not in sched.result:
                raise Stall(f"run {run} ended without a verdict")
        fin = []
        for run in range(1, 4):
            res, used, msg = sched.result.get(run, ("off", -1, ""))
            fin.append({"res": res, "used": used, "msg": msg})
        return {"id": case["id"], "scheme": scheme, "pre": pre, "ver": ver,
                "proc": proc, "mode": mode,
                "nruns": nruns, "split": bool(case.get("split", False)),
                "sched": case["sched"], "fs0": fs0, "stray0": stray0,
                "events": events, "fin": fin, "resched": skipped}
    finally:
        if sched is not None:
            sched.abort()
        if ProcState.pristine is not None:
            ProcState.install(ProcState.fresh())
        tempfile.mkstemp = real_mkstemp
        psyGen.os = real_os
        if not had_open and "open" in vars(psyGen):
            del psyGen.open
        shutil.rmtree(outdir, ignore_errors=True)
