'''C29 - transformed-kernel output never clobbers other kernels.

spec/KernelOutput.tla models up to three concurrent runs of
CodedKern.rename_and_write, one action per file-system call ('multiple':
O_CREAT|O_EXCL create / write / close; 'single': mkstemp / write / close / link /
unlink / read-back), and is model-checked by TLC over ALL interleavings (both
naming schemes, with and without a kernel left by an earlier run, atomic and
split writes); since commit ea5fcc1 (atomic publication by os.link) TLC finds no
counter-example for either scheme.

Binding A (spec -> code): schedules of TLC's reachable graph (every schedule of
a configuration with few schedules, otherwise a seeded uniform sample plus a
cover of every transition of the 2-run graphs and of as many transitions of the
3-run graphs as the budget allows; a counter-example, should TLC find one) are
replayed with REAL concurrent runs (pv.c29_shim: threads
running the real psy.gen, every file-system call of psyGen gated by a
scheduler; one step in flight); after each step the projected directory is
compared with the model state.
Binding B (code -> spec): the recorded real traces are validated by TLC against
the same actions (spec/Trace_KernelOutput.tla); TLC evaluates the property
clauses over the recorded facts and prints one VERDICT per failing trace.
'''
import contextlib
import io
import json
import os
import random
import re
import shutil
import sys
import time

from pv import core
from pv import c29_shim as shim

PROP = "C29"
MAXRUNS = 3


# ------------------------------------------------------------ known findings

def _match_single_readback_before_write(case, clause, detail, finding):
    '''(The finding is marked fixed in findings.d/C29.json - ea5fcc1 - so core no
    longer offers it to this matcher; kept for trees without that commit.)
    single scheme: the ONLY failing clauses are "a run failed although the
    shared file's creator has the same kernel" and/or "verdict based on an
    empty/partial file"; every affected run read the file while its creator
    (another run) was still before/inside its write; the whole trace is a
    behaviour of the model (no off-model step).'''
    fails = set(clause.split(","))
    if case["scheme"] != "single" or not fails:
        return False
    if not fails <= {"SingleFailOnlyIfDifferent", "NoPartialVerdict"}:
        return False
    if detail["divs"] != 0 or any(detail["off"]):
        return False
    early = set()
    for run in range(1, case["nruns"] + 1):
        seen = detail["seen"][run - 1]
        if seen["c"] in ("empty", "partial"):
            if seen["by"] in (0, run) or seen["bypc"] not in ("write", "write2"):
                return False
            early.add(run)
    if not early:
        return False
    files = detail["fs"]
    if not isinstance(files, dict) or list(files) != ["0"]:
        return False
    shared = files["0"]
    if not shared["content"].startswith("v") or shared["w"] not in ([], [shared["by"]]):
        return False
    for run in range(1, case["nruns"] + 1):
        if detail["res"][run - 1] in ("error", "crash"):
            cver = case["pre"] if shared["by"] == 0 else case["ver"][shared["by"] - 1]
            justified = shared["by"] != run and cver != case["ver"][run - 1]
            if not justified and run not in early:
                return False          # an unjustified failure of another shape
    return True


MATCHERS = {"single-readback-before-write": _match_single_readback_before_write}


# ----------------------------------------------------------- model and graph

def _tlc_value(text):
    '''TLC's printed value (tuples, sets, strings, integers) -> Python.'''
    body = text.replace('\\"', '"')
    body = (body.replace("<<", "[").replace(">>", "]")
            .replace("{", "[").replace("}", "]")
            .replace("TRUE", "true").replace("FALSE", "false"))
    return json.loads(body)


class Graph:
    '''Reachable graph of KernelOutput as dumped by TLC (DumpTransition).'''

    def __init__(self, res):
        self.succ = {}
        targets = set()
        self.nedges = printed = 0
        for line in res.out.splitlines():
            if not line.startswith('"EDGE '):
                continue
            try:
                src, opr, dst, bad = _tlc_value(line[len('"EDGE '):-1])
            except ValueError:
                raise core.MachineryError("unparsable EDGE line: " + line[:200])
            ksrc, kdst = json.dumps(src), json.dumps(dst)
            edge = (opr, kdst, bad)
            printed += 1
            # states that differ only in what the VIEW keeps but Abs drops
            # print the same abstract edge more than once
            if edge not in self.succ.setdefault(ksrc, []):
                self.succ[ksrc].append(edge)
                self.nedges += 1
            self.succ.setdefault(kdst, [])
            targets.add(kdst)
        # every printed path must end in a state in which all runs have finished
        for key, out in self.succ.items():
            if not out and any(p not in ("done", "off") for p in json.loads(key)[4]):
                raise core.MachineryError("transition dump incomplete: a printed "
                                          "path ends in " + key[:200])
        if not printed:
            raise core.MachineryError("TLC printed no transition")
        for lst in self.succ.values():
            lst.sort(key=lambda e: (e[0][0], e[1]))
        self.inits = sorted(k for k in self.succ if k not in targets)
        self._count = {}

    def count(self, key):
        '''Number of maximal paths from key (the graph is acyclic).'''
        if key not in self._count:
            out = self.succ[key]
            self._count[key] = 1 if not out else sum(self.count(t) for _, t, _ in out)
        return self._count[key]

    def all_paths(self, key):
        out = self.succ[key]
        if not out:
            yield []
            return
        for edge in out:
            for rest in self.all_paths(edge[1]):
                yield [edge] + rest

    def random_path(self, key, rnd):
        '''Uniform over the maximal paths from key.'''
        path = []
        while self.succ[key]:
            out = self.succ[key]
            pick = rnd.randrange(self.count(key))
            for edge in out:
                cnt = self.count(edge[1])
                if pick < cnt:
                    break
                pick -= cnt
            path.append(edge)
            key = edge[1]
        return path


# Abs = <<scheme, pre, ver, FsKey, pc, idx, used, res, seen classes, TmpKey, split, proc>>
def _case_of(init, path, cid, origin):
    first = json.loads(init)
    scheme, pre, ver, _, pcs = first[:5]
    bad = sorted({b for edge in path for b in edge[2]})
    steps = []
    for edge in path:
        after = json.loads(edge[1])
        steps.append([edge[0], after[3], after[9]])
    return {"id": cid, "scheme": scheme, "pre": pre, "ver": ver,
            "nruns": sum(1 for p in pcs if p != "off"), "split": bool(first[10]),
            "proc": first[11],
            # how the runs of one process are realised: kernels of one PSy
            # layer (even ids) or successive generates (odd ids)
            "mode": "layer" if cid % 2 == 0 else "gen",
            "sched": [edge[0][0] for edge in path], "origin": origin,
            "model": steps, "model_end": json.loads(path[-1][1]), "model_bad": bad}


def _schedules(graph, all_cap, sample2, sample3, cover3_cap, rnd, next_id):
    '''Per configuration (= initial state): ALL its schedules if there are at
    most `all_cap`; otherwise `sample2`/`sample3` uniformly drawn schedules
    (2/3 runs) plus schedules through transitions not yet covered - without
    limit for the 2-run graphs, up to `cover3_cap` in total for the 3-run ones.'''
    cases = []
    info = {"configurations": 0, "configurations_exhaustive": 0, "all": 0,
            "sampled": 0, "cover": 0, "schedules_in_model": 0}
    covered = set()
    edges_of = {}

    def add(init, path, origin):
        cases.append(_case_of(init, path, next_id[0], origin))
        next_id[0] += 1
        key = init
        for edge in path:
            covered.add((key, edge[0][0], edge[1]))
            key = edge[1]

    sampled = []
    for init in graph.inits:
        nruns = sum(1 for p in json.loads(init)[4] if p != "off")
        info["configurations"] += 1
        info["schedules_in_model"] += graph.count(init)
        if graph.count(init) <= all_cap:
            info["configurations_exhaustive"] += 1
            for path in graph.all_paths(init):
                add(init, path, "all")
                info["all"] += 1
            continue
        sampled.append((nruns, init))
        seen = set()
        for _ in range(sample2 if nruns <= 2 else sample3):
            path = graph.random_path(init, rnd)
            sig = tuple(e[0][0] for e in path)
            if sig not in seen:
                seen.add(sig)
                add(init, path, "sample")
                info["sampled"] += 1
    # transition cover: prefix = BFS tree path, then the edge, then a random suffix
    cover3 = 0
    for nruns, init in sorted(sampled):
        parent = {init: None}
        queue = [init]
        for key in queue:
            for edge in graph.succ[key]:
                if edge[1] not in parent:
                    parent[edge[1]] = (key, edge)
                    queue.append(edge[1])
        edges_of[init] = sum(len(graph.succ[k]) for k in queue)
        for key in queue:
            for edge in graph.succ[key]:
                if (key, edge[0][0], edge[1]) in covered:
                    continue
                if nruns > 2 and cover3 >= cover3_cap:
                    continue
                prefix, cur = [], key
                while parent[cur] is not None:
                    cur, via = parent[cur]
                    prefix.append(via)
                prefix.reverse()
                add(init, prefix + [edge] + graph.random_path(edge[1], rnd), "cover")
                info["cover"] += 1
                cover3 += nruns > 2
    info["edges"] = graph.nedges
    info["edges_covered"] = len(covered)
    return cases, info


def _counterexample(res):
    '''Schedule of the error trace TLC printed for KernelOutput_check.cfg.'''
    blocks = re.split(r"\nState \d+: ", res.out)
    if len(blocks) < 3:
        raise core.MachineryError("no error trace in TLC output")

    def field(block, name):
        m = re.search(r"/\\ " + name + r" = (.*)", block)
        return m.group(1).strip() if m else None
    first = blocks[1]
    sched = []
    for block in blocks[2:]:
        m = re.search(r"run \|-> (\d+)", field(block, "lastOp") or "")
        if not m:
            raise core.MachineryError("error trace without lastOp")
        sched.append(int(m.group(1)))
    pcs = _tlc_value(field(first, "pc"))
    return {"scheme": json.loads(field(first, "scheme")), "pre": int(field(first, "pre")),
            "ver": _tlc_value(field(first, "ver")),
            "split": field(first, "split") == "TRUE",
            "proc": _tlc_value(field(first, "proc")), "mode": "gen",
            "nruns": sum(1 for p in pcs if p != "off"), "sched": sched}


# ------------------------------------------------------------------- replays

_PREP = {}


def _prepare():
    '''Parse the subject once (pool workers inherit it) and produce the
    reference text of every kernel version with a sequential, unshimmed run
    of the same code.'''
    sink = io.StringIO()
    with contextlib.redirect_stdout(sink):
        info = shim.parse_subject(core.REPO)
        blob = shim.kernel_tree_blob(info)
        refs = {}
        for ver in (1, 2):
            outs = []
            for use_blob in (None, blob):
                tmp = core.mktemp("pv-c29-ref-")
                try:
                    shim.set_config(tmp, "multiple")
                    code = str(shim.make_psy(info, ver, use_blob).gen)
                    names = os.listdir(tmp)
                    if names != [shim.SUBJECT["base"] + "_0_mod.f90"]:
                        raise core.MachineryError(f"reference run wrote {names}")
                    with open(os.path.join(tmp, names[0])) as fin:
                        outs.append((code, fin.read()))
                finally:
                    shutil.rmtree(tmp, ignore_errors=True)
            if outs[0] != outs[1]:
                raise core.MachineryError("a PSy object built on the pickled kernel "
                                          "parse tree differs from a re-parsed one")
            refs[ver] = outs[0][1]
    if refs[1] == refs[2] or not refs[1]:
        raise core.MachineryError("kernel versions are not distinguishable")
    # runs of one process as kernel objects of ONE PSy layer: same kernel text
    with contextlib.redirect_stdout(sink):
        info2 = shim.parse_layer_subject()
        _, kerns = shim.make_layer(info2, [1, 2, 1], blob)
        texts = []
        for kern in kerns:
            # one empty directory per kernel object: this check of the machinery
            # must not depend on the property under test
            tmp = core.mktemp("pv-c29-ref-")
            try:
                shim.set_config(tmp, "multiple")
                kern.rename_and_write()
                with open(os.path.join(tmp, shim.SUBJECT["base"] + "_0_mod.f90")) as fin:
                    texts.append(fin.read())
            finally:
                shutil.rmtree(tmp, ignore_errors=True)
    if texts != [refs[1], refs[2], refs[1]]:
        raise core.MachineryError("kernel objects of the layer subject do not write "
                                  "the reference kernel texts")
    shim.ProcState.init()
    _PREP["info"], _PREP["refs"], _PREP["blob"], _PREP["info2"] = info, refs, blob, info2


def _replay_chunk(cases):
    out = []
    sink = io.StringIO()
    for case in cases:
        try:
            with contextlib.redirect_stdout(sink):
                out.append(shim.replay(case, _PREP["info"], _PREP["refs"], _PREP["blob"],
                                       _PREP["info2"]))
        except shim.Stall as err:
            out.append({"id": case["id"], "stall": str(err)})
        except Exception as err:      # pylint: disable=broad-except
            import traceback
            out.append({"id": case["id"], "stall": "replay crashed: "
                        + traceback.format_exc()[-1500:] + repr(err)})
        sink.seek(0)
        sink.truncate()
    return out


def _replay_all(cases, procs):
    slim = [{k: c[k] for k in ("id", "scheme", "pre", "ver", "proc", "mode", "nruns",
                               "split", "sched")}
            for c in cases]
    size = max(1, min(25, len(slim) // (procs * 4) or 1))
    chunks = [slim[i:i + size] for i in range(0, len(slim), size)]
    traces = [t for part in core.pool_map(_replay_chunk, chunks, procs=procs,
                                          chunksize=1) for t in part]
    # a stalled handshake (overloaded machine) is retried once, alone
    for i, trace in enumerate(traces):
        if "stall" in trace:
            print(f"[C29] replay {trace['id']} retried after: {trace['stall'][-600:]}",
                  file=sys.stderr, flush=True)
            again = _replay_chunk([c for c in slim if c["id"] == trace["id"]])[0]
            if "stall" in again:
                raise core.MachineryError(f"replay {trace['id']}: {trace['stall']} / "
                                          f"retry: {again['stall']}")
            traces[i] = again
    return traces


def _compare_with_model(case, trace):
    '''Binding A: per step, the real call and the projected directory against
    the model's transition.  -> (steps compared, steps that differ).'''
    differ = 0
    model = case["model"]
    for i, event in enumerate(trace["events"]):
        if i >= len(model):
            differ += 1
            continue
        opr, fskey, tmpkey = model[i]
        real_fs = [[] for _ in fskey]
        for item in event["fs"]:
            tag = int(item["name"])
            if tag < len(real_fs):
                real_fs[tag] = [item["by"], item["w"], item["content"], item["inner"]]
        real_tmp = [["none", -1] for _ in tmpkey]
        for item in event["tmps"]:
            if 1 <= item["by"] <= len(real_tmp):
                real_tmp[item["by"] - 1] = [item["content"], item["inner"]]
        if ([event["run"], event["call"], event["name"], event["res"], event["cls"]] != opr
                or real_fs != fskey or real_tmp != tmpkey or event["stray"]
                or len(event["tmps"]) != sum(1 for t in tmpkey if t[0] != "none")):
            differ += 1
    differ += max(0, len(model) - len(trace["events"]))
    end = case["model_end"]
    for run in range(1, trace["nruns"] + 1):
        fin = trace["fin"][run - 1]
        if end[7][run - 1] != fin["res"] or (fin["res"] == "ok"
                                             and end[6][run - 1] != fin["used"]):
            differ += 1
    return max(len(model), len(trace["events"])), differ


# ----------------------------------------------------------- trace validation

def _tlc_case(trace):
    return {"id": trace["id"], "scheme": trace["scheme"], "pre": trace["pre"],
            "ver": trace["ver"], "proc": trace["proc"], "split": bool(trace["split"]),
            "nruns": trace["nruns"], "fs0": trace["fs0"],
            "events": [{k: e[k] for k in ("run", "call", "name", "res", "cls",
                                          "fs", "tmps", "stray")}
                       for e in trace["events"]],
            "fin": [{"res": f["res"], "used": f["used"]} for f in trace["fin"]]}


def _validate(traces, tmp, workers, cov):
    verdicts, diverged = {}, {}
    for split, cfg in ((None, "Trace_KernelOutput.cfg"),):
        every = traces
        # batches of <= 4000 traces (about 20 MB of JSON) per TLC run
        for lo in range(0, len(every), 4000):
            part = every[lo:lo + 4000]
            path = os.path.join(tmp, f"traces-{lo}.json")
            with open(path, "w") as fout:
                json.dump([_tlc_case(t) for t in part], fout, separators=(",", ":"))
            res = core.run_tlc("Trace_KernelOutput.tla", cfg, env={"PV_CASES": path},
                               workers=workers, timeout=3000)
            if os.environ.get("PV_C29_KEEP"):               # development only
                shutil.copy(path, os.environ["PV_C29_KEEP"])
            os.unlink(path)
            cov["states"] += res.distinct
            cov["transitions"] += res.generated
            # non-vacuity: every trace is consumed to its end: one state per
            # event, the initial state and the verdict state
            expect = sum(len(t["events"]) + 2 for t in part)
            if res.distinct != expect:
                raise core.MachineryError(
                    f"C29 trace validation did not consume every trace: "
                    f"{res.distinct} states, expected {expect}")
            for item in res.printed("VERDICT"):
                verdicts[item["id"]] = item
            for item in res.printed("DIVERGE"):
                diverged[item["id"]] = item
    return verdicts, diverged


def _corruptions(traces, by_id):
    '''Binding self-test: copies of traces TLC is expected to accept, with one
    recorded field flipped each; TLC must reject every copy with the named
    clause.  -> [(corrupted trace, expected clause)]'''
    import copy

    def pick(scheme):
        for trace in traces:
            case = by_id[trace["id"]]
            if (trace["scheme"] == scheme and trace["nruns"] == 2 and not trace["split"]
                    and trace["pre"] == 0 and trace["ver"][:2] == [1, 1]
                    and trace["proc"][:2] == [1, 2]
                    and not case["model_bad"] and trace["id"] != 0
                    and all(f["res"] == "ok" for f in trace["fin"][:2])):
                return trace
        return None
    res = []
    multi, single = pick("multiple"), pick("single")
    if multi:
        bad = copy.deepcopy(multi)            # PSy layer names the other run's file
        bad["fin"][0]["used"], bad["fin"][1]["used"] = (bad["fin"][1]["used"],
                                                        bad["fin"][0]["used"])
        res.append((bad, "PsyUsesOwn"))
        bad = copy.deepcopy(multi)            # a second run wrote into the file
        item = bad["events"][-1]["fs"][0]
        item["w"] = sorted(set(item["w"]) | {1, 2})
        res.append((bad, "WrittenByOne"))
        bad = copy.deepcopy(multi)            # names inside carry another tag
        item = bad["events"][-1]["fs"][0]
        item["inner"] = item["inner"] + 1
        res.append((bad, "NamesInside"))
    if single:
        bad = copy.deepcopy(single)           # identical kernels, yet one run failed
        readers = [r for r in (1, 2) if any(e["run"] == r and e["call"] == "read"
                                            for e in bad["events"])]
        if readers:
            bad["fin"][readers[0] - 1] = {"res": "error", "used": -1, "msg": ""}
            res.append((bad, "SingleFailOnlyIfDifferent"))
    for i, (bad, _) in enumerate(res):
        bad["id"] = 900001 + i
    return res


def _brief(trace):
    return {"id": trace["id"], "scheme": trace["scheme"], "pre": trace["pre"],
            "ver": trace["ver"], "proc": trace["proc"], "mode": trace["mode"],
            "nruns": trace["nruns"], "split": trace["split"],
            "sched": trace["sched"],
            "events": [[e["run"], e["call"], e["name"], e["res"], e["cls"]]
                       for e in trace["events"]],
            "fin": [[f["res"], f["used"]] for f in trace["fin"]]}


# ------------------------------------------------------------------------ run

def _model_tlc(spec, cfg, **kw):
    '''core.run_tlc; with PV_C29_CACHE=<dir> (development only) the output of
    the model-level runs, which depend on the specification alone, is reused.'''
    cache = os.environ.get("PV_C29_CACHE")
    if not cache:
        return core.run_tlc(spec, cfg, **kw)
    import hashlib
    import pickle
    with open(os.path.join(core.SPEC, spec)) as f1, open(os.path.join(core.SPEC, cfg)) as f2:
        key = hashlib.sha1((f1.read() + f2.read() + str(kw.get("coverage"))).encode()).hexdigest()
    path = os.path.join(cache, f"{cfg}-{key}.pkl")
    if os.path.exists(path):
        with open(path, "rb") as fin:
            return pickle.load(fin)
    res = core.run_tlc(spec, cfg, **kw)
    os.makedirs(cache, exist_ok=True)
    with open(path, "wb") as fout:
        pickle.dump(res, fout)
    return res


def _phase(name, t0):
    print(f"[C29] {name}: {time.time() - t0:.1f}s", flush=True)
    return time.time()


def run(tier):
    core.setup_psyclone_env()
    clock = time.time()
    out = core.Outcome(PROP, tier, "model_checking", matchers=MATCHERS)
    quick = tier == "quick"
    workers = int(os.environ.get("PV_PROCS", core.NCPU))   # PV_PROCS: development only
    cov = {"states": 0, "transitions": 0, "traces_validated_against_impl": 0,
           "samples": [], "exhaustive": False, "divergences": 0, "unsupported": 0}

    # 1. design level + reachable graph: ONE TLC run checks every invariant over
    #    all interleavings of 1..3 runs (both schemes, earlier kernel or not,
    #    atomic and split writes) and prints the transitions of the cases that
    #    are replayed (quick: DumpQuick; thorough: all) ---------------------------
    cfg = "KernelOutput_dump.cfg" if quick else "KernelOutput_dump_thorough.cfg"
    res = _model_tlc("KernelOutput.tla", cfg, check=False, workers=workers)
    if res.error:
        raise core.MachineryError(f"{cfg}: {res.error}")
    cov["states"] += res.distinct
    cov["transitions"] += res.generated
    cov["model_states"] = res.distinct
    rnd = random.Random(1000003 * core.seed() + 29)
    next_id = [1]
    cases, sched_info, cex = [], {}, None
    if res.invariant_violated:
        # the model itself violates a clause: replay TLC's counter-example with
        # the real code, whose recorded trace decides (one worker: deterministic)
        res = core.run_tlc("KernelOutput.tla", "KernelOutput_check.cfg", check=False,
                           workers=1)
        if res.error or not res.invariant_violated:
            raise core.MachineryError("KernelOutput_check.cfg: " + str(res.error))
        cex = _counterexample(res)
        cov["model_counterexample"] = {"invariant": res.invariant_violated, **cex}
        print(f"[C29] MODEL COUNTER-EXAMPLE {res.invariant_violated}: {cex}")
        cases.append({"id": 0, "origin": "tlc-counterexample", "model": None,
                      "model_bad": [res.invariant_violated], **cex})
    else:
        graph = Graph(res)
        if quick:
            new, info = _schedules(graph, 130, 30, 15, 150, rnd, next_id)
        else:
            new, info = _schedules(graph, 1000, 100, 40, 1500, rnd, next_id)   # ~13k real replays
        cases += new
        sched_info[cfg] = info
    cov["schedules"] = sched_info
    limit = int(os.environ.get("PV_C29_LIMIT", "0"))        # development only
    if limit and len(cases) > limit:
        cases = cases[::len(cases) // limit] + cases[-1:]
        cov["dev_limit"] = limit

    clock = _phase(f"TLC: {res.distinct} states, all invariants "
                   f"{'hold' if cex is None else 'DO NOT hold'}; {len(cases)} schedules",
                   clock)
    # 3. binding A: replay every schedule with real concurrent runs -----------
    _prepare()
    traces = _replay_all(cases, workers)
    clock = _phase("replays with real concurrent runs", clock)
    by_id = {c["id"]: c for c in cases}
    steps = differ = 0
    for trace in traces:
        case = by_id[trace["id"]]
        if case["model"] is not None:
            cmp_steps, cmp_differ = _compare_with_model(case, trace)
            steps += cmp_steps
            differ += cmp_differ
            trace["model_differ"] = cmp_differ
    cov["replay_steps_compared"] = steps
    cov["replay_steps_differing_from_model"] = differ

    # 4. binding B: TLC validates the recorded traces and decides -------------
    corrupted = _corruptions(traces, by_id)
    tmp = core.mktemp("pv-c29-")
    try:
        verdicts, diverged = _validate(traces + [c for c, _ in corrupted], tmp,
                                       workers, cov)
    finally:
        shutil.rmtree(tmp, ignore_errors=True)
    for bad, clause in corrupted:
        verdict = verdicts.pop(bad["id"], None)
        diverged.pop(bad["id"], None)
        if verdict is None or clause not in verdict["v"]:
            raise core.MachineryError(
                f"corrupted trace (expected {clause}) was not rejected by TLC: {verdict}")
    cov["corrupted_traces_rejected"] = [c for _, c in corrupted]
    clock = _phase("TLC trace validation", clock)
    cov["traces_validated_against_impl"] = len(traces)
    cov["divergences"] = len(diverged)
    if diverged:
        cov["divergence_samples"] = [
            {"trace": _brief(t), "tlc": diverged[t["id"]]}
            for t in traces if t["id"] in diverged][:3]
    predicted = confirmed = unpredicted = 0
    tally = {}
    for trace in sorted(traces, key=lambda t: t["id"]):
        case = by_id[trace["id"]]
        verdict = verdicts.get(trace["id"])
        predicted += bool(case["model_bad"])
        if verdict is None:
            if trace["id"] == 0:
                print("VERDICT trace=0 origin=tlc-counterexample ok (the real runs "
                      "do not reproduce the model's counter-example)")
            continue
        confirmed += bool(case["model_bad"])
        unpredicted += not case["model_bad"]
        clause = ",".join(sorted(verdict["v"]))
        known = out.violation(_brief(trace), clause, verdict["w"])
        tally[(clause, known)] = tally.get((clause, known), 0) + 1
        if trace["id"] == 0 or (known is None and tally[(clause, known)] <= 5):
            print(f"VERDICT trace={trace['id']} origin={case['origin']} "
                  f"scheme={trace['scheme']} ver={trace['ver'][:trace['nruns']]} "
                  f"proc={trace['proc'][:trace['nruns']]} mode={trace['mode']} "
                  f"pre={trace['pre']} sched={trace['sched']} fails={clause} "
                  f"finding={known}")
    for (clause, known), num in sorted(tally.items(), key=str):
        print(f"VERDICTS failing={clause} finding={known} traces={num}")
    cov["failing_clause_tally"] = [[c, k, n] for (c, k), n in sorted(tally.items(), key=str)]
    cov["model_predicted_violating_schedules"] = predicted
    cov["predicted_and_confirmed_by_real_trace"] = confirmed
    cov["real_violations_not_predicted_by_model"] = unpredicted
    cov["failing_traces"] = len(verdicts)
    print(f"[C29] traces={len(traces)} failing={len(verdicts)} "
          f"model-predicted={predicted} confirmed={confirmed} "
          f"divergent={len(diverged)} steps-compared={steps} differing={differ}")

    ok_sample = next((t for t in traces if t["id"] not in verdicts
                      and t["nruns"] == 3 and t["scheme"] == "multiple"), None)
    bad_sample = next((t for t in traces if t["id"] in verdicts), None)
    for smp in (ok_sample, bad_sample):
        if smp:
            cov["samples"].append({"trace": _brief(smp),
                                   "tlc_verdict": verdicts.get(smp["id"], "ok")})
    cov["evaluations"] = len(traces)
    cov["distinct_nontrivial"] = len({(t["scheme"], t["pre"], tuple(t["ver"]),
                                       tuple(t["proc"]), t["mode"],
                                       t["nruns"], t["split"], tuple(t["sched"]))
                                      for t in traces if t["nruns"] > 1})
    cov["rule"] = ("a case is (scheme, earlier file, kernel version per run, process "
                   "per run + how same-process runs are realised, number "
                   "of runs, split writes, schedule); distinct = distinct tuples with "
                   ">= 2 runs; every case is replayed with real threads and its "
                   "recorded trace validated by TLC")
    cov["exhaustive"] = False
    cov["exhaustive_part"] = ("model: all interleavings of 1..3 runs; real replays: all "
                              "schedules of the configurations counted in "
                              "schedules.configurations_exhaustive, the others sampled "
                              "(+ every transition of the 2-run graphs)")
    return out.finish(cov, assumptions=[
        "a run = one rename_and_write call on its own transformed kernel object (LFRic "
        "testkern; version 1 = ACCRoutineTrans, version 2 = Dynamo0p3KernelConstTrans); "
        "runs of one process follow each other in one thread: as successive psy.gen of "
        "fresh PSy objects (1_single_invoke.f90) or as kernel objects of ONE PSy layer "
        "(4.8_multikernel_invokes.f90) whose rename_and_write calls follow each other",
        "processes are threads of one interpreter; per-process memory is emulated: every "
        "mutable class-level attribute of CodedKern (bases, subclasses) and module-level "
        "attribute of psyclone.psyGen gets a private copy per process, installed "
        "whenever a run of that process executes (Config is identical for all runs)",
        "linearisation points are the calls psyGen makes through `os`/`open`; "
        "run-local work between two calls is atomic with the preceding call",
        "a file-system call is atomic (`split` models a write seen in two halves); "
        "os.link publishes a complete file or fails",
        "content classes are relative to the text the same code writes in a "
        "sequential, unshimmed run"])


def replay_file(path):
    '''Re-run one recorded case (a replays/C29-*.json file or a JSON object with
    scheme, pre, ver, nruns, split, sched) with real runs and let TLC judge it.'''
    core.setup_psyclone_env()
    with open(path) as fin:
        data = json.load(fin)
    case = dict(data.get("case", data))
    case.setdefault("split", False)
    case["id"] = 1
    _prepare()
    case.setdefault("proc", [1, 2, 3])
    case.setdefault("mode", "gen")
    trace = _replay_chunk([{k: case[k] for k in ("id", "scheme", "pre", "ver", "proc",
                                                  "mode", "nruns", "split", "sched")}])[0]
    if "stall" in trace:
        raise core.MachineryError(trace["stall"])
    for event in trace["events"]:
        print("  ", event["run"], event["call"], event["name"], event["flags"],
              event["res"], event["cls"], event["fs"])
    print("   end:", [(f["res"], f["used"]) for f in trace["fin"][:trace["nruns"]]])
    tmp = core.mktemp("pv-c29-")
    try:
        cov = {"states": 0, "transitions": 0}
        verdicts, diverged = _validate([trace], tmp, 2, cov)
    finally:
        shutil.rmtree(tmp, ignore_errors=True)
    print("VERDICT", json.dumps(verdicts.get(1, "ok")))
    if diverged:
        print("DIVERGE", json.dumps(diverged[1]))
    return 1 if verdicts else 0


if __name__ == "__main__":
    sys.exit(replay_file(sys.argv[1]))
