'''C16, binding B (code -> spec): recorder of the public SymbolTable calls made
on real PSyclone objects while the repository's own tests run.

`install()` monkeypatches the public operations SymTab.tla models.  Only
TOP-LEVEL calls are events (a depth counter: what an operation calls
internally - and the transient states in between - is not recorded).  For every
event the LOCAL state is projected before and after the call:

  tables    1 = the table the call is made on, then its enclosing scopes up to
            the root (found by walking the node tree, not by asking the table),
            then scopes that only enclose it afterwards (attach), then the
            other table of merge / next_available_name;
  entries   per table (dict key, symbol identity, actual name, class,
            interface kind, import source), tags (tag, symbol identity) and
            the argument list - RESTRICTED to what the call involves: entries
            that differ between before and after, and every entry (in any of
            the tables) whose key or name equals, up to case, a name that is
            passed, returned, or carried by such an entry or by a symbol that
            is passed or returned; tags that are passed, changed, or point to
            an included symbol (plus their targets).  get_symbols and merge
            take the whole tables.  The same restriction is applied before and
            after, so "nothing changed" is preserved exactly.

Symbols become small integers in order of appearance and names are replaced,
consistently within the event, by short strings with the same case structure
(equal strings stay equal, strings equal up to ASCII case stay equal up to
case): the clauses only need equality of normalised names, identity of symbols
and scope order, and equal events of different tests collapse.

Nothing here judges an event: equal events are de-duplicated and counted; TLC
(Trace_SymTab_Local.tla = SymTab!Verdict) decides each distinct one.
'''
import inspect
import json
import os

GUARD = "SVALAT_PSYCLONE_VERIF"
MAX_ENTRIES = 90          # larger local states are skipped (counted)
MAX_CHAIN = 12
PER_TEST_OP = int(os.environ.get("C16_PER_TEST_OP", "60"))

IFC = {"AutomaticInterface": "auto", "ArgumentInterface": "arg",
       "ImportInterface": "imp", "UnresolvedInterface": "unres",
       "FortranModuleInterface": "mod"}
# method -> operation name of SymTab.tla
METHODS = {"add": "add", "new_symbol": "new_symbol",
           "find_or_create": "find_or_create",
           "find_or_create_tag": "find_tag",
           "next_available_name": "next_name", "rename_symbol": "rename",
           "remove": "remove", "swap": "swap",
           "swap_symbol_properties": "swap_props",
           "specify_argument_list": "set_args", "merge": "merge",
           "attach": "attach", "detach": "detach", "lookup": "lookup",
           "lookup_with_tag": "lookup_tag", "get_symbols": "get_symbols"}
WHOLE = ("get_symbols", "merge")


class Skip(Exception):
    '''The event is outside what the projection can express (counted).'''


class Recorder:
    def __init__(self):
        self.depth = 0
        self.on = False
        self.context = ""
        self.events = 0
        self.raised = 0
        self.by_op = {}
        self.skipped = {}
        self.shapes = {}          # canonical event json -> [count, ctx, actual]
        self.budget = {}          # (context, op) -> events so far
        self.installed = 0
        self.Symbol = None
        self.ContainerSymbol = None
        self.SymbolTable = None

    def _skip(self, why):
        self.skipped[why] = self.skipped.get(why, 0) + 1

    # --------------------------------------------------------- snapshots
    def chain(self, tab):
        '''tab and the tables of the scopes that enclose it (innermost first).
        A scope WITHOUT a table between two scopes is a state the model does
        not generate (see binding A): skipped.'''
        out = [tab]
        node = tab.__dict__.get("_node")
        hops = 0
        while node is not None:
            node = node.__dict__.get("_parent")
            hops += 1
            if node is None:
                break
            if hops > 4000:
                raise Skip("scope_chain_too_long")
            if hasattr(node, "symbol_table"):
                nxt = node.__dict__.get("_symbol_table")
                if nxt is None:
                    raise Skip("enclosing_scope_without_table")
                if not isinstance(nxt, self.SymbolTable):
                    raise Skip("foreign_table_object")
                out.append(nxt)
        if len(out) > MAX_CHAIN:
            raise Skip("scope_chain_too_long")
        return out

    def snap(self, tab):
        '''(entries, tags, args) of one table from its internals.'''
        d = tab.__dict__
        entries = []
        for key, sym in d["_symbols"].items():
            if not isinstance(key, str) or not isinstance(sym, self.Symbol):
                raise Skip("foreign_entry_in_table")
            name = sym.__dict__.get("_name")
            if not isinstance(name, str):
                raise Skip("foreign_entry_in_table")
            ifc = sym.__dict__.get("_interface")
            cont = None
            iname = type(ifc).__name__
            if iname == "ImportInterface":
                cont = ifc.__dict__.get("_container_symbol")
            cls = "ContainerSymbol" if isinstance(sym, self.ContainerSymbol) \
                else type(sym).__name__
            entries.append((key, sym, name, cls, IFC.get(iname, iname), cont))
        tags = [(t, s) for t, s in d["_tags"].items()]
        args = list(d["_argument_list"])
        return entries, tags, args

    # ------------------------------------------------------------- events
    def event(self, meth, tab, bound, call):
        '''Run `call` as a top-level event of operation METHODS[meth].'''
        opname = METHODS[meth]
        key = (self.context, opname)
        if self.budget.get(key, 0) >= PER_TEST_OP:
            self._skip("per_test_budget")
            return call()
        try:
            info = self.arguments(opname, bound)
            pre_chain = self.chain(tab)
            others = [info["other"]] if info.get("other") is not None else []
            tables = list(pre_chain)
            for t in others:
                if any(t is x for x in tables):
                    raise Skip("other_table_is_in_the_scope_chain")
            pre = {id(t): self.snap(t) for t in tables + others}
        except Skip as err:
            self._skip(str(err))
            return call()
        except Exception as err:   # noqa  the recorder must never break a test
            self._skip("recorder_error:" + type(err).__name__)
            return call()
        n_pre = len(tables)
        self.depth += 1
        exc = None
        result = None
        try:
            result = call()
        except Exception as err:   # noqa  recorded, then re-raised
            exc = err
        finally:
            self.depth -= 1
        try:
            self.depth += 1        # the projection must not create events
            try:
                self.finish(opname, tab, info, tables, n_pre, others, pre,
                            result, exc)
            finally:
                self.depth -= 1
        except Skip as err:
            self._skip(str(err))
        except Exception as err:   # noqa  the recorder must never break a test
            self._skip("recorder_error:" + type(err).__name__)
        if exc is not None:
            raise exc
        return result

    def arguments(self, opname, a):
        '''Names / symbols / tags / flags passed to the call.'''
        Sym = self.Symbol
        info = {"names": [], "syms": [], "tags": [], "op": {}, "odd": False}

        def name(v, field="n"):
            if isinstance(v, str):
                info["names"].append(v)
                info["op"][field] = ("name", v)
            elif v is not None:
                info["odd"] = True

        def sym(v):
            if isinstance(v, Sym):
                info["syms"].append(v)
            else:
                info["odd"] = True

        def tag(v):
            if isinstance(v, str):
                info["tags"].append(v)
                info["op"]["tg"] = ("atom", v)
            elif v is not None:
                info["odd"] = True

        if opname == "add":
            sym(a["new_symbol"])
            tag(a["tag"])
        elif opname == "new_symbol":
            name(a["root_name"])
            tag(a["tag"])
            if not isinstance(a["shadowing"], bool):
                info["odd"] = True
            info["op"]["sh"] = bool(a["shadowing"])
        elif opname == "find_or_create":
            name(a["name"])
            kw = a.get("new_symbol_args", {})
            info["op"]["sh"] = bool(kw.get("shadowing", False))
            tag(kw.get("tag"))
            if not isinstance(a["name"], str):
                info["odd"] = True
        elif opname == "find_tag":
            tag(a["tag"])
            name(a["root_name"])
            kw = a.get("new_symbol_args", {})
            info["op"]["sh"] = bool(kw.get("shadowing", False))
            if not isinstance(a["tag"], str):
                info["odd"] = True
        elif opname == "next_name":
            name(a["root_name"])
            if not isinstance(a["shadowing"], bool):
                info["odd"] = True
            info["op"]["sh"] = bool(a["shadowing"])
            oth = a["other_table"]
            if isinstance(oth, self.SymbolTable):
                info["other"] = oth
            elif oth:
                info["odd"] = True
        elif opname == "rename":
            sym(a["symbol"])
            name(a["name"])
        elif opname == "remove":
            sym(a["symbol"])
        elif opname == "swap":
            sym(a["old_symbol"])
            sym(a["new_symbol"])
        elif opname == "swap_props":
            sym(a["symbol1"])
            sym(a["symbol2"])
        elif opname == "set_args":
            if isinstance(a["argument_symbols"], list):
                for v in a["argument_symbols"]:
                    sym(v)
            else:
                info["odd"] = True
        elif opname == "merge":
            oth = a["other_table"]
            if isinstance(oth, self.SymbolTable):
                info["other"] = oth
            else:
                info["odd"] = True
            skip = a["symbols_to_skip"]
            info["skip"] = []
            if isinstance(skip, (list, tuple, set, frozenset)):
                for v in skip:
                    if isinstance(v, Sym):
                        info["skip"].append(v)
            else:
                info["odd"] = True
        elif opname == "lookup":
            name(a["name"])
            if not isinstance(a["name"], str):
                info["odd"] = True
            if a["visibility"] is not None or a["scope_limit"] is not None:
                raise Skip("lookup_limited_by_visibility_or_scope")
        elif opname == "lookup_tag":
            tag(a["tag"])
            if not isinstance(a["tag"], str):
                info["odd"] = True
            if a["scope_limit"] is not None:
                raise Skip("lookup_limited_by_visibility_or_scope")
        elif opname == "get_symbols":
            if a["scope_limit"] is not None:
                raise Skip("lookup_limited_by_visibility_or_scope")
        return info

    def finish(self, opname, tab, info, tables, n_pre, others, pre, result, exc):
        # pylint: disable=too-many-locals,too-many-branches,too-many-statements
        Sym = self.Symbol
        if exc is None and info["odd"]:
            raise Skip("odd_arguments_accepted")
        post_chain = self.chain(tab)
        for t in post_chain:
            if not any(t is x for x in tables):
                tables.append(t)          # scopes that enclose it only afterwards
        for t in others:
            if any(t is x for x in post_chain):
                raise Skip("other_table_is_in_the_scope_chain")
        universe = tables + others
        post = {id(t): self.snap(t) for t in universe}
        for t in universe:
            if id(t) not in pre:          # it was not reachable before: unchanged
                pre[id(t)] = post[id(t)]
        idx = {id(t): i + 1 for i, t in enumerate(universe)}

        def parents(chain):
            par = [0] * len(universe)
            for a, b in zip(chain, chain[1:]):
                par[idx[id(a)] - 1] = idx[id(b)]
            return par
        par_pre = parents(tables[:n_pre])
        par_post = parents(post_chain)
        # ---- what the call involves
        names = {n.lower() for n in info["names"]}
        syms = {id(s) for s in info["syms"]} | {id(s) for s in info.get("skip", [])}
        tags = set(info["tags"])
        res = {"t": "none"}
        if exc is not None:
            res = {"t": "exc", "type": ("atom", type(exc).__name__)}
        elif opname in ("new_symbol", "find_or_create", "find_tag", "lookup",
                        "lookup_tag"):
            if not isinstance(result, Sym):
                raise Skip("unexpected_result_type")
            syms.add(id(result))
            res = {"t": "sym", "id": ("sym", result),
                   "name": ("name", result.__dict__["_name"])}
        elif opname == "next_name":
            if not isinstance(result, str):
                raise Skip("unexpected_result_type")
            names.add(result.lower())
            res = {"t": "name", "name": ("name", result)}
        elif opname == "get_symbols":
            if not isinstance(result, dict) or \
                    not all(isinstance(v, Sym) for v in result.values()):
                raise Skip("unexpected_result_type")
            res = {"t": "set", "ids": [("sym", v) for v in result.values()]}
        whole = set()
        if opname == "get_symbols":
            whole = {id(t) for t in tables}
        elif opname == "merge":
            whole = {id(tab)} | {id(t) for t in others}

        def ekey(e):
            return (e[0], id(e[1]), e[2], e[3], e[4], id(e[5]) if e[5] is not None else 0)
        for t in universe:
            a, b = pre[id(t)], post[id(t)]
            ka, kb = {ekey(e) for e in a[0]}, {ekey(e) for e in b[0]}
            for e in a[0] + b[0]:
                if (ekey(e) in ka) != (ekey(e) in kb):
                    syms.add(id(e[1]))
                    names.add(e[0].lower())
                    names.add(e[2].lower())
            ta = {(g[0], id(g[1])) for g in a[1]}
            tb = {(g[0], id(g[1])) for g in b[1]}
            for g in ta ^ tb:
                tags.add(g[0])
            if [id(s) for s in a[2]] != [id(s) for s in b[2]]:
                syms.update(id(s) for s in a[2] + b[2])
        # names carried by the symbols that are passed / returned / changed
        for t in universe:
            for snapshot in (pre[id(t)], post[id(t)]):
                for e in snapshot[0]:
                    if id(e[1]) in syms:
                        names.add(e[0].lower())
                        names.add(e[2].lower())
        for s in info["syms"] + info.get("skip", []):
            names.add(s.__dict__["_name"].lower())
        # tags that point to an involved symbol, and the targets of involved tags
        for _ in range(2):
            for t in universe:
                for snapshot in (pre[id(t)], post[id(t)]):
                    inc = {id(e[1]) for e in snapshot[0]
                           if id(t) in whole or id(e[1]) in syms
                           or e[0].lower() in names or e[2].lower() in names}
                    for g in snapshot[1]:
                        if g[0] in tags or id(g[1]) in inc or id(g[1]) in syms:
                            tags.add(g[0])
                            syms.add(id(g[1]))
        # ---- the restricted projection
        ids, strings = {}, []

        def ident(obj):
            if obj is None:
                return 0
            if id(obj) not in ids:
                ids[id(obj)] = len(ids) + 1
            return ids[id(obj)]

        def string(text):
            strings.append(text)
            return ("name", text)

        def project(snaps, par):
            out = []
            total = 0
            for t in universe:
                ents, tgs, args = snaps[id(t)]
                rows = []
                for e in ents:
                    if id(t) in whole or id(e[1]) in syms or \
                            e[0].lower() in names or e[2].lower() in names:
                        rows.append([ident(e[1]), string(e[0]), string(e[2]),
                                     ("atom", e[3]), ("atom", e[4]), ident(e[5])])
                kept = {id(e[1]) for e in ents}
                trow = [[("atom", g[0]), ident(g[1])] for g in tgs
                        if g[0] in tags or id(g[1]) in syms
                        or (id(t) in whole and id(g[1]) in kept)]
                shown = {r[0] for r in rows}
                arow = [ident(s) for s in args if ident(s) in shown]
                total += len(rows)
                out.append([rows, trow, arow])
            if total > MAX_ENTRIES:
                raise Skip("local_state_too_large")
            return {"t": out, "p": par}
        ev_pre = project(pre, par_pre)
        ev_post = project(post, par_post)
        op = {"name": opname, "s": 1}
        for fld, val in info["op"].items():
            op[fld] = string(val[1]) if isinstance(val, tuple) and val[0] == "name" else val
        if opname == "next_name":
            op.setdefault("n", string(""))
            op["o"] = idx[id(others[0])] if others else 0
        if opname == "lookup":
            op.setdefault("n", string(""))
        if opname == "find_or_create":
            op.setdefault("n", string(""))
        if opname in ("lookup_tag", "find_tag"):
            op.setdefault("tg", ("atom", ""))
        if opname == "merge":
            if not others:
                op["name"] = "other"      # refused before anything could happen
            else:
                op["o"] = idx[id(others[0])]
                op["skip"] = sorted({ident(s) for s in info["skip"]})
        if info["odd"] and opname not in ("merge",):
            # a refused call with arguments of the wrong type: only the clauses
            # that every operation has (RefusalAtomic) apply
            op = {"name": "other", "s": 1}
        if "name" in res and isinstance(res["name"], tuple):
            res["name"] = string(res["name"][1])
        if "id" in res:
            res["id"] = ident(res["id"][1])
        if "ids" in res:
            res["ids"] = sorted(ident(v[1]) for v in res["ids"])
        event = {"pre": ev_pre, "post": ev_post, "op": op,
                 "out": 0 if exc is not None else 1, "res": res}
        for text in strings:
            if not text.isascii():
                raise Skip("non_ascii_name")
        actual = json.dumps(event, sort_keys=True, default=list)
        canon = self.abstract(event, strings)
        self.events += 1
        self.by_op[opname] = self.by_op.get(opname, 0) + 1
        if exc is not None:
            self.raised += 1
        bkey = (self.context, opname)
        self.budget[bkey] = self.budget.get(bkey, 0) + 1
        ent = self.shapes.get(canon)
        if ent is None:
            self.shapes[canon] = [1, self.context, actual]
        else:
            ent[0] += 1

    @staticmethod
    def abstract(event, strings):
        '''Rename the strings consistently (same case structure) and return the
        canonical JSON of the event.'''
        classes, variants, mapping = {}, {}, {}
        for text in strings:
            if text in mapping:
                continue
            low = text.lower()
            if low not in classes:
                k = len(classes)
                classes[low] = "n" + chr(97 + k // 676 % 26) + \
                    chr(97 + k // 26 % 26) + chr(97 + k % 26)
                variants[low] = 0
            base = classes[low]
            if text == low:
                mapping[text] = base
            else:
                variants[low] += 1
                k = variants[low]
                if k > 15:
                    raise Skip("too_many_case_variants")
                mapping[text] = "".join(
                    c.upper() if (k >> i) & 1 else c for i, c in enumerate(base))

        def walk(v):
            if isinstance(v, tuple):
                if v[0] == "name":
                    return {"$n": mapping[v[1]]}
                return {"$a": v[1]}
            if isinstance(v, list):
                return [walk(x) for x in v]
            if isinstance(v, dict):
                return {k: walk(x) for k, x in v.items()}
            return v
        return json.dumps(walk(event), sort_keys=True, separators=(",", ":"))

    # -------------------------------------------------------------- install
    def install(self):
        if self.installed:
            return self.installed
        from psyclone.psyir.symbols import (Symbol, ContainerSymbol,
                                            SymbolTable)
        self.Symbol = Symbol
        self.ContainerSymbol = ContainerSymbol
        self.SymbolTable = SymbolTable
        rec = self

        def wrap(meth):
            orig = SymbolTable.__dict__[meth]
            sig = inspect.signature(orig)

            def wrapper(self, *args, **kwargs):
                if rec.depth or not rec.on:
                    return orig(self, *args, **kwargs)
                try:
                    bound = sig.bind(self, *args, **kwargs)
                    bound.apply_defaults()
                except TypeError:
                    return orig(self, *args, **kwargs)
                return rec.event(meth, self, bound.arguments,
                                 lambda: orig(self, *args, **kwargs))
            wrapper.__name__ = meth
            wrapper.__doc__ = orig.__doc__
            wrapper.__wrapped__ = orig
            setattr(SymbolTable, meth, wrapper)

        for meth in METHODS:
            wrap(meth)
            self.installed += 1
        self.on = True
        return self.installed

    def dump(self):
        shapes = [{"event": key, "count": val[0], "test": val[1], "actual": val[2]}
                  for key, val in self.shapes.items()]
        return {"shapes": shapes, "events": self.events, "raised": self.raised,
                "by_op": self.by_op, "skipped": self.skipped,
                "installed": self.installed}


RECORDER = Recorder()


def active():
    return os.environ.get(GUARD) == "1"
